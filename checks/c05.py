"""C05 - the linear program optyx extracts is the model the user wrote.

Proof: Props/C05.v (linear_decomposition, objective, rows with senses and order,
       alignment, shortcuts = general walker under the API's monotone-view
       guarantee, reported objective value incl. constant, both orientations).
Tie:   LinearProgramExtractor().extract(P) (c, c0, sense, A_ub, b_ub, A_eq, b_eq,
       variable names), extract_all_linear_coefficients, extract_linear_coefficient
       and extract_constant_term must equal the model's extract_lp / extract_all /
       coef / cterm EXACTLY (floats read as rationals; generated coefficients are
       small dyadics so float arithmetic is exact), for models written through
       every mix of API forms.  The theorem's hypotheses (wf, nodiv0, aligned) are
       evaluated on every case.
Search: the identity c.x + c0 = obj(x), A.x - b = +/- expr(x) at rational points,
       evaluated with the implementation's own evaluate()."""
from __future__ import annotations

import random
import numpy as np

import verifkit as vk
import gen
import ser
from checks import common
from checks.common import Cases

LEVEL = "proof"
IMPORTS = "Occ Degree Linear LinearProofs Vars"
DEFS = """
Definition aligned_if_fast (V : list string) (e : expr) : bool :=
  match fast_path V e with Some _ => aligned V e | None => true end.
Definition qrows_eqb (a b : list (list Q)) : bool := list_eqb (list_eqb Qeq_bool) a b.
Definition lp_eqb (d : lpdata) (c : list Q) (c0 : Q) (mx : bool) (aub : list (list Q)) (bub : list Q)
                  (aeq : list (list Q)) (beq : list Q) (names : list string) : bool :=
  list_eqb Qeq_bool (lp_c d) c && Qeq_bool (lp_c0 d) c0 && Bool.eqb (lp_max d) mx
  && qrows_eqb (lp_Aub d) aub && list_eqb Qeq_bool (lp_bub d) bub
  && qrows_eqb (lp_Aeq d) aeq && list_eqb Qeq_bool (lp_beq d) beq
  && list_eqb String.eqb (lp_names d) names.
"""
CHECKER = ("fun k => match k with (V, obj, mx, cs, (c, c0, aub, bub, aeq, beq), per) => "
           "let es := obj :: map fst cs in "
           "forallb wf es && forallb nodiv0 es && forallb (aligned_if_fast V) es && is_linear_problem obj cs "
           "&& list_eqb String.eqb (problem_variables (Some obj) (map fst cs)) V "   # the columns are exactly the model's variables (C16)
           "&& lp_eqb (extract_lp V obj mx cs) c c0 mx aub bub aeq beq V "
           "&& list_eqb Qeq_bool (all_coefs V obj) per end")
CASE_TYPE = ("list string * expr * bool * list (expr * sense) * "
             "(list Q * Q * list (list Q) * list Q * list (list Q) * list Q) * list Q")
SENSE = {"<=": "Le", ">=": "Ge", "==": "Eq"}


def linear_expr(g: gen.Gen, depth=3):
    from optyx.analysis import is_linear
    for _ in range(30):
        e = g.expr(depth)
        if is_linear(e) and e.get_variables():
            return e
    x = g.view()
    return g.coeffs(x.size) @ x + 1


def constraints_for(g: gen.Gen, r):
    """Constraints written through every API form; returns a flat list of Constraint."""
    out = []
    for _ in range(r.randint(0, 5)):
        k = r.randrange(9)
        x = g.view()
        c = r.choice([1, 2, 10, 0.5, -3, 4])
        if k == 0:
            out.append(linear_expr(g, 2) <= c)
        elif k == 1:
            out.append(linear_expr(g, 2) >= c)
        elif k == 2:
            out.append(linear_expr(g, 2).eq(c))
        elif k == 3:
            out.append(g.coeffs(x.size) @ (x + r.choice([1, 2, -1])) <= c)
        elif k == 4:
            out.append((x.sum() + r.choice([0, 5])) ** 1 <= c)
        elif k == 5:
            out += list(x >= r.choice([0, -1]))
        elif k == 6:
            A = np.array([[float(r.choice([0, 1, 2, -1])) for _ in range(x.size)] for _ in range(r.randint(1, 2))])
            out += list((A @ x) <= g.coeffs(A.shape[0]))
        elif k == 7:
            out.append(c <= linear_expr(g, 2))          # reflected comparison
        else:
            out.append(x.sum() * c - 1 >= linear_expr(g, 1))
    return out


def vector_only(g: gen.Gen, r):
    """Objective and constraints over ONE vector whose elements are all the problem's variables, so that the O(1) extraction
    paths are eligible: whole vector, copies, reversed, strided (interleaved with the rest), partial views; coefficient arrays
    with pairwise distinct entries; element terms before and after a sum of the same vector."""
    from optyx import VectorVariable
    n = r.randint(2, 6)
    x = VectorVariable(r.choice(["x", "v", "w"]), n)
    def views():
        vs = [x, x[:], x[0:n], x[::-1]]
        if n >= 3:
            vs += [x[::2], x[1::2], x[0:n - 1], x[1:n], x[::-2]]
        return vs
    def arr(m):
        b = r.choice([1.0, 0.5, 2.0])
        return np.array([b * (k + 1) * (-1 if k == 1 else 1) for k in range(m)])
    def form():
        w = r.choice(views())
        k = r.randrange(12)
        i = r.randrange(n)
        if k == 0:
            return arr(w.size) @ w
        if k == 1:
            return w @ arr(w.size) + r.choice([0, 2.5, -1])
        if k == 2:
            return w.sum()
        if k == 3:
            return r.choice([2, -1, 0.5]) * x[i] + w.sum()            # element term BEFORE a sum containing it
        if k == 4:
            return w.sum() + r.choice([2, -1, 0.5]) * x[i]
        if k == 5:
            return x[i] - w.sum()
        if k == 6:
            return r.choice([2, 3]) * w.sum() - arr(w.size) @ w
        if k == 7:
            return arr(w.size) @ w - r.choice([1, 4])
        if k == 8:
            return r.choice([10, -2.5, 3]) - arr(w.size) @ w           # constant MINUS a whole-vector reduction
        if k == 9:
            return r.choice([7, 1.5]) - w.sum()
        if k == 10:
            return r.choice([4, -1]) + arr(w.size) @ w
        return (arr(w.size) @ w) * 2 + x[i]
    if n >= 3 and r.random() < 0.25:
        # the objective lives on ONE view, every constraint on ANOTHER view of the same vector whose printed name is the same
        # (a slice's name has no step): nothing else is mentioned, so the single-vector shortcuts of Problem.variables are eligible
        pairs = [(x[0:n:2], x[0:n]), (x[0:n], x[0:n:2]), (x[::-1], x[0:n:2]), (x[0:n:2], x[::-1])]
        if n >= 4:
            pairs += [(x[0:n:3], x[0:n:2]), (x[0:n:2], x[0:n:3])]
        va, vb = r.choice(pairs)
        red = lambda w: r.choice([lambda: arr(w.size) @ w, lambda: w.sum(), lambda: w @ arr(w.size) + 1.5, lambda: 3 - w.sum()])()
        obj = red(va)
        cons = [r.choice([lambda e: e <= 4, lambda e: e >= -3, lambda e: e.eq(1.0)])(red(vb)) for _ in range(r.randint(1, 2))]
        return obj, cons
    obj = form()
    cons = []
    for _ in range(r.randint(1, 4)):
        c = r.choice([1, 2, 10, 0.5, -3])
        e = form()
        cons.append(r.choice([lambda: e <= c, lambda: e >= c, lambda: e.eq(c), lambda: c <= e])())
    if r.random() < 0.6:
        cons += list(x >= 0)              # makes every element a problem variable
    else:
        cons.append(x.sum() <= 100)
    return obj, cons


def point_identity_witness(P, data, rng):
    """c.x + c0 = obj(x) and row identities at rational points, with the implementation's evaluate()."""
    names = list(data.variables)
    mentioned = set(v.name for v in P.objective.get_variables())
    for con in P.constraints:
        mentioned |= set(v.name for v in con.get_variables())
    if set(names) != mentioned:
        return {"what": "columns", "lp_columns": names, "variables_the_model_mentions": sorted(mentioned),
                "missing": sorted(mentioned - set(names)), "extra": sorted(set(names) - mentioned)}
    n_eq = sum(1 for con in P.constraints if con.sense == "==")
    n_ub = len(P.constraints) - n_eq
    got_ub = 0 if data.A_ub is None else len(data.A_ub)
    got_eq = 0 if data.A_eq is None else len(data.A_eq)
    if (got_ub, got_eq) != (n_ub, n_eq):
        return {"what": "row count", "inequality_rows": [got_ub, n_ub], "equality_rows": [got_eq, n_eq],
                "constraints": [repr(c)[:120] for c in P.constraints]}
    for _ in range(8):
        pt = {n: rng.choice(common.NICE) for n in names}
        x = np.array([pt[n] for n in names])
        obj = common.fval(P.objective.evaluate(pt))
        lhs = float(data.c @ x) + float(getattr(data, "c0", 0.0))
        if obj is not None and abs(lhs - obj) > 1e-9 * max(1.0, abs(obj)):
            return {"what": "objective", "point": pt, "c.x+c0": lhs, "objective(x)": obj}
        iu = ie = 0
        for con in P.constraints:
            val = common.fval(con.expr.evaluate(pt))
            if con.sense == "==":
                row, b = data.A_eq[ie], data.b_eq[ie]; ie += 1
                want = val
            else:
                row, b = data.A_ub[iu], data.b_ub[iu]; iu += 1
                want = val if con.sense == "<=" else -val
            got = float(row @ x) - float(b)
            if val is not None and abs(got - want) > 1e-9 * max(1.0, abs(want)):
                return {"what": f"constraint {con.sense}", "point": pt, "row.x-b": got, "expected": want, "constraint": repr(con)[:300]}
    return None


def run(rep: vk.Report):
    vk.proof_stage(rep, "C05")
    n = 700 if rep.tier == "quick" else 15000
    rng = common.rng_for(rep.seed, "C05")
    from optyx import Problem
    from optyx.analysis import LinearProgramExtractor, extract_linear_coefficient, is_linear
    cases = Cases("lp", IMPORTS, CASE_TYPE, CHECKER, defs=DEFS)
    keep = []
    unsupported = 0
    errors = {}
    forms = {}
    streams = {}
    hist = {}
    bounds_bad = 0
    # focused corpus (every linear reduction kind under every one-node context, NumPy-typed coefficients included): each linear member is
    # used once as an objective and once as a constraint body
    # (contexts whose constants are not exactly representable products / quotients in binary64 are left out: the LP data are
    #  compared EXACTLY with the rational model)
    focused = [(g_, e_) for g_, e_ in common.corpus(rng, rep.tier, 0, focus_profile="poly", gen_flags={"numpy_coefs": True},
                                                     exclude=["tiny", "huge", "f-1(", "f/c(", "f/C("])
               if is_linear(e_) and e_.get_variables()]
    for i in range(n + len(focused)):
        r = random.Random(rng.random())
        g = gen.Gen(r, profile="poly")
        try:
            if i >= n:
                g, fe = focused[i - n]
                r = g.rng
                if (i - n) % 2 == 0:
                    obj, cons = fe, [c for c in constraints_for(g, r) if is_linear(c.expr)]
                else:
                    obj = linear_expr(g)
                    cons = [r.choice([lambda: fe <= 3, lambda: fe >= -2, lambda: fe.eq(1.5), lambda: 2 <= fe])()]
                streams["focused"] = streams.get("focused", 0) + 1
            elif i % 5 < 2:
                obj, cons = vector_only(g, r)
                cons = [c for c in cons if is_linear(c.expr)]
                streams["vector-only"] = streams.get("vector-only", 0) + 1
            else:
                obj = linear_expr(g)
                cons = [c for c in constraints_for(g, r) if is_linear(c.expr)]
                streams["general"] = streams.get("general", 0) + 1
        except Exception as ex:
            errors["gen:" + type(ex).__name__] = errors.get("gen:" + type(ex).__name__, 0) + 1
            continue
        def do(obj, cons, r, mx=None, P=None):
            nonlocal unsupported, bounds_bad
            same_problem = P is not None
            if P is None:
                P = Problem()
            mx = (r.random() < 0.5) if mx is None else mx
            (P.maximize if mx else P.minimize)(obj)
            for v in obj.get_variables():
                if r.random() < 0.5:
                    v.lb = r.choice([None, 0, 0.0, -0.0, -1.5, 2])
                    v.ub = r.choice([None, 0, 0.0, -0.0, 3.5, 10])
                    if v.lb is not None and v.ub is not None and v.lb > v.ub:
                        v.lb = None
            if r.random() < 0.5:
                _ = P.n_variables, P.variables           # the variable list exists BEFORE the constraints arrive
                hist["variables-read-before-constraints"] = hist.get("variables-read-before-constraints", 0) + 1
            if cons and not same_problem:
                if r.random() < 0.5 and len(cons) >= 2:
                    # a list whose FIRST element brings variables the objective does not mention, the last one only known ones
                    cons = sorted(cons, key=lambda c: -len(c.get_variables() - obj.get_variables()))
                P.subject_to(cons)
            try:
                d = LinearProgramExtractor().extract(P)
                per = [extract_linear_coefficient(obj, v) for v in P.variables]
            except ZeroDivisionError:
                return None
            except Exception as ex:
                errors[type(ex).__name__] = errors.get(type(ex).__name__, 0) + 1
                rep.violation({"kind": "exception", "obligation": "extraction total on linear problems", "error": repr(ex)[:400],
                               "objective": repr(obj)[:400]}, concrete=True)
                return None
            S = ser.Ser()
            try:
                tobj = S.expr(obj)
                tcons = [f"({S.expr(c.expr)}, {SENSE[c.sense]})" for c in P.constraints]
            except ser.Unsupported:
                unsupported += 1
                return None
            ql = lambda arr: ser.lst(ser.q(float(v)) for v in arr)
            qm = lambda M: ser.lst(ql(row) for row in M) if M is not None else "[]"
            qv = lambda v: ql(v) if v is not None else "[]"
            declared = [(None if v.lb is None else float(v.lb), None if v.ub is None else float(v.ub)) for v in P.variables]
            got_b = [(None if b[0] is None or not np.isfinite(b[0]) else float(b[0]), None if b[1] is None or not np.isfinite(b[1]) else float(b[1]))
                     for b in (d.bounds or [])]
            if got_b != declared or [v.name for v in P.variables] != list(d.variables):
                bounds_bad += 1
                rep.violation({"kind": "correspondence", "obligation": "LPData.bounds / variables are the declared bounds of the problem's variables, in order",
                               "witness": {"variables": [v.name for v in P.variables], "lp_variables": list(d.variables), "declared": declared,
                                           "lp_bounds": got_b, "objective": repr(obj)[:200]}}, concrete=True)
            if (d.sense == "max") != mx:
                rep.violation({"kind": "sense", "obligation": "LPData.sense is the user's orientation", "got": d.sense, "maximize": mx}, concrete=True)
            lpt = f"({ql(d.c)}, {ser.q(float(getattr(d, 'c0', 0.0)))}, {qm(d.A_ub)}, {qv(d.b_ub)}, {qm(d.A_eq)}, {qv(d.b_eq)})"
            V = ser.lst(ser.s(nm) for nm in d.variables)
            cases.add(f"({V}, {tobj}, {'true' if mx else 'false'}, {ser.lst(tcons)}, {lpt}, {ql(per)})",
                      {"n_vars": len(d.variables), "n_cons": len(P.constraints), "maximize": mx})
            keep.append((P, d))
            if r.random() < 0.35 and len(P.variables) >= 1:
                # a bound edited AFTER the first extraction (branching, scenario sweep), then extracted again without any solve in
                # between: the LP data describe the problem as it stands NOW
                ev = r.choice(list(P.variables))
                ev.lb, ev.ub = r.choice([(0.5, 2.0), (None, 2.5), (-1.0, None), (1.0, 1.0), (0, 0), (None, None)])
                try:
                    d2 = LinearProgramExtractor().extract(P)
                    decl2 = [(None if v.lb is None else float(v.lb), None if v.ub is None else float(v.ub)) for v in P.variables]
                    got2 = [(None if b[0] is None or not np.isfinite(b[0]) else float(b[0]), None if b[1] is None or not np.isfinite(b[1]) else float(b[1]))
                            for b in (d2.bounds or [])]
                    same_rows = (np.array_equal(d2.c, d.c) and (d2.A_ub is None) == (d.A_ub is None) and (d.A_ub is None or np.array_equal(d2.A_ub, d.A_ub))
                                 and (d.b_ub is None or np.array_equal(d2.b_ub, d.b_ub)))
                    hist["bound-edit-then-extract-again"] = hist.get("bound-edit-then-extract-again", 0) + 1
                    if got2 != decl2 or not same_rows:
                        bounds_bad += 1
                        rep.violation({"kind": "history", "obligation": "LPData extracted after a bound edit carries the current bounds (and the same rows)",
                                       "witness": {"variables": [v.name for v in P.variables], "edited": ev.name, "declared_now": decl2, "lp_bounds": got2,
                                                   "rows_unchanged": bool(same_rows), "objective": repr(obj)[:200]}}, concrete=True)
                except Exception as ex:
                    errors["re-extract:" + type(ex).__name__] = errors.get("re-extract:" + type(ex).__name__, 0) + 1
            for c in P.constraints:
                forms[c.sense] = forms.get(c.sense, 0) + 1
            return P, mx
        done = do(obj, cons, r)
        if done is not None and cons and r.random() < 0.45:
            # model VARIANTS that share expression / constraint OBJECTS with the problem just extracted (scenario studies): the same
            # objects must be extracted afresh for the new column layout
            P0, mx0 = done
            from optyx import Variable as _Var
            Vp = list(P0.variables)
            cvars = set()
            for c_ in cons:
                cvars |= set(v.name for v in c_.get_variables())
            kind = r.randrange(4)
            try:
                if kind == 3 and len(Vp) >= 2:
                    # the SAME problem: its objective is replaced by one in which an objective-only variable gives way to a new one that
                    # sorts elsewhere - as many columns as before, every constraint row laid out anew
                    cand = [v for v in Vp if v.name not in cvars]
                    if cand:
                        u = r.choice(cand)
                        new_ = _Var(r.choice(["zz_new", "m_new", "A0_new"]))
                        obj2 = new_ * r.choice([1.5, -2.0, 0.5])
                        for j_, v in enumerate(Vp):
                            if v is not u:
                                obj2 = obj2 + float((j_ % 4) + 1) * v
                        streams["same-problem:objective-replaced"] = streams.get("same-problem:objective-replaced", 0) + 1
                        do(obj2 + 2.0, list(P0.constraints), r, r.choice([mx0, not mx0]), P=P0)
                elif kind == 0 and len(Vp) >= 2:
                    # same number of columns, same first column, one objective-only variable replaced by one that sorts elsewhere
                    cand = [v for v in Vp[1:] if v.name not in cvars] or [v for v in Vp if v.name not in cvars]
                    if cand:
                        u = r.choice(cand)
                        new_ = _Var(r.choice(["zz_new", "m_new", Vp[0].name + "_0new"]))
                        obj2 = new_ * r.choice([1.5, -2.0, 0.5])
                        for j_, v in enumerate(Vp):
                            if v is not u:
                                obj2 = obj2 + float((j_ % 4) + 1) * v
                        obj2 = obj2 + 1.0
                        streams["variant:replaced-variable"] = streams.get("variant:replaced-variable", 0) + 1
                        do(obj2, cons, r, mx0)
                elif kind == 1:
                    # the same objective OBJECT, the same constraint objects, one more constraint bringing a variable that sorts first / in between
                    new_ = _Var(r.choice(["a_0new", "m_new", "zz_new", Vp[0].name + "_0new"]))
                    streams["variant:extra-constraint"] = streams.get("variant:extra-constraint", 0) + 1
                    do(obj, list(cons) + [new_ + 2.0 * Vp[-1] <= 7.0], r, mx0)
                else:
                    # the constraint objects under a fresh objective over other variables
                    obj2 = linear_expr(g)
                    streams["variant:other-objective"] = streams.get("variant:other-objective", 0) + 1
                    do(obj2, cons, r, not mx0)
            except Exception as ex:
                errors["variant:" + type(ex).__name__] = errors.get("variant:" + type(ex).__name__, 0) + 1
    fails = cases.run(shard=150)
    for i in fails:
        P, d = keep[i]
        wit = point_identity_witness(P, d, rng)
        model = cases.model_answer(i, lambda t: "match " + t + " with (V, obj, mx, cs, _, _) => "
                                   "(extract_lp V obj mx cs, forallb (aligned_if_fast V) (obj :: map fst cs)) end")
        rep.violation({"kind": "correspondence", "obligation": "LPData = model extract_lp (Linear.v)", "case": cases.terms[i][:6000],
                       "meta": cases.meta[i], "model": model, "witness": wit}, concrete=wit is not None)
    cov = rep.coverage
    cov["evaluations"] = len(cases.terms)
    cov["distinct_nontrivial"] = cases.nontrivial
    cov["rule"] = ("linear problems written through every mix of API forms (scalar sums, x.sum(), c@x, c@(x+k), A@x rows, **1, "
                   "constant-valued factors, reflected comparisons, vector constraints), both orientations; all LPData fields "
                   "compared exactly with the model; distinct = distinct serialised case, non-trivial = >= 2 node kinds")
    cov["samples"] = [c[:500] for c in cases.terms[:3]]
    cov["streams"] = streams
    cov["histories"] = hist
    cov["bounds_disagreements"] = bounds_bad
    cov["constraint_sense_histogram"] = forms
    cov["node_kind_histogram"] = dict(sorted(cases.hist.items()))
    cov["unsupported_by_serialiser"] = unsupported
    cov["exceptions"] = errors
    cov["correspondence_failures"] = len(fails)
    cov["traces_validated_against_impl"] = len(cases.terms)
    rep.assumptions += ["float arithmetic on the generated small dyadic coefficients is exact (exact comparison of LP data)",
                        "vector views are monotone selections of the problem order (API guarantee; `aligned` evaluated per case)"]


def replay(rep, path):
    import json
    print(json.dumps(json.load(open(path)), indent=1)[:6000])
    return 0
