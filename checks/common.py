"""Helpers shared by the per-property correspondence checks."""
from __future__ import annotations

import hashlib
import random

import numpy as np

import gen
import ser
import coqrun


def rng_for(seed, tag):
    return random.Random(hashlib.sha256(f"{seed}:{tag}".encode()).hexdigest())


def gen_defs():
    """Definitions prepended to case files: generated constants come from GenTables."""
    return ""


def kinds_of(term: str):
    """node kinds occurring in a serialised term (for the evidence histogram)."""
    import re
    return set(re.findall(r"\((Const|Var|Param|Bin \w+|Un \w+|VSum|LinComb|Dot|L2n|L1n|QForm|VPowSum|VUnSum|VExprSum|MSum|Frob)\b", term))


class Cases:
    """A batch of cases for one checker; tracks distinct/non-trivial counts and samples."""

    def __init__(self, name, imports, case_type, checker, defs=""):
        self.name, self.imports, self.case_type, self.checker, self.defs = name, imports, case_type, checker, defs
        self.terms = []
        self.meta = []
        self.hashes = set()
        self.nontrivial = 0
        self.hist = {}

    def add(self, term, meta, kinds=None):
        h = hashlib.sha256(term.encode()).hexdigest()
        new = h not in self.hashes
        self.hashes.add(h)
        ks = kinds if kinds is not None else kinds_of(term)
        for k in ks:
            self.hist[k] = self.hist.get(k, 0) + 1
        if new and len(ks) >= 2:
            self.nontrivial += 1
        self.terms.append(term)
        self.meta.append(meta)

    def run(self, shard=300):
        if not self.terms:
            return []
        return coqrun.run_cases(self.imports, self.defs, self.case_type, self.terms, self.checker, shard=shard)

    def model_answer(self, i, expr_of_case):
        """Ask Coq what the model computes for case i (for the replay file).  Only for the first 25 failing cases of a batch:
        a change that breaks thousands of cases must not turn the report into thousands of coqc calls."""
        self._answers = getattr(self, "_answers", 0) + 1
        if self._answers > 25:
            return "<not evaluated: the first 25 failing cases of this batch carry the model's answer>"
        try:
            return coqrun.eval_term(self.imports, self.defs, expr_of_case(self.terms[i]))[-3000:]
        except Exception as e:
            return f"<could not evaluate: {e}>"


# ---------------------------------------------------------------- deep chains
def chain_terms(g: "gen.Gen", n: int, kind: str):
    """n small terms for an accumulation chain; kind selects the base term family."""
    r = g.rng
    pool = g.pool
    vs = pool.all_scalar_vars()
    terms = []
    for i in range(n):
        v = vs[i % len(vs)]
        if kind == "lin":
            terms.append(r.choice([1, 2, 0.5, -1]) * v)
        elif kind == "var":
            terms.append(v)
        elif kind == "sq":
            terms.append(v ** 2)
        elif kind.startswith("fn:"):
            terms.append(gen.FN[kind[3:]](v))
        elif kind == "vec":
            x = pool.vectors[i % len(pool.vectors)]
            terms.append(r.choice([x.sum(), g.coeffs(x.size) @ x, x.dot(x), (x ** 2).sum()]))
        else:
            terms.append(v)
    return terms


def build_chain(terms, op: str, assoc: str):
    """left-deep / right-deep / balanced accumulation with a Python operator."""
    import operator
    f = {"+": operator.add, "-": operator.sub, "*": operator.mul, "/": operator.truediv}[op]
    if assoc == "left":
        acc = terms[0]
        for t in terms[1:]:
            acc = f(acc, t)
        return acc
    if assoc == "right":
        acc = terms[-1]
        for t in reversed(terms[:-1]):
            acc = f(t, acc)
        return acc
    def bal(ts):
        if len(ts) == 1:
            return ts[0]
        m = len(ts) // 2
        return f(bal(ts[:m]), bal(ts[m:]))
    return bal(terms)


CHAIN_DEFS = """
Definition chain_l (o : bop) (ts : list expr) : expr :=
  match ts with [] => Const (QQ 0 1) | t :: r => fold_left (fun acc x => Bin o acc x) r t end.
Fixpoint chain_r (o : bop) (ts : list expr) : expr :=
  match ts with [] => Const (QQ 0 1) | [t] => t | t :: r => Bin o t (chain_r o r) end.
Fixpoint chain_bal_fuel (fuel : nat) (o : bop) (ts : list expr) : expr :=
  match fuel with
  | O => Const (QQ 0 1)
  | S f => match ts with
           | [] => Const (QQ 0 1)
           | [t] => t
           | _ => let m := Nat.div (List.length ts) 2 in
                  Bin o (chain_bal_fuel f o (firstn m ts)) (chain_bal_fuel f o (skipn m ts))
           end
  end.
Definition chain (assoc : nat) (o : bop) (ts : list expr) : expr :=
  match assoc with
  | O => chain_l o ts
  | S O => chain_r o ts
  | _ => chain_bal_fuel (S (List.length ts)) o ts
  end.
"""
ASSOC = {"left": 0, "right": 1, "balanced": 2}


# ---------------------------------------------------------------- numeric channel
from fractions import Fraction

NICE = [0.5, 1.5, 0.75, 2.0, 0.25, 1.25, 0.625, 3.0, -0.5, -1.5, 0.375, 2.5, 0.875, -0.75, 1.0, 1.75]
NICE_POS = [0.5, 0.75, 0.25, 0.625, 0.375, 0.875, 1.25, 1.5, 2.0]


def pick_point(rng, names, positive_bias=0.7):
    pool = NICE_POS if rng.random() < positive_bias else NICE
    return {n: rng.choice(pool) for n in names}


def pts_term(d: dict) -> str:
    return ser.lst(f"({ser.s(k)}, {ser.q(v)})" for k, v in sorted(d.items()))


def params_of(e, acc=None):
    """Parameter objects reachable from an expression (for the parameter valuation)."""
    from optyx.core.parameters import Parameter
    from optyx.core.expressions import BinaryOp, UnaryOp
    acc = {} if acc is None else acc
    stack = [e]
    seen = set()
    while stack:
        n = stack.pop()
        if id(n) in seen:
            continue
        seen.add(id(n))
        if isinstance(n, Parameter):
            acc[n.name] = n
        elif isinstance(n, BinaryOp):
            stack += [n.left, n.right]
        elif isinstance(n, UnaryOp):
            stack.append(n.operand)
        else:
            for attr in ("vector", "left", "right", "expression", "matrix"):
                sub = getattr(n, attr, None)
                if sub is None:
                    continue
                for lst_attr in ("_expressions", "_variables"):
                    items = getattr(sub, lst_attr, None)
                    if items is not None:
                        for it in items:
                            if isinstance(it, list):
                                stack += it
                            else:
                                stack.append(it)
    return acc


def fval(x):
    """Python/NumPy scalar -> float, or None if it is not a finite scalar."""
    try:
        if np.iscomplexobj(x):
            return None          # a complex result means the point is outside the real domain
        a = np.asarray(x, dtype=float)
        if a.size != 1:
            return None
        f = float(a.reshape(()))
    except Exception:
        return None
    return f if np.isfinite(f) else None


NUM_CHECKER = "fun c => match c with (e, pts, ppts, obs) => worst (map (num_check e pts ppts) obs) end"
NUM_TYPE = "expr * list (string * Q) * list (string * Q) * list Q"


UNRESOLVED = []          # (case index, reason) of cases the Coq evaluation could not decide in time / memory (counted as undecided)


def run_classify(imports, defs, case_type, cases, checker, shard=200):
    """Like coqrun.run_cases but for nat verdicts: returns (fails, undecided).
    A shard on which coqc dies (time limit, memory, stack) is split in halves and retried; a single case on which it still
    dies is counted as undecided (an interval computation that blows up is not a verdict either way) and listed in UNRESOLVED."""
    import re as _re
    import os, tempfile, shutil
    from concurrent.futures import ThreadPoolExecutor
    os.makedirs(coqrun.WORK, exist_ok=True)
    d = tempfile.mkdtemp(prefix="num_", dir=coqrun.WORK)
    counter = [0]

    def write(chunk):
        counter[0] += 1
        path = os.path.join(d, f"cases_{counter[0]}.v")
        with open(path, "w") as f:
            f.write(coqrun.PRELUDE.format(imports=imports))
            f.write(defs + "\n")
            f.write(f"Definition cases : list ({case_type}) := [\n" + ";\n".join(chunk) + "\n].\n")
            f.write(f"Definition the_checker : ({case_type}) -> nat := {checker}.\n")
            f.write("Eval vm_compute in (classify the_checker cases).\n")
        return path

    def parse(out, k):
        m = _re.search(r"=\s*\(\s*(\[.*?\])\s*(?:%\w+)?\s*,\s*(\[.*?\])\s*(?:%\w+)?\s*\)", out, _re.S)
        if not m:
            raise coqrun.CoqError("cannot parse classify output:\n" + out[-1500:])
        res = ([], [])
        for grp, acc in ((m.group(1), res[0]), (m.group(2), res[1])):
            body = grp.strip()[1:-1].replace("%nat", "").strip()
            if body:
                acc.extend(k + int(x) for x in _re.split(r"[;\s]+", body) if x)
        return res

    def attempt(k, chunk, timeout):
        try:
            return parse(coqrun._run_shard((write(chunk), timeout)), k)
        except coqrun.CoqError as ex:
            msg = str(ex)
            died = "timeout" in msg or msg.rstrip().endswith(":") or "Stack overflow" in msg or "Out of memory" in msg
            if not died:
                raise                      # a genuine Coq error (ill-typed case ...): the harness is wrong, say so
            return None

    def solve(k, chunk, timeout):
        got = attempt(k, chunk, timeout)
        if got is not None:
            return got
        if len(chunk) == 1:
            UNRESOLVED.append((k, "coqc died or exceeded its time limit on this single case"))
            return [], [k]
        h = len(chunk) // 2
        f1, u1 = solve(k, chunk[:h], max(120, timeout // 2))
        f2, u2 = solve(k + h, chunk[h:], max(120, timeout // 2))
        return f1 + f2, u1 + u2

    try:
        starts = list(range(0, max(len(cases), 1), shard))
        with ThreadPoolExecutor(max_workers=12) as ex:
            first = list(ex.map(lambda k: attempt(k, cases[k:k + shard], 900), starts))
        fails, und = [], []
        for k, got in zip(starts, first):
            if got is None:
                got = solve(k, cases[k:k + shard], 600)
            fails += got[0]
            und += got[1]
        return sorted(fails), sorted(und)
    finally:
        shutil.rmtree(d, ignore_errors=True)


def trees_equal(a, b) -> bool:
    """Iterative structural equality of two optyx scalar trees (no recursion: trees may be deep)."""
    from optyx.core.expressions import Constant, Variable, BinaryOp, UnaryOp
    from optyx.core.parameters import Parameter
    stack = [(a, b)]
    while stack:
        p, q = stack.pop()
        if p is q:
            continue
        if type(p) is not type(q):
            return False
        if isinstance(p, Constant):
            if not np.array_equal(np.asarray(p.value), np.asarray(q.value)):
                return False
        elif isinstance(p, (Variable, Parameter)):
            if p.name != q.name:
                return False
        elif isinstance(p, BinaryOp):
            if p.op != q.op:
                return False
            stack.append((p.left, q.left))
            stack.append((p.right, q.right))
        elif isinstance(p, UnaryOp):
            if p.op != q.op:
                return False
            stack.append((p.operand, q.operand))
        else:
            s1, s2 = ser.Ser(), ser.Ser()
            try:
                if s1.expr(p) != s2.expr(q):
                    return False
            except ser.Unsupported:
                return False
    return True


def vectorised_worklist():
    """Deterministic (expression, V) pairs hitting EVERY vectorised closure: each of the 10 elementwise ops and a
    range of powers, with V = exactly the vector (full path), a superset and a permutation (sparse path)."""
    from optyx import VectorVariable, Variable
    out = []
    ops = ["sin", "cos", "tan", "exp", "log", "abs", "sqrt", "sinh", "cosh", "tanh"]
    powers = [1, 2, 3, 4, 0.5, 1.5, -1, -2, 0]
    k = 0
    for op in ops:
        x = VectorVariable(f"u{k}", 3); k += 1
        e = gen.FN[op](x).sum()
        out.append((e, list(x)))
        out.append((e, [Variable("aa_extra")] + list(x)))
        out.append((e, list(x)[::-1]))
    for p in powers:
        x = VectorVariable(f"u{k}", 3); k += 1
        e = (x ** p).sum()
        out.append((e, list(x)))
        out.append((e, list(x) + [Variable("zz_extra")]))
        out.append((e, [x[1], x[0], x[2]]))
    return out


def natkey(name):
    """Natural order of names (digit runs compare as numbers), independent of the implementation."""
    import re
    return [(0, int(t), "") if t.isdigit() else (1, 0, t) for t in re.findall(r"\d+|\D+", name)]


def orders(vs, extras, rng):
    """Orderings of V that stress layout assumptions: random shuffles plus the near-sorted
    ones a fast path is most likely to mistake for the natural layout (interior swap,
    rotation, reversal, extras interleaved or in front)."""
    nat = sorted(vs, key=lambda v: natkey(v.name))
    k = rng.randrange(9)
    if k >= 7 and len(nat) >= 3:
        # endpoint trap: the first and the last element of a vector sit exactly len-1 apart, but what lies between them is
        # NOT the vector's interior (foreign variables and / or the interior permuted); the true interior goes elsewhere
        import re as _re
        groups = {}
        for v in nat:
            groups.setdefault(_re.sub(r"\[.*$", "", v.name), []).append(v)
        blocks = [g_ for g_ in groups.values() if len(g_) >= 3]
        if blocks:
            blk = rng.choice(blocks)
            first, last, interior = blk[0], blk[-1], blk[1:-1]
            others = [v for v in nat if v not in blk] + list(extras)
            while len(others) < len(interior):
                others.append(type(nat[0])(f"zz_extra{len(others)}"))
            rng.shuffle(others)
            rng.shuffle(interior)
            take = rng.randint(1, len(interior))
            middle = others[:take] + interior[:len(interior) - take]
            rng.shuffle(middle)
            rest = others[take:] + interior[len(interior) - take:]
            rng.shuffle(rest)
            cut = rng.randint(0, len(rest))
            return rest[:cut] + [first] + middle + [last] + rest[cut:]
    if k == 0 or len(nat) < 3:
        V = nat + extras
        rng.shuffle(V)
        return V
    if k == 1:
        return extras + nat
    if k == 2:
        return nat[::-1] + extras
    if k == 3:      # swap two interior neighbours, end points stay where they are
        V = list(nat)
        i = rng.randrange(1, len(V) - 1) if len(V) > 3 else 1
        j = min(i + 1, len(V) - 2) if len(V) > 3 else 1
        if i != j:
            V[i], V[j] = V[j], V[i]
        elif len(V) == 3:
            V[0], V[1] = V[1], V[0]
        return extras + V
    if k == 4:      # extras inside the block
        V = list(nat)
        for ex in extras:
            V.insert(rng.randrange(1, len(V)), ex)
        return V
    if k == 5:      # rotation
        r = rng.randrange(1, len(nat))
        return nat[r:] + extras + nat[:r]
    V = list(nat)   # random interior permutation, end points fixed
    mid = V[1:-1]
    rng.shuffle(mid)
    return extras[:1] + [V[0]] + mid + [V[-1]] + extras[1:]




def corpus(rng, tier, n_random, profiles=("poly", "smooth", "smooth", "all"), depths=(2, 3, 4),
           focus_profile="all", focus_scale=1.0, errors=None, pool_kwargs=None, want=None, gen_flags=None, exclude=None):
    """Expressions for the differential channels: first the FOCUSED corpus (every reduction /
    leaf kind under every one-node context - constant on either side of each operator, each
    power, each function; in the thorough tier also every pair of stacked contexts), then
    n_random random trees.  Yields (g, e).  All randomness derives from rng."""
    import random as _r
    import gen as _gen
    probe = _gen.Gen(_r.Random(0), profile=focus_profile,
                     **({"pool": _gen.Pool(_r.Random(0), with_params=(focus_profile == "all"), **pool_kwargs)} if pool_kwargs else {}))
    for k_, v_ in (gen_flags or {}).items():
        setattr(probe, k_, v_)
    size = probe.focused_size()
    # `want`: only focused items whose label (context(base)) contains one of the given substrings
    # a scale below 1 takes an evenly spread sample of the (base x context) grid, not a prefix of it
    full = list(range(size)) if tier == "quick" else list(range(min(size * 12, 12000)))
    if want is not None:
        bs, cs = probe.bases(), probe.contexts()
        def label(i):
            l_ = f"{cs[(i // len(bs)) % len(cs)][0]}({bs[i % len(bs)]})"
            j_ = i // (len(bs) * len(cs))
            return l_ if j_ == 0 else f"{cs[(j_ - 1 + (i // len(bs))) % len(cs)][0]}({l_})"
        full = [i for i in full if any(w in label(i) for w in want)]
    if exclude is not None:
        bs, cs = probe.bases(), probe.contexts()
        def label2(i):
            l_ = f"{cs[(i // len(bs)) % len(cs)][0]}({bs[i % len(bs)]})"
            j_ = i // (len(bs) * len(cs))          # beyond the first grid a second context is stacked on top (Gen.focused)
            return l_ if j_ == 0 else f"{cs[(j_ - 1 + (i // len(bs))) % len(cs)][0]}({l_})"
        full = [i for i in full if not any(w in label2(i) for w in exclude)]
    if tier == "quick" and focus_scale < 1.0:
        k = max(1, int(len(full) * focus_scale))
        order = list(full)
        _r.Random(12345).shuffle(order)
        full = sorted(order[:k])
    n_focus = len(full)
    for j in range(n_focus + n_random):
        r = _r.Random(rng.random())
        focused = j < n_focus
        i = full[j] if focused else None
        prof = focus_profile if focused else rng.choice(list(profiles))
        pool = _gen.Pool(r, with_params=(prof == "all"), **pool_kwargs) if pool_kwargs else None
        g = _gen.Gen(r, profile=prof, pool=pool)
        for k_, v_ in (gen_flags or {}).items():
            setattr(g, k_, v_)
        try:
            e = g.focused(i) if focused else g.expr(rng.choice(list(depths)))
        except Exception as ex:
            if errors is not None:
                k = "gen:" + type(ex).__name__
                errors[k] = errors.get(k, 0) + 1
            continue
        yield g, e


def has_numpy_constant(e):
    """Does the scalar tree hold a Constant whose value is a NumPy scalar / 0-d array (rather than a Python number)?"""
    from optyx.core.expressions import Constant, BinaryOp, UnaryOp
    stack = [e]
    while stack:
        t = stack.pop()
        if isinstance(t, Constant):
            if isinstance(t.value, (np.ndarray, np.generic)) and not isinstance(t.value, (float, int)):
                return True
        elif isinstance(t, BinaryOp):
            stack += [t.left, t.right]
        elif isinstance(t, UnaryOp):
            stack.append(t.operand)
    return False


def iter_eval(expr, pt):
    """Value of a scalar tree by an explicit-stack post-order walk over the BinaryOp / UnaryOp spine, using the library's own
    operator tables for the nodes and its evaluate() for the (shallow) leaves: lets the harness read a number off a tree that is
    too deep for any recursive evaluator, without going through the closure compiler."""
    from optyx.core.expressions import BinaryOp, UnaryOp
    out = []
    stack = [(expr, False)]
    while stack:
        t, done = stack.pop()
        if isinstance(t, BinaryOp):
            if done:
                b = out.pop(); a = out.pop()
                out.append(BinaryOp._OPS[t.op](a, b))
            else:
                stack.append((t, True)); stack.append((t.right, False)); stack.append((t.left, False))
        elif isinstance(t, UnaryOp):
            if done:
                out.append(UnaryOp._OPS[t.op](out.pop()))
            else:
                stack.append((t, True)); stack.append((t.operand, False))
        else:
            out.append(t.evaluate(pt))
    return out[0]


class uncached:
    """Run with a functools.lru_cache-wrapped module attribute replaced by the undecorated function: fresh builds are forced
    WITHOUT clearing (or filling) the process-wide cache, so that whatever earlier cases left in it keeps acting on later ones."""

    def __init__(self, module, name):
        self.module, self.name = module, name

    def __enter__(self):
        self.orig = getattr(self.module, self.name)
        if hasattr(self.orig, "__wrapped__"):
            setattr(self.module, self.name, self.orig.__wrapped__)
        else:
            self.orig.cache_clear() if hasattr(self.orig, "cache_clear") else None
        return self

    def __exit__(self, *a):
        setattr(self.module, self.name, self.orig)


def enclosure_bounds(imports, defs, term):
    """(lo, hi) of a Coq interval term as Python floats (inf when beyond binary64), or None when it is NaN / unbounded."""
    import re as _re
    out = coqrun.eval_term(imports, defs, f"let xi := {term} in (I.lower xi, I.upper xi)")
    fl = _re.findall(r"Float\s*\(BigZ\.BigZ\.(Pos|Neg)\s+(\d+)\)\s*\(BigZ\.BigZ\.(Pos|Neg)\s+(\d+)\)|Specific_ops\.(Fnan)|Float\s*(BigZ\.BigZ\.zero)", out)
    vals = []
    for sm, m, se, e, nan, zero in fl:
        if nan:
            return None
        if zero:
            vals.append(0.0); continue
        mant = int(m) * (1 if sm == "Pos" else -1)
        ex = int(e) * (1 if se == "Pos" else -1)
        try:
            vals.append(float(mant) * 2.0 ** ex if abs(ex) < 900 else (float("inf") if ex > 0 else 0.0) * (1 if mant > 0 else -1))
        except OverflowError:
            vals.append(float("inf") if mant > 0 else float("-inf"))
    return (vals[0], vals[1]) if len(vals) == 2 else None


def beyond_binary64(bounds):
    """The true value itself, or the intermediate products any floating evaluation of it needs, cannot be represented (then a sanitised
    +-1e16 / 0 is all the library can return)."""
    # (1e150: beyond the square root of the largest double the products and squares inside ANY floating evaluation of a chain or
    #  quotient rule overflow before the final division brings the value back - e.g. the Hessian of |2**u| at u = 596, true value 1e185)
    return bounds is not None and (min(abs(bounds[0]), abs(bounds[1])) > 1e150 or bounds[0] in (float("inf"), float("-inf")))


def sanitised_overflow(imports, defs, case, enclosure_of_case, observed):
    """A failing numeric case is excused when the library returned the sanitiser's +-1e16 / 0 and the TRUE value itself lies beyond
    binary64 (no float could have been returned): `enclosure_of_case` is the Coq term, with the case bound to `c`, for its enclosure."""
    try:
        vals = [abs(float(o)) for o in observed]
    except Exception:
        return False
    if not all(v in (1e16, 0.0) for v in vals):
        return False
    try:
        return beyond_binary64(enclosure_bounds(imports, defs, f"(let c := {case} in {enclosure_of_case})"))
    except Exception:
        return False


# ---------------------------------------------------------------------------------------------------------------------------
# Formulas "as the user wrote them": API constructions paired with an independent NumPy function of the element values.
# Element names are computed here (range(n)[slice]), never read back from the views, so a view or a reduction that
# looks at the wrong elements - or a shortcut that takes two different views for the same one - disagrees with the reference.
def written_catalogue(rng, tag="w"):
    """Yields (label, thunk building a scalar optyx expression, ref(vals) -> float, element names involved)."""
    from optyx import VectorVariable, MatrixVariable
    from optyx.core.matrices import quadratic_form, frobenius_norm
    from optyx.core.vectors import norm as vnorm
    from optyx.core import functions as F
    n = rng.choice([4, 5, 6])
    rows, cols = rng.choice([(2, 3), (3, 4), (3, 3)])
    zname, Xname = tag + rng.choice(["z", "x", "flow2"]), tag + rng.choice(["X", "M"])
    z = VectorVariable(zname, n)
    X = MatrixVariable(Xname, rows, cols)
    S = MatrixVariable(tag + "S", 3, 3, symmetric=True)

    def arr(names):
        return lambda vals: np.array([vals[t] for t in names], dtype=float)

    views = []          # (text, view object, element names)
    sl = [(None, None, None), (0, n, None), (None, None, -1), (0, 4, 2), (0, 4, 3), (1, 4, None), (0, 3, None), (1, n, 2),
          (2, None, None), (None, 3, None), (n - 1, 0, -1), (0, n, 2), (1, n, None), (0, n - 1, None), (None, None, -2), (0, 4, None),
          (1, 5, 3), (1, 5, 2)]
    for a, b, s in sl:
        idx = list(range(n))[slice(a, b, s)]
        if idx:
            views.append((f"{zname}[{a}:{b}:{s}]", (lambda a=a, b=b, s=s: z[slice(a, b, s)]), [f"{zname}[{i}]" for i in idx]))
    for i in range(rows):
        for a, b, s in [(None, None, None), (0, 2, None), (1, 3, None), (0, cols, 2), (None, None, -1), (1, cols, None), (0, cols - 1, None)]:
            idx = list(range(cols))[slice(a, b, s)]
            if idx:
                views.append((f"{Xname}[{i},{a}:{b}:{s}]", (lambda i=i, a=a, b=b, s=s: X[i, slice(a, b, s)]), [f"{Xname}[{i},{j}]" for j in idx]))
    for j in range(cols):
        for a, b, s in [(None, None, None), (0, 2, None), (1, 3, None), (None, None, -1)]:
            idx = list(range(rows))[slice(a, b, s)]
            if idx:
                views.append((f"{Xname}[{a}:{b}:{s},{j}]", (lambda j=j, a=a, b=b, s=s: X[slice(a, b, s), j]), [f"{Xname}[{i},{j}]" for i in idx]))
    for j in range(rows):
        views.append((f"{Xname}.T[:,{j}]", (lambda j=j: X.T[:, j]), [f"{Xname}[{j},{i}]" for i in range(cols)]))
    sym = lambda i, j: f"{tag}S[{min(i, j)},{max(i, j)}]"
    views.append((f"{tag}S.diagonal()", lambda: S.diagonal(), [sym(i, i) for i in range(3)]))
    for i in range(3):
        views.append((f"{tag}S[{i},:]", (lambda i=i: S[i, :]), [sym(i, j) for j in range(3)]))
        views.append((f"{tag}S[:,{i}]", (lambda i=i: S[:, i]), [sym(j, i) for j in range(3)]))

    def Q(k):
        return np.array([[float(1 + 2 * i - j + (3 if i > j else 0)) for j in range(k)] for i in range(k)])

    def cf(k, flip=False):
        c = np.array([0.5 * (t + 1) * (-1 if t == 1 else 1) for t in range(k)])
        return c[::-1] if flip else c

    out = []
    pairs = [(p, q) for p in views for q in views if len(p[2]) == len(q[2]) and p is not q and len(p[2]) >= 2]
    rng.shuffle(pairs)
    # two different views of ONE parent (whose generated names often coincide) are the likeliest to be taken for each other
    akin = [pq for pq in pairs if set(pq[0][2]) & set(pq[1][2])]
    other = [pq for pq in pairs if not (set(pq[0][2]) & set(pq[1][2]))]
    for (tu, bu, nu), (tv, bv, nv) in akin[:50] + other[:20]:
        k = len(nu)
        U, V = arr(nu), arr(nv)
        form = rng.choice([0, 0, 0, 1, 1, 2, 3, 4, 5, 6, 7, 8])
        if form == 0:
            out.append((f"{tu}.dot(Q @ {tv})", (lambda bu=bu, bv=bv, k=k: bu().dot(Q(k) @ bv())), (lambda vals, U=U, V=V, k=k: float(U(vals) @ Q(k) @ V(vals))), nu + nv))
        elif form == 1:
            out.append((f"{tu}.dot({tv})", (lambda bu=bu, bv=bv: bu().dot(bv())), (lambda vals, U=U, V=V: float(U(vals) @ V(vals))), nu + nv))
        elif form == 2:
            out.append((f"c@{tu} + d@{tv}", (lambda bu=bu, bv=bv, k=k: cf(k) @ bu() + cf(k, True) @ bv()),
                        (lambda vals, U=U, V=V, k=k: float(cf(k) @ U(vals) + cf(k, True) @ V(vals))), nu + nv))
        elif form == 3:
            out.append((f"qf({tu}) + qf({tv})", (lambda bu=bu, bv=bv, k=k: bu().dot(Q(k) @ bu()) + quadratic_form(bv(), Q(k))),
                        (lambda vals, U=U, V=V, k=k: float(U(vals) @ Q(k) @ U(vals) + V(vals) @ Q(k) @ V(vals))), nu + nv))
        elif form == 4:
            out.append((f"({tu}*{tv}).sum()", (lambda bu=bu, bv=bv: (bu() * bv()).sum()), (lambda vals, U=U, V=V: float(np.sum(U(vals) * V(vals)))), nu + nv))
        elif form == 5:
            out.append((f"({tu}-{tv}).dot({tu}+{tv})", (lambda bu=bu, bv=bv: (bu() - bv()).dot(bu() + bv())),
                        (lambda vals, U=U, V=V: float((U(vals) - V(vals)) @ (U(vals) + V(vals)))), nu + nv))
        elif form == 6:
            out.append((f"({tu}**2).sum() + ({tv}**3).sum()", (lambda bu=bu, bv=bv: (bu() ** 2).sum() + (bv() ** 3).sum()),
                        (lambda vals, U=U, V=V: float(np.sum(U(vals) ** 2) + np.sum(V(vals) ** 3))), nu + nv))
        elif form == 7:
            out.append((f"sin({tu}).sum() * {tv}.sum()", (lambda bu=bu, bv=bv: F.sin(bu()).sum() * bv().sum()),
                        (lambda vals, U=U, V=V: float(np.sum(np.sin(U(vals))) * np.sum(V(vals)))), nu + nv))
        else:
            out.append((f"norm({tu} - 2*{tv})", (lambda bu=bu, bv=bv: vnorm(bu() - 2 * bv())),
                        (lambda vals, U=U, V=V: float(np.linalg.norm(U(vals) - 2 * V(vals)))), nu + nv))
    singles = list(views)
    rng.shuffle(singles)
    for tu, bu, nu in singles[:24]:
        k = len(nu)
        U = arr(nu)
        form = rng.randrange(7)
        if form == 0:
            out.append((f"quadratic_form({tu}, Q)", (lambda bu=bu, k=k: quadratic_form(bu(), Q(k))), (lambda vals, U=U, k=k: float(U(vals) @ Q(k) @ U(vals))), nu))
        elif form == 1:
            out.append((f"c @ {tu}", (lambda bu=bu, k=k: cf(k) @ bu()), (lambda vals, U=U, k=k: float(cf(k) @ U(vals))), nu))
        elif form == 2:
            out.append((f"{tu} @ c[::-1]", (lambda bu=bu, k=k: bu() @ cf(k, True)), (lambda vals, U=U, k=k: float(U(vals) @ cf(k, True))), nu))
        elif form == 3:
            out.append((f"(2*{tu}+1).sum()", (lambda bu=bu: (2 * bu() + 1).sum()), (lambda vals, U=U: float(np.sum(2 * U(vals) + 1))), nu))
        elif form == 4:
            out.append((f"norm({tu},1)+norm({tu})", (lambda bu=bu: vnorm(bu(), 1) + vnorm(bu())),
                        (lambda vals, U=U: float(np.linalg.norm(U(vals), 1) + np.linalg.norm(U(vals)))), nu))
        elif form == 5:
            out.append((f"(c - {tu}).dot({tu})", (lambda bu=bu, k=k: (cf(k) - bu()).dot(bu())), (lambda vals, U=U, k=k: float((cf(k) - U(vals)) @ U(vals))), nu))
        else:
            out.append((f"exp({tu}).sum() - {tu}.sum()", (lambda bu=bu: F.exp(bu()).sum() - bu().sum()),
                        (lambda vals, U=U: float(np.sum(np.exp(U(vals))) - np.sum(U(vals)))), nu))
    # matrices against arrays in every memory layout (the reference indexes logically)
    Xn = [[f"{Xname}[{i},{j}]" for j in range(cols)] for i in range(rows)]
    XV = lambda vals: np.array([[vals[t] for t in row] for row in Xn], dtype=float)
    base = np.array([[float(1 + 3 * i - 2 * j + (i * j) % 3) for j in range(cols)] for i in range(rows)])
    layouts = [("C", base), ("F", np.asfortranarray(base)), ("T-view", np.ascontiguousarray(base.T).T), ("rows-reversed", base[::-1][::-1].copy()[::-1][::-1]),
               ("reversed-view", np.ascontiguousarray(base[::-1])[::-1]), ("int", base.astype(np.int64)), ("strided", np.repeat(base, 2, axis=1)[:, ::2])]
    all_x = [t for row in Xn for t in row]
    for lname, A in layouts:
        A0 = np.array(A, dtype=float)
        mform = rng.randrange(6)
        if mform == 0:
            out.append((f"({Xname} * A[{lname}]).sum()", (lambda A=A: (X * A).sum()), (lambda vals, A0=A0: float(np.sum(XV(vals) * A0))), all_x))
        elif mform == 1:
            out.append((f"(A[{lname}] * {Xname}).sum()", (lambda A=A: (A * X).sum()), (lambda vals, A0=A0: float(np.sum(A0 * XV(vals)))), all_x))
        elif mform == 2:
            out.append((f"frobenius_norm({Xname} - A[{lname}])", (lambda A=A: frobenius_norm(X - A)), (lambda vals, A0=A0: float(np.linalg.norm(XV(vals) - A0))), all_x))
        elif mform == 3:
            out.append((f"(({Xname} + A[{lname}]) * {Xname}).sum()", (lambda A=A: ((X + A) * X).sum()), (lambda vals, A0=A0: float(np.sum((XV(vals) + A0) * XV(vals)))), all_x))
        elif mform == 4:
            out.append((f"(A[{lname}] - {Xname}).sum() + ({Xname}.T * A.T).sum()", (lambda A=A: (A - X).sum() + (X.T * A.T).sum()),
                        (lambda vals, A0=A0: float(np.sum(A0 - XV(vals)) + np.sum(XV(vals).T * A0.T))), all_x))
        else:
            out.append((f"(({Xname} - A[{lname}]) * ({Xname}.T - A.T).T).sum()", (lambda A=A: ((X - A) * (X.T - A.T).T).sum()),
                        (lambda vals, A0=A0: float(np.sum((XV(vals) - A0) ** 2))), all_x))
    # a SYMMETRIC matrix variable: an off-diagonal variable occupies two cells, every reduction counts both
    Sn = [[sym(i, j) for j in range(3)] for i in range(3)]
    SV = lambda vals: np.array([[vals[t] for t in row] for row in Sn], dtype=float)
    all_s = sorted({t for row in Sn for t in row})
    As = np.array([[1.5, -2.0, 0.5], [3.0, 1.0, -1.5], [2.5, 0.25, -0.75]])
    sforms = [("frob[S]", lambda: frobenius_norm(S), lambda vals: float(np.linalg.norm(SV(vals)))),
              ("S.sum()", lambda: S.sum(), lambda vals: float(np.sum(SV(vals)))),
              ("(S*S).sum()", lambda: (S * S).sum(), lambda vals: float(np.sum(SV(vals) ** 2))),
              ("frob[S.T]**2", lambda: frobenius_norm(S.T) ** 2, lambda vals: float(np.sum(SV(vals) ** 2))),
              ("(S*A).sum()", lambda: (S * As).sum(), lambda vals: float(np.sum(SV(vals) * As))),
              ("frob[S - A]", lambda: frobenius_norm(S - As), lambda vals: float(np.linalg.norm(SV(vals) - As))),
              ("S.trace() * S.sum()", lambda: S.trace() * S.sum(), lambda vals: float(np.trace(SV(vals)) * np.sum(SV(vals)))),
              ("exp(0.25*frob[S])", lambda: F.exp(0.25 * frobenius_norm(S)), lambda vals: float(np.exp(0.25 * np.linalg.norm(SV(vals))))),
              ("frob[S[0:2,0:2]]", lambda: frobenius_norm(S[0:2, 0:2]), lambda vals: float(np.linalg.norm(SV(vals)[0:2, 0:2]))),
              ("S[0:2,1:3].sum()", lambda: S[0:2, 1:3].sum(), lambda vals: float(np.sum(SV(vals)[0:2, 1:3])))]
    rng.shuffle(sforms)
    for lab, bld, rf in sforms[:5]:
        out.append((lab, bld, rf, all_s))
    return out


def written_derivatives(rep, rng, rounds, mode, prop):
    """Derivatives of formulas AS WRITTEN (written_catalogue) against finite differences of the independent NumPy function.
    mode 'sym': the symbolic gradient evaluated; 'jac': compile_jacobian / compile_gradient; 'hess': compile_hessian.
    For the compiled modes the SAME expression object is compiled for two different variable orders, one after the other.
    Returns (checked, bad)."""
    import random as _r
    import optyx.core.autodiff as AD
    import optyx.core.compiler as C
    from optyx import Variable
    checked = bad = 0
    for rnd_ in range(rounds):
        wr = _r.Random(rng.random())
        for label, build, ref, names in written_catalogue(wr, tag=f"d{rnd_}_"):
            if label.startswith("norm(") or "norm(" in label:
                continue                      # kinks: not differentiable everywhere
            try:
                e = build()
            except Exception:
                continue
            vs = sorted(e.get_variables(), key=lambda v: natkey(v.name))
            uniq = list(dict.fromkeys(names))
            vals = {t: wr.choice(NICE) for t in uniq}
            for v in vs:
                vals.setdefault(v.name, wr.choice(NICE))
            vals["extra0"] = 0.5

            def fd1(nm, h=1e-5):
                a, b = dict(vals), dict(vals)
                a[nm] += h; b[nm] -= h
                return (ref(a) - ref(b)) / (2 * h)

            def fd2(n1, n2, h=1e-4):
                def at(d1, d2):
                    q = dict(vals); q[n1] += d1; q[n2] += d2
                    return ref(q)
                if n1 == n2:
                    return (at(h, 0) - 2 * ref(vals) + at(-h, 0)) / (h * h)
                return (at(h, h) - at(h, -h) - at(-h, h) + at(-h, -h)) / (4 * h * h)
            try:
                if mode == "sym":
                    for v in vs:
                        with np.errstate(all="ignore"):
                            got = float(AD.gradient(e, v).evaluate(vals))
                        want = fd1(v.name)
                        checked += 1
                        if not abs(got - want) <= 1e-5 * (1 + abs(want)):
                            bad += 1
                            rep.violation({"kind": "finite-difference", "obligation": "gradient(e, v) is the derivative of the formula as written",
                                           "witness": {"formula": label, "wrt": v.name, "point": vals, "gradient": got, "finite_difference_of_numpy_formula": want}},
                                          concrete=True)
                    continue
                orders_ = [orders(vs, [Variable("extra0")] if wr.random() < 0.5 else [], wr) for _ in range(2)]
                for V in orders_:
                    for v in V:
                        vals.setdefault(v.name, 0.5)          # filler variables an ordering may add
                    x = np.array([vals[v.name] for v in V], dtype=float)
                    with np.errstate(all="ignore"):
                        if mode == "jac":
                            outs = {"compile_jacobian": np.asarray(AD.compile_jacobian([e], V)(x), dtype=float).reshape(-1),
                                    "compile_gradient": np.asarray(C.compile_gradient(e, V)(x), dtype=float).reshape(-1)}
                            want = np.array([fd1(v.name) if v.name in uniq or v.name in [t.name for t in vs] else 0.0 for v in V])
                            tol = 1e-5
                        else:
                            outs = {"compile_hessian": np.asarray(AD.compile_hessian(e, V)(x), dtype=float)}
                            want = np.array([[fd2(a.name, b.name) for b in V] for a in V])
                            tol = 2e-3
                    for nm_, got in outs.items():
                        checked += 1
                        if got.shape != want.shape or not np.all(np.abs(got - want) <= tol * (1 + np.abs(want))):
                            bad += 1
                            rep.violation({"kind": "finite-difference", "obligation": f"{nm_} is the derivative of the formula as written, for every variable order",
                                           "witness": {"formula": label, "V": [v.name for v in V], "point": {v.name: vals[v.name] for v in V},
                                                       "got": got.tolist(), "finite_difference_of_numpy_formula": want.tolist()}}, concrete=True)
            except Exception as ex:
                bad += 1
                rep.violation({"kind": "exception", "obligation": "derivatives of API-built expressions can be built", "witness": {"formula": label, "mode": mode,
                                                                                                                                "error": repr(ex)[:300]}}, concrete=True)
    return checked, bad


def alias_probe(call, x1, x2, ref_call, rtol=0.0):
    """Call history with the caller's objects reused: `call` at an array, the SAME array updated in place, `call` again.
    An earlier result must not change when a later call is made (output buffer reused), and the second result must be what
    `ref_call` - an independent way to the same number(s) - gives at a fresh copy of the new point (something remembered by
    reference to the caller's array).  Returns None or a description."""
    x = np.array(x1, dtype=float)
    with np.errstate(all="ignore"):
        r1 = call(x)
        keep1 = np.array(r1, dtype=float, copy=True)
        x[:] = np.asarray(x2, dtype=float)
        r2 = call(x)
        keep2 = np.array(r2, dtype=float, copy=True)
        after1 = np.array(r1, dtype=float)
        want2 = np.array(ref_call(np.array(x2, dtype=float)), dtype=float)

    def same(a, b):
        if a.shape != b.shape:
            return False
        if rtol == 0.0:
            return bool(np.array_equal(a, b, equal_nan=True))
        return bool(np.allclose(a, b, rtol=rtol, atol=rtol, equal_nan=True))
    if not same(after1, keep1):
        return {"what": "a result handed out earlier changed when the callable was called again (shared output buffer)",
                "first_point": np.asarray(x1).tolist(), "second_point": np.asarray(x2).tolist(),
                "first_result_then": keep1.tolist(), "first_result_now": after1.tolist()}
    if not same(keep2, want2):
        return {"what": "after the caller's array was updated in place, the callable answered for the old point",
                "first_point": np.asarray(x1).tolist(), "second_point": np.asarray(x2).tolist(),
                "got": keep2.tolist(), "independent": want2.tolist()}
    return None


def safe_repr(obj):
    """repr() that survives loop-built trees thousands of levels deep (the library's __repr__ is recursive)."""
    import builtins
    try:
        return builtins.repr(obj)
    except RecursionError:
        return f"<{type(obj).__name__}: too deep to print>"


class _TrackInt:
    """An exact integer that remembers the largest magnitude any intermediate result reached.  Evaluating a compiled callable on an
    object array of these tells whether the same evaluation on an int64 array can have wrapped around (fixed-width integers do):
    only if no intermediate comes near 2**63 is a different int64 answer the library's fault."""
    __slots__ = ("v",)
    peak = [0]

    def __init__(self, v):
        self.v = int(v)
        a = abs(self.v)
        if a > _TrackInt.peak[0]:
            _TrackInt.peak[0] = a

    @staticmethod
    def _w(o):
        return o.v if isinstance(o, _TrackInt) else (int(o) if isinstance(o, (np.integer,)) else o)

    @staticmethod
    def _r(val):
        return _TrackInt(val) if isinstance(val, int) and not isinstance(val, bool) else val

    def __add__(self, o): return self._r(self.v + self._w(o))
    def __radd__(self, o): return self._r(self._w(o) + self.v)
    def __sub__(self, o): return self._r(self.v - self._w(o))
    def __rsub__(self, o): return self._r(self._w(o) - self.v)
    def __mul__(self, o): return self._r(self.v * self._w(o))
    def __rmul__(self, o): return self._r(self._w(o) * self.v)
    def __neg__(self): return _TrackInt(-self.v)
    def __pos__(self): return self
    def __abs__(self): return _TrackInt(abs(self.v))
    def __truediv__(self, o): return self.v / self._w(o)
    def __rtruediv__(self, o): return self._w(o) / self.v

    def __pow__(self, o):
        w = self._w(o)
        if isinstance(w, int) and w < 0:
            raise ValueError("Integers to negative integer powers are not allowed.")       # what NumPy says for int64
        return self._r(self.v ** w)

    def __rpow__(self, o):
        w = self._w(o)
        if isinstance(w, int) and self.v < 0:
            raise ValueError("Integers to negative integer powers are not allowed.")
        return self._r(w ** self.v)

    def __float__(self): return float(self.v)
    def __lt__(self, o): return self.v < self._w(o)
    def __le__(self, o): return self.v <= self._w(o)
    def __gt__(self, o): return self.v > self._w(o)
    def __ge__(self, o): return self.v >= self._w(o)
    def __eq__(self, o): return self.v == self._w(o)
    def __hash__(self): return hash(self.v)


def _install_trackint_functions():
    # NumPy's object loops call a METHOD named like the ufunc on each element (np.sin(a) -> a[i].sin()): the elementary functions
    # leave the integers for good (floats do not wrap)
    import math
    table = {"sin": math.sin, "cos": math.cos, "tan": math.tan, "exp": math.exp, "log": math.log, "log2": math.log2, "log10": math.log10,
             "sqrt": math.sqrt, "tanh": math.tanh, "sinh": math.sinh, "cosh": math.cosh, "arcsin": math.asin, "arccos": math.acos,
             "arctan": math.atan, "arcsinh": math.asinh, "arccosh": math.acosh, "arctanh": math.atanh}
    for nm_, fn_ in table.items():
        setattr(_TrackInt, nm_, (lambda self, fn_=fn_: fn_(self.v)))
    _TrackInt.sign = lambda self: (self.v > 0) - (self.v < 0)
    _TrackInt.conjugate = lambda self: self


_install_trackint_functions()


def int64_cannot_wrap(f, x):
    """True if evaluating f on the integer point x provably keeps every integer intermediate below 2**62 (so an int64 array gives
    exact integer arithmetic); False if some intermediate is larger or the evaluation cannot be followed (functions, comparisons)."""
    _TrackInt.peak[0] = 0
    try:
        arr = np.empty(len(x), dtype=object)
        for i, t in enumerate(x):
            arr[i] = _TrackInt(int(t))
        with np.errstate(all="ignore"):
            f(arr)
    except Exception:
        # the run could not be followed to the end (typically the library's own post-processing - np.isfinite - refusing an object
        # array after all the arithmetic is done): go by what was seen, with a much wider margin
        return 0 < _TrackInt.peak[0] < 2 ** 40
    return _TrackInt.peak[0] < 2 ** 62
