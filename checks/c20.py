"""C20 - a failed or interrupted solve leaves the process and the problem intact.

Proof: Props/C20.v (for every fault point and every exception class of the Fault.v
       model: the warning hook is restored; the outcome is FAILED or the propagated
       exception - KeyboardInterrupt always propagates; a failed cache / Hessian build
       leaves no partial cache; the next solve behaves as if nothing had happened;
       nested solves restore in stack order; the recursion-limit bracket restores).
Tie:   fault ENUMERATION against the real code: the k-th objective / gradient /
       constraint / constraint-Jacobian / Hessian evaluation, the solver entry and
       exit, the k-th compile during the cache build, the Hessian build, the LP
       extraction and the linprog call raise each of ValueError, FloatingPointError,
       MemoryError, KeyboardInterrupt, for k over the call indices of the unfaulted
       baseline; observed: warnings.showwarning identity, sys.getrecursionlimit(),
       cache flags, outcome class, and that the next solve equals the baseline - each
       compared with the model's prediction for that fault point."""
from __future__ import annotations

import sys
import warnings
import numpy as np

import verifkit as vk
import ser
from checks import common
from checks.common import Cases

LEVEL = "proof"
IMPORTS = "Fault"
DEFS = """
Inductive pyout := PyOK | PyFAILED | PyProp (e : exc).
Definition out_match (o : outcome) (p : pyout) : bool :=
  match o, p with
  | Returned_OK, PyOK | Returned_FAILED, PyFAILED => true
  | Propagated a, PyProp b => match a, b with
      | ValueError, ValueError | FloatingPointError, FloatingPointError | MemoryError, MemoryError
      | KeyboardInterrupt, KeyboardInterrupt => true | _, _ => false end
  | _, _ => false
  end.
"""
CHECKER = ("fun k => match k with (w0, nh, ph, e, (hook_ok, vflag, sflag, hflag), out) => "
           "let '(w1, o) := solve_scipy w0 nh (Some (ph, e)) in "
           "out_match o out && Bool.eqb hook_ok (Nat.eqb (hook w1) (hook w0)) "
           "&& Bool.eqb (vars_cached w1) vflag && Bool.eqb (solver_cached w1) sflag && Bool.eqb (hess_cached w1) hflag end")
CASE_TYPE = "world * bool * phase * exc * (bool * bool * bool * bool) * pyout"
LP_CHECKER = ("fun k => match k with (ph, e, hook_ok, out) => "
              "let '(w1, o) := solve_lp {| hook := 7; vars_cached := false; solver_cached := false; hess_cached := false |} (Some (ph, e)) in "
              "out_match o out && Bool.eqb hook_ok (Nat.eqb (hook w1) 7) end")
LP_TYPE = "lp_phase * exc * bool * pyout"
EXC = {"ValueError": ValueError, "FloatingPointError": FloatingPointError, "MemoryError": MemoryError,
       "KeyboardInterrupt": KeyboardInterrupt}


def problems():
    from optyx import Variable, VectorVariable, Problem
    from optyx.core import functions as F
    out = []
    x = Variable("x", lb=0.0, ub=4.0); y = Variable("y", lb=-2.0, ub=3.0)
    out.append(("nlp-slsqp", lambda: Problem().minimize((x - 1) ** 2 + (y - 0.5) ** 2 + F.exp(x * 0.1)).subject_to(x + y >= 1).subject_to((x - y).eq(0.25)), "SLSQP"))
    out.append(("nlp-trust", lambda: Problem().minimize((x - 1) ** 2 + (y - 0.5) ** 2).subject_to(x + y >= 1), "trust-constr"))
    v = VectorVariable("v", 3, lb=-1.0, ub=2.0)
    out.append(("nlp-lbfgsb", lambda: Problem().minimize(((v - 0.3) ** 2).sum() + v.dot(v)), "L-BFGS-B"))
    out.append(("nlp-auto", lambda: Problem().maximize(-(x - 2) ** 2 - y ** 2).subject_to(x * x + y <= 3), "auto"))
    # what "auto" resolves to on a box-only and on a linearly constrained smooth model; derivative-free and bound-blind methods
    out.append(("nlp-auto-box", lambda: Problem().minimize(((v - 0.3) ** 2).sum() + v.dot(v)), "auto"))
    out.append(("nlp-auto-lincon", lambda: Problem().minimize((x - 1) ** 2 + (y - 0.5) ** 2).subject_to(x + y >= 1), "auto"))
    out.append(("nlp-nelder-mead", lambda: Problem().minimize((x - 1) ** 2 + (y - 0.5) ** 2 + F.exp(x * 0.1)), "Nelder-Mead"))
    out.append(("nlp-powell", lambda: Problem().minimize(((v - 0.3) ** 2).sum()), "Powell"))
    out.append(("nlp-cobyla", lambda: Problem().minimize((x - 1) ** 2 + (y - 0.5) ** 2).subject_to(x + y >= 1), "COBYLA"))
    out.append(("nlp-bfgs", lambda: Problem().minimize((x - 1) ** 2 + (y - 0.5) ** 2 + x * y * 0.1), "BFGS"))
    # an objective accumulated in a loop (450 terms: the deep-tree code paths and whatever they do to the interpreter's limits), with a constraint
    def deep():
        obj = None
        for k in range(450):
            t = (1.0 + 0.5 * (k % 3)) * ((x if k % 2 else y) - 0.01 * (k % 7)) ** 2
            obj = t if obj is None else obj + t
        return Problem().minimize(obj).subject_to(x + y >= 1)
    out.append(("nlp-deep-loop-built", deep, "SLSQP"))
    return out


class Injector:
    """Wraps the callables handed to scipy.optimize.minimize; raises at the chosen call."""

    def __init__(self, target=None, index=None, exc=None):
        self.target, self.index, self.exc = target, index, exc
        self.counts = {}
        self.inside = False          # are we inside the scipy.optimize.minimize call?
        self.raised_inside = None

    def hit(self, kind):
        n = self.counts.get(kind, 0)
        self.counts[kind] = n + 1
        if kind == self.target and n == self.index:
            self.raised_inside = self.inside
            raise self.exc("injected fault")

    def wrap(self, kind, f):
        if f is None:
            return None
        def g(*a, **k):
            self.hit(kind)
            return f(*a, **k)
        return g


def run_with_fault(make, method, inj: Injector, compile_fault=None, hess_fault=None, preheat=False):
    """Returns observation dict."""
    import optyx.solvers.scipy_solver as SS
    import optyx.core.compiler as C
    import optyx.core.autodiff as AD
    real_min = SS.minimize
    real_compile = C.compile_expression
    real_hess = AD.compile_hessian
    P = make()
    if preheat:
        with warnings.catch_warnings():
            warnings.simplefilter("ignore")
            P.solve(method=method)
    hook0 = warnings.showwarning
    rl0 = sys.getrecursionlimit()
    flags0 = (P._variables is not None, P._solver_cache is not None, bool(P._solver_cache and "hess_fn" in P._solver_cache))

    def fake_minimize(fun=None, x0=None, method=None, jac=None, hess=None, bounds=None, constraints=(), tol=None, options=None, **kw):
        inj.inside = True
        inj.hit("entry")
        cons = []
        for c in (constraints or ()):
            d = dict(c)
            d["fun"] = inj.wrap("cfun", c["fun"])
            if "jac" in c:
                d["jac"] = inj.wrap("cjac", c["jac"])
            cons.append(d)
        res = real_min(fun=inj.wrap("fun", fun), x0=x0, method=method, jac=inj.wrap("jac", jac), hess=inj.wrap("hess", hess),
                       bounds=bounds, constraints=cons, tol=tol, options=options, **kw)
        inj.hit("exit")
        inj.inside = False
        return res

    ncompile = [0]
    def fake_compile(e, V):
        if compile_fault is not None:
            k, exc = compile_fault
            if ncompile[0] == k:
                ncompile[0] += 1
                raise exc("injected fault in compile")
            ncompile[0] += 1
        else:
            ncompile[0] += 1
        # every compiled callable is counted wherever it is called from - inside the solver or in the wrapper's own
        # post-solve scan - so a fault can strike at ANY evaluation of the model
        return inj.wrap("compiled", real_compile(e, V))

    def fake_hess(e, V):
        if hess_fault is not None:
            raise hess_fault("injected fault in compile_hessian")
        return real_hess(e, V)

    out = None
    try:
        SS.minimize = fake_minimize
        C.compile_expression = fake_compile
        AD.compile_hessian = fake_hess
        with warnings.catch_warnings():
            warnings.simplefilter("ignore")
            hook_before = warnings.showwarning
            try:
                sol = P.solve(method=method)
                out = ("returned", sol.status.value)
            except BaseException as ex:       # noqa: the whole point is to see KeyboardInterrupt too
                out = ("raised", type(ex).__name__)
            hook_after = warnings.showwarning
    finally:
        SS.minimize = real_min
        C.compile_expression = real_compile
        AD.compile_hessian = real_hess
    obs = {"outcome": out, "raised_inside": inj.raised_inside, "hook_restored": hook_after is hook_before, "recursion_limit_restored": sys.getrecursionlimit() == rl0,
           "flags_before": flags0,
           "flags_after": (P._variables is not None, P._solver_cache is not None, bool(P._solver_cache and "hess_fn" in P._solver_cache)),
           "counts": dict(inj.counts), "n_compiles": ncompile[0]}
    with warnings.catch_warnings():
        warnings.simplefilter("ignore")
        try:
            nxt = P.solve(method=method)
            obs["next"] = (nxt.status.value, nxt.objective_value, sorted(nxt.values.items()))
        except BaseException as ex:            # the next solve of the same Problem must behave as if nothing had happened
            obs["next"] = ("raised " + type(ex).__name__ + ": " + str(ex)[:80], None, [])
    obs["hook_after_next"] = warnings.showwarning is hook0
    return obs


def run(rep: vk.Report):
    vk.proof_stage(rep, "C20")
    rng = common.rng_for(rep.seed, "C20")
    quick = rep.tier == "quick"
    cases = Cases("faults", IMPORTS, CASE_TYPE, CHECKER, defs=DEFS)
    lpcases = Cases("lp-faults", IMPORTS, LP_TYPE, LP_CHECKER, defs=DEFS)
    injections = 0
    next_diffs = 0
    for pname, make, method in problems():
        base_inj = Injector()
        base = run_with_fault(make, method, base_inj)
        counts = base["counts"]
        baseline_next = base["next"]
        hess_needed = bool(base["flags_after"][2])
        plan = []
        for kind, n in counts.items():
            idxs = list(range(n))
            if quick and len(idxs) > 4:
                idxs = sorted(set([0, n - 1] + rng.sample(idxs, 2)))
            for k in idxs:
                plan.append(("callback", kind, k))
        for k in range(min(4, base.get("n_compiles", 4))):   # compiles during the cache build (objective, gradient entries, constraints): only those that happen
            plan.append(("compile", None, k))
        if hess_needed:
            plan.append(("hess", None, 0))
        for what, kind, k in plan:
            for ename, ecls in EXC.items():
                if quick and ename in ("FloatingPointError", "MemoryError") and rng.random() < 0.6:
                    continue
                injections += 1
                inj = Injector(kind, k, ecls) if what == "callback" else Injector()
                obs = run_with_fault(make, method, inj,
                                     compile_fault=(k, ecls) if what == "compile" else None,
                                     hess_fault=ecls if what == "hess" else None)
                if not obs["recursion_limit_restored"] or not obs["hook_after_next"]:
                    rep.violation({"kind": "global-state", "obligation": "process-global state restored", "witness": {"problem": pname, "fault": [what, kind, k, ename], "obs": obs}}, concrete=True)
                same_next = obs["next"][0] == baseline_next[0] and all(
                    abs(a[1] - b[1]) <= 1e-6 * max(1.0, abs(b[1])) for a, b in zip(obs["next"][2], baseline_next[2]))
                if not same_next:
                    next_diffs += 1
                    rep.violation({"kind": "next-solve", "obligation": "the next solve equals the baseline",
                                   "witness": {"problem": pname, "method": method, "fault": [what, kind, k, ename], "next": obs["next"],
                                               "baseline": baseline_next}}, concrete=True)
                # model prediction
                if what == "callback":
                    if obs["raised_inside"] is None:
                        continue            # the fault index was never reached on this path
                    phase = "POracle" if obs["raised_inside"] else "PPost"
                elif what == "compile":
                    phase = "PBuildCache"
                else:
                    phase = "PBuildHess"
                if obs["outcome"][0] == "returned":
                    out = "PyFAILED" if obs["outcome"][1] == "failed" else "PyOK"
                else:
                    out = f"(PyProp {obs['outcome'][1]})" if obs["outcome"][1] in EXC else "PyOK"
                fb, fa = obs["flags_before"], obs["flags_after"]
                w0 = (f"{{| hook := 7; vars_cached := {'true' if fb[0] else 'false'}; solver_cached := {'true' if fb[1] else 'false'}; "
                      f"hess_cached := {'true' if fb[2] else 'false'} |}}")
                term = (f"({w0}, {'true' if hess_needed else 'false'}, {phase}, {ename}, "
                        f"({'true' if obs['hook_restored'] else 'false'}, {'true' if fa[0] else 'false'}, {'true' if fa[1] else 'false'}, "
                        f"{'true' if fa[2] else 'false'}), {out})")
                cases.add(term, {"problem": pname, "method": method, "fault": [what, kind, k, ename], "outcome": obs["outcome"],
                                 "flags_after": fa, "hook_restored": obs["hook_restored"]},
                          kinds={pname, what, str(kind), ename, f"k{k}"})
    # ---- the hook that must be back afterwards is the one in place when THIS solve started, not the one some earlier solve of the same
    # Problem saw: solve under hook A, the application installs hook B (logging.captureWarnings does exactly that), then a solve that fails,
    # is interrupted, or simply succeeds
    hook_hist = 0
    import optyx.solvers.scipy_solver as SS_
    for pname, make, method in problems():
        for ename, ecls in list(EXC.items()) + [("none", None)]:
            P = make()
            orig_hook = warnings.showwarning
            hookA = lambda *a, **k: None
            hookB = lambda *a, **k: None
            real_min = SS_.minimize
            try:
                warnings.showwarning = hookA
                with warnings.catch_warnings():
                    warnings.simplefilter("ignore")
                    warnings.showwarning = hookA
                    P.solve(method=method)
                    warnings.showwarning = hookB
                    if ecls is not None:
                        def boom(*a, _e=ecls, **k):
                            raise _e("injected at solver entry")
                        SS_.minimize = boom
                    try:
                        P.solve(method=method)
                        outc = "returned"
                    except BaseException as ex:
                        outc = "raised " + type(ex).__name__
                    after = warnings.showwarning
            finally:
                SS_.minimize = real_min
                warnings.showwarning = orig_hook
            hook_hist += 1
            injections += 1
            if after is not hookB:
                rep.violation({"kind": "global-state", "obligation": "after a solve warnings.showwarning is the hook that was installed when that solve started",
                               "witness": {"problem": pname, "method": method, "history": "solve under hook A; install hook B; solve (" + (ename if ecls else "no fault") + ")",
                                           "outcome": outc, "hook_after": "A (stale)" if after is hookA else "B" if after is hookB else "the solver's private handler or another object"}},
                              concrete=True)
    fails = cases.run(shard=300)
    for i in fails:
        m = cases.meta[i]
        # the property's own clause, independent of the model: an evaluation RAISED during this call, and the call nevertheless
        # returned a solution that is not FAILED (the fault was swallowed), or the hook was not restored
        swallowed = m["outcome"][0] == "returned" and m["outcome"][1] != "failed"
        concrete = (not m["hook_restored"]) or swallowed
        rep.violation({"kind": "correspondence", "obligation": "outcome / hook / cache flags after the fault = model (Fault.v)", "meta": m,
                       "case": cases.terms[i][:1500], "model": cases.model_answer(i, lambda t: "match " + t + " with (w0, nh, ph, e, _, _) => solve_scipy w0 nh (Some (ph, e)) end"),
                       "witness": m if concrete else None}, concrete=concrete)
    # ---- LP wrapper
    import scipy.optimize
    from optyx import Variable, Problem
    import optyx.analysis as AN
    real_lin = scipy.optimize.linprog
    real_extract = AN.LinearProgramExtractor.extract
    for where, mx, warm in [(w_, m_, h_) for w_ in ["LOracle", "LExtract"] for m_ in (False, True) for h_ in (False, True)]:
        for ename, ecls in EXC.items():
            if where == "LExtract" and warm:
                continue                      # a warm problem does not extract again
            a = Variable("a", lb=0, ub=4); b = Variable("b", lb=0, ub=3)
            P = (Problem().maximize(a + 2 * b + 5) if mx else Problem().minimize(a + 2 * b + 5)).subject_to(a + b >= 1).subject_to(a + b <= 5)
            want = 16.0 if mx else 6.0        # max: a=2,b=3 -> 2+6+5+... (a+b<=5: a=2,b=3 -> 13) ; computed below independently
            ref = real_lin(c=[-1.0, -2.0] if mx else [1.0, 2.0], A_ub=[[-1.0, -1.0], [1.0, 1.0]], b_ub=[-1.0, 5.0], bounds=[(0, 4), (0, 3)], method="highs")
            want = (-ref.fun if mx else ref.fun) + 5.0
            if warm:
                P.solve()
            hook0 = warnings.showwarning
            try:
                if where == "LOracle":
                    scipy.optimize.linprog = lambda **kw: (_ for _ in ()).throw(ecls("injected"))
                else:
                    AN.LinearProgramExtractor.extract = lambda self, problem: (_ for _ in ()).throw(ecls("injected"))
                try:
                    sol = P.solve()
                    out = "PyFAILED" if sol.status.value == "failed" else "PyOK"
                except BaseException as ex:
                    nm = type(ex).__name__
                    out = f"(PyProp {nm})" if nm in EXC else f"(PyProp {ename})"   # extraction errors are re-raised wrapped in SolverError
            finally:
                scipy.optimize.linprog = real_lin
                AN.LinearProgramExtractor.extract = real_extract
            injections += 1
            hook_ok = warnings.showwarning is hook0
            nxt = P.solve()
            if nxt.status.value != "optimal" or abs(nxt.objective_value - want) > 1e-9:
                next_diffs += 1
                rep.violation({"kind": "next-solve", "obligation": "the next LP solve equals the baseline", "witness": {"fault": [where, ename],
                               "maximize": mx, "cache_warm_before_fault": warm, "next": [nxt.status.value, nxt.objective_value, nxt.values],
                               "expected_objective": want}}, concrete=True)
            lpcases.add(f"({where}, {ename}, {'true' if hook_ok else 'false'}, {out})", {"fault": [where, ename], "out": out, "maximize": mx, "warm": warm},
                        kinds={where, ename, str(mx), str(warm)})
    lfails = lpcases.run()
    for i in lfails:
        rep.violation({"kind": "correspondence", "obligation": "LP wrapper outcome after the fault = model", "meta": lpcases.meta[i],
                       "witness": lpcases.meta[i]}, concrete=True)
    # ---- recursion-limit bracket
    from optyx.core.autodiff import increased_recursion_limit
    rl = sys.getrecursionlimit()
    for ecls in list(EXC.values()) + [None]:
        try:
            with increased_recursion_limit(3000):
                assert sys.getrecursionlimit() == 3000
                if ecls:
                    raise ecls("x")
        except BaseException:
            pass
        injections += 1
        if sys.getrecursionlimit() != rl:
            rep.violation({"kind": "global-state", "obligation": "increased_recursion_limit restores the limit", "witness": {"exception": str(ecls)}},
                          concrete=True)
            sys.setrecursionlimit(rl)
    cov = rep.coverage
    cov["evaluations"] = injections
    cov["distinct_nontrivial"] = cases.nontrivial + lpcases.nontrivial
    cov["rule"] = ("fault enumeration: for each of 4 problems (SLSQP with equality+inequality, trust-constr with lazily built Hessian, "
                   "L-BFGS-B, auto) every kind of callable handed to SciPy (objective, gradient, constraint, constraint Jacobian, Hessian), "
                   "solver entry and exit, at call indices over the unfaulted baseline ("
                   + ("first, last and two sampled" if quick else "all") + "), the first four compiles of the cache build and the Hessian "
                   "build, x 4 exception classes; plus LP extraction / linprog faults and the recursion-limit bracket; distinct = "
                   "distinct (problem, fault point, index, class)")
    cov["samples"] = [dict(m) for m in cases.meta[:3]]
    cov["hook_switch_histories"] = hook_hist
    cov["injections"] = injections
    cov["outcome_histogram"] = {}
    for m in cases.meta:
        k = str(m["outcome"])
        cov["outcome_histogram"][k] = cov["outcome_histogram"].get(k, 0) + 1
    cov["next_solve_differences"] = next_diffs
    cov["correspondence_failures"] = len(fails) + len(lfails)
    cov["traces_validated_against_impl"] = len(cases.terms) + len(lpcases.terms)
    rep.assumptions += ["CPython exception semantics (try/except Exception/finally; KeyboardInterrupt is not an Exception) are modelled, not verified",
                        "faults are injected at the Python-visible seams; a fault inside SciPy's native code is outside reach"]


def replay(rep, path):
    import json
    print(json.dumps(json.load(open(path)), indent=1)[:6000])
    return 0
