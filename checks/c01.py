"""C01 - compiled callables compute the same function as the expression tree.

Proof: Props/C01.v (build_correct: run (build V e) x = evalR (env_of V x) e for every
       tree, every NoDup V containing its variables, every point and parameter
       valuation; build total; explicit-stack builder = recursive builder for
       every threshold).
Tie:   closures are opaque in Python, so the tie is behavioural and numeric:
       compile_expression (recursive path, forced explicit-stack path, cached
       second call), compile_to_dict_function, CompiledExpression.value and
       Expression.evaluate must each return a float inside the interval
       enclosure of the real denotation of the serialised tree at the point
       (channel I), for random permutations / supersets of the variables."""
from __future__ import annotations

import random
import numpy as np

import verifkit as vk
import gen
import ser
from checks import common

LEVEL = "proof"
IMPORTS = "SemI HarnessI"


class CompileTimeError(Exception):
    pass


def call(f, *a):
    """Call-time arithmetic errors and non-real results only happen outside the
    domain (e.g. Python's 0.0 ** -1 raises, (-1.5) ** 0.5 is complex): not finite."""
    try:
        return common.fval(f(*a))
    except (ZeroDivisionError, OverflowError, FloatingPointError, TypeError, ValueError):
        return None


FAIL_FIRST = [0]


def build_all(e, V):
    """All the ways the implementation can produce the number: name -> (callable, takes_dict)."""
    import optyx.core.compiler as C
    # an attempt that FAILS first (a variable missing from the list: KeyError) must leave nothing behind that changes what the
    # next, valid compilation of the same node objects under another layout returns
    if len(V) >= 2 and FAIL_FIRST[0] % 3 == 0:
        missing = [v for v in V if v in e.get_variables()]
        if missing:
            short = [v for v in V if v is not missing[0]][::-1]
            try:
                C.compile_expression(e, short)
            except Exception:
                pass
    FAIL_FIRST[0] += 1
    # The process-wide compile cache is deliberately NOT cleared between cases: whatever earlier expressions left in it
    # (same-named views, equal-named variables) must not change the answer for this one.
    with np.errstate(all="ignore"):
        try:
            f = C.compile_expression(e, V)
            f2 = C.compile_expression(e, V)
            old = C._RECURSION_THRESHOLD
            cached = C._compile_cached
            try:
                C._RECURSION_THRESHOLD = 0
                if hasattr(cached, "__wrapped__"):
                    C._compile_cached = cached.__wrapped__          # the explicit-stack builder, bypassing (not clearing) the cache
                else:
                    cached.cache_clear()
                f3 = C.compile_expression(e, V)
            finally:
                C._RECURSION_THRESHOLD = old
                C._compile_cached = cached
            f4 = C.compile_to_dict_function(e, V)
            ce = C.CompiledExpression(e, V)
        except Exception as ex:
            raise CompileTimeError(repr(ex)[:400])
    return {"compiled": (f, False), "cached": (f2, False), "iterative": (f3, False), "dict_fn": (f4, True),
            "CompiledExpression.value": (ce.value, False), "evaluate": (e.evaluate, True)}


def observe_calls(fns, V, x):
    d = {v.name: x[i] for i, v in enumerate(V)}
    with np.errstate(all="ignore"):
        out = {k: call(f, d if takes_dict else x) for k, (f, takes_dict) in fns.items()}
        if np.all(x == np.round(x)) and np.all(np.abs(x) < 1e6):
            # an integer-valued point handed over as an integer array.  The documented argument is a floating array and NumPy itself
            # refuses some integer operations (negative integer powers), so a refusal is accepted - but a NUMBER that comes back
            # must be the number
            # (64-bit only, and only where the value is far from the integer range: fixed-width integers wrap around)
            vi = call(fns["compiled"][0], x.astype(np.int64))
            vj = call(fns["iterative"][0], x.astype(np.int64))
            ref_ = out.get("evaluate")
            if ref_ is not None and abs(ref_) < 1e9:
                # ... and only where an exact-integer run of the same callable shows that no intermediate comes near 2**63; where that
                # cannot be established the observation is kept only if it agrees with the floating one (nothing to excuse then)
                fl_ = out.get("compiled")
                agrees = (vi is not None and vj is not None and fl_ is not None and abs(vi - fl_) <= 1e-9 * max(1.0, abs(fl_))
                          and abs(vj - fl_) <= 1e-9 * max(1.0, abs(fl_)))
                if agrees or common.int64_cannot_wrap(fns["compiled"][0], x):
                    out["int:compiled(int64 array)"] = vi
                    out["int:iterative(int64 array)"] = vj
        return out


def observe(e, V, x, rng):
    return observe_calls(build_all(e, V), V, x)


def run(rep: vk.Report):
    vk.proof_stage(rep, "C01", extra_trusted=["Interval library enclosure (SemI.evalI_correct) for the numeric channel"])
    n_expr = 200 if rep.tier == "quick" else 10000
    rng = common.rng_for(rep.seed, "C01")
    from optyx import Variable
    cases, meta, keep = [], [], []
    unsupported = 0
    errors = {}
    hits = {}
    kinds_hist = {}
    nontrivial = set()
    param_sets = [0]
    alias_probes = [0]
    partial, partial_meta = [], []
    def stream():
        k = 0
        for g, e in common.corpus(rng, rep.tier, n_expr, profiles=("poly", "smooth", "smooth", "all", "all"), errors=errors,
                                  gen_flags={"numpy_coefs": True}):
            yield g, e, None
            k += 1
            if k % 5 == 0:
                # two DIFFERENT views with the same name, reduced the same way and compiled one after the other for the same V
                try:
                    a, b = g.siblings()
                    cf = g.coeffs_distinct(a.size)
                    red = rng.choice([lambda w: w.sum(), lambda w: cf @ w, lambda w: w.dot(w) + cf @ w, lambda w: (w ** 2).sum()])
                    base = sorted({v.name: v for v in list(a._variables) + list(b._variables)}.values(), key=lambda v: common.natkey(v.name))
                    Vs = common.orders(base, [Variable("extra0")] if rng.random() < 0.3 else [], rng)
                    yield g, red(a), Vs
                    yield g, red(b), Vs
                except Exception:
                    pass

    for g, e, Vfixed in stream():
        try:
            S = ser.Ser()
            te = S.expr(e)
        except ser.Unsupported:
            unsupported += 1
            continue
        for k, v in g.hits.items():
            hits[k] = hits.get(k, 0) + v
        vs = sorted(e.get_variables(), key=lambda v: v.name)
        extras = [Variable(f"extra{j}") for j in range(rng.randint(0, 3))]
        V = common.orders(vs, extras, rng) if Vfixed is None else list(Vfixed)
        params = common.params_of(e)
        saved = {n: p.value for n, p in params.items()}
        try:
            fns = build_all(e, V)
        except CompileTimeError as ex:
            fns = None
            cte = ex
        # round 0 and 1: two points; round 2: every Parameter re-set AFTER compilation, same callables
        for rnd in range(3 if params else 2):
            pt = common.pick_point(rng, [v.name for v in V])
            if rnd == 1 and rng.random() < 0.35:
                pt = {v.name: float(rng.choice([1, 2, 3, -1, -2, 4, 5])) for v in V}      # an integer-valued point
            x = np.array([pt[v.name] for v in V], dtype=float)
            if rnd == 2:
                for n, p in params.items():
                    if np.ndim(p.value) == 0:
                        p.set(float(rng.choice([-1.5, 0.25, 2.0, 3.5, 0.0, 1.0])) + 0.0625 * rng.randrange(8))
                        param_sets[0] += 1
            try:
                if fns is None:
                    raise cte
                obs = observe_calls(fns, V, x)
            except CompileTimeError as ex:
                key = type(ex).__name__
                errors[key] = errors.get(key, 0) + 1
                rep.violation({"kind": "exception", "obligation": "every API-built scalar expression can be compiled (build_total)",
                               "expr": te[:3000], "V": [v.name for v in V], "error": repr(ex)[:500]}, concrete=True)
                break
            vals = [v for v in obs.values() if isinstance(v, float)]
            if obs["evaluate"] is None:
                continue  # outside the domain: the property does not speak about this point
            if len(vals) < sum(1 for k_ in obs if not k_.startswith("int:") or obs[k_] is not None):
                # some path raised / overflowed although evaluate() produced a number.  evaluate() goes through NumPy's inf
                # arithmetic (0.5/0 -> inf, inf**-0.5 -> 0.0), so a finite value does not prove the point is in the domain:
                # the MODEL decides - only if the enclosure of [[e]](x) is bounded is a failing path a violation
                ppts_ = {n: p.value for n, p in params.items()}
                partial.append(f"({te}, {common.pts_term(pt)}, {common.pts_term(ppts_)}, {ser.lst(ser.q(v) for v in vals)})")
                partial_meta.append({"expr": te[:3000], "V": [v.name for v in V], "point": pt, "obs": {k: str(v) for k, v in obs.items()}})
                continue
            ppts = {n: p.value for n, p in params.items()}
            cases.append(f"({te}, {common.pts_term(pt)}, {common.pts_term(ppts)}, {ser.lst(ser.q(v) for v in vals)})")
            meta.append({"V": [v.name for v in V], "point": pt, "obs": obs})
            keep.append(e)
            ks = common.kinds_of(te)
            for k in ks:
                kinds_hist[k] = kinds_hist.get(k, 0) + 1
            if len(ks) >= 2:
                nontrivial.add(te)
        # ---- call histories with the caller's OBJECTS reused: the same point dict / array updated in place between two calls, and the same
        # expression compiled again for a layout in which its variables keep their relative order but sit one slot further right
        if fns is not None and V:
            names_ = [v.name for v in V]
            pa, pb = common.pick_point(rng, names_), common.pick_point(rng, names_)
            xa, xb = np.array([pa[nm] for nm in names_], dtype=float), np.array([pb[nm] for nm in names_], dtype=float)
            with np.errstate(all="ignore"):
                ea, eb = call(e.evaluate, dict(pa)), call(e.evaluate, dict(pb))
            if ea is not None and eb is not None:
                alias_probes[0] += 1
                d_ = dict(pa)
                with np.errstate(all="ignore"):
                    v1 = call(e.evaluate, d_)
                    d_.update(pb)                      # the SAME mapping object, updated in place (a sweep / line search)
                    v2 = call(e.evaluate, d_)
                tol_ = 1e-9 * max(1.0, abs(eb))
                if v2 is None or abs(v2 - eb) > tol_ or v1 is None or abs(v1 - ea) > 1e-9 * max(1.0, abs(ea)):
                    rep.violation({"kind": "history", "obligation": "evaluate() reads the mapping it is given at every call (same dict object updated in place)",
                                   "witness": {"expr": te[:1500], "first_point": pa, "second_point": pb, "first": v1, "second": v2,
                                               "expected_first": ea, "expected_second": eb}}, concrete=True)
                for nm_, (f_, takes_dict) in fns.items():
                    if takes_dict or nm_ == "evaluate":
                        continue
                    # the reference is the SAME callable on fresh copies of the two points (what it answers without any reuse); points
                    # where that is not the tree's value (outside the domain: Python's 0.0 ** -1 raises, NumPy's gives inf) are left to
                    # the main stream, which lets the model adjudicate them
                    with np.errstate(all="ignore"):
                        fresh_a, fresh_b = call(f_, xa.copy()), call(f_, xb.copy())
                    if fresh_a is None or fresh_b is None or abs(fresh_b - eb) > tol_:
                        continue
                    try:
                        bad_ = common.alias_probe(lambda a_, f_=f_: np.float64(f_(a_)), xa, xb, lambda a_, fb_=fresh_b: np.float64(fb_), rtol=1e-12)
                    except (ZeroDivisionError, OverflowError, FloatingPointError, TypeError, ValueError):
                        continue
                    if bad_:
                        rep.violation({"kind": "history", "obligation": "a compiled callable reads the array it is given at every call",
                                       "witness": dict(bad_, expr=te[:1500], path=nm_, V=names_)}, concrete=True)
                # the same object compiled for [front] + V
                try:
                    import optyx.core.compiler as C_
                    front = Variable("aa_front") if "aa_front" not in names_ else Variable("a0_front")
                    f_shift = C_.compile_expression(e, [front] + list(V))
                    with np.errstate(all="ignore"):
                        vs_ = call(f_shift, np.concatenate([[7.25], xb]))
                        cb_ = call(fns["compiled"][0], xb.copy())
                    if cb_ is None or abs(cb_ - eb) > tol_:
                        pass              # outside the domain for the compiled path at this point: nothing to compare (main stream adjudicates)
                    elif vs_ is None or abs(vs_ - eb) > tol_:
                        rep.violation({"kind": "history", "obligation": "the same expression compiled for a second layout (one unused variable in front) returns its value",
                                       "witness": {"expr": te[:1500], "first_layout": names_, "second_layout": [front.name] + names_, "point": pb,
                                                   "compiled_for_second_layout": vs_, "evaluate": eb}}, concrete=True)
                except Exception as ex:
                    rep.violation({"kind": "exception", "obligation": "every API-built scalar expression can be compiled (build_total)",
                                   "expr": te[:1500], "V": ["<front>"] + names_, "error": repr(ex)[:300]}, concrete=True)
        for n, p in params.items():
            p.set(saved[n])
    # ---- the formula as the user WROTE it: API constructions against an independent NumPy function of the element values
    written = written_bad = 0
    written_err = {}
    for rnd_ in range(3 if rep.tier == "quick" else 60):
        wr = random.Random(rng.random())
        for label, build, ref, names in common.written_catalogue(wr, tag=f"w{rnd_}_"):
            try:
                e = build()
            except Exception as ex:
                written_err[type(ex).__name__] = written_err.get(type(ex).__name__, 0) + 1
                continue
            vs = sorted(e.get_variables(), key=lambda v: v.name)
            V = common.orders(vs, [Variable("extra0")] if wr.random() < 0.5 else [], wr)
            try:
                fns = build_all(e, V)
            except CompileTimeError as ex:
                rep.violation({"kind": "exception", "obligation": "every API-built scalar expression can be compiled (build_total)",
                               "expr": label, "V": [v.name for v in V], "error": repr(ex)[:500]}, concrete=True)
                continue
            vals = {v.name: wr.choice(common.NICE) for v in V}
            for t in names:
                vals.setdefault(t, wr.choice(common.NICE))
            x = np.array([vals[v.name] for v in V], dtype=float)
            want = ref(vals)
            obs = observe_calls(fns, V, x)
            written += 1
            off = {k_: v_ for k_, v_ in obs.items() if not k_.startswith("int:") and not (isinstance(v_, float) and np.isclose(v_, want, rtol=1e-9, atol=1e-9))}
            if off:
                written_bad += 1
                rep.violation({"kind": "numpy", "obligation": "compiled value = tree value = the value of the formula as written (NumPy on the element values)",
                               "witness": {"formula": label, "V": [v.name for v in V], "point": vals, "numpy": want,
                                           "paths_that_differ": {k_: str(v_) for k_, v_ in off.items()}}}, concrete=True)
    fails, und = common.run_classify(IMPORTS, "", common.NUM_TYPE, cases, common.NUM_CHECKER) if cases else ([], [])
    if partial:
        pf, pu = common.run_classify(IMPORTS, "", common.NUM_TYPE, partial, common.NUM_CHECKER)
        for i in range(len(partial)):
            if i in set(pu):
                continue                      # singular / outside the domain: the property does not speak about this point
            rep.violation({"kind": "numeric", "obligation": "inside the domain (bounded enclosure of [[e]](x)) every path returns the number",
                           "expr": partial_meta[i]["expr"], "V": partial_meta[i]["V"], "point": partial_meta[i]["point"],
                           "obs": partial_meta[i]["obs"], "finite_values_outside_enclosure": i in set(pf),
                           "witness": partial_meta[i]}, concrete=True)
    for i in fails[:25]:
        m = meta[i]
        vals = {k: v for k, v in m["obs"].items() if isinstance(v, float)}
        spread = max(vals.values()) - min(vals.values())
        enc = ""
        try:
            import coqrun
            enc = coqrun.eval_term(IMPORTS, "", "match " + cases[i] + " with (e, pts, ppts, _) => "
                                   "let xi := enclosure e pts ppts in (I.lower xi, I.upper xi) end")[-600:]
        except Exception as ex:
            enc = f"<{ex}>"
        rep.violation({"kind": "numeric", "obligation": "compiled / evaluated value within the enclosure of [[e]](x)",
                       "case": cases[i][:5000], "meta": m, "enclosure": enc, "paths_spread": spread,
                       "witness": {"V": m["V"], "point": m["point"], "values": m["obs"]}}, concrete=True)

    cov = rep.coverage
    cov["evaluations"] = len(cases) * 6
    cov["distinct_nontrivial"] = len(nontrivial)
    cov["rule"] = ("API-built scalar expressions (seeded generator), V = adversarial orderings of the variables plus 0-3 extras (shuffle, natural, reversed, interior swap, "
                   "interleaved extras, rotation, interior permutation), two dyadic points each plus a third after every Parameter was "
                   "re-set on the already-compiled callables; six observations per case (compiled, cached, forced explicit-stack, dict function, "
                   "CompiledExpression.value, evaluate); distinct = distinct serialised tree, non-trivial = at least two node kinds")
    cov["samples"] = [c[:400] for c in cases[:3]]
    cov["node_kind_histogram"] = dict(sorted(kinds_hist.items()))
    cov["generator_hits"] = dict(sorted(hits.items()))
    cov["parameter_updates_after_compile"] = param_sets[0]
    cov["points_where_some_path_failed"] = len(partial)
    cov["numeric_cases"] = len(cases)
    cov["numeric_undecided_near_singularity"] = len(und)
    cov["numeric_decided"] = len(cases) - len(und)
    cov["unsupported_by_serialiser"] = unsupported
    cov["exceptions"] = errors
    cov["correspondence_failures"] = len(fails)
    cov["formulas_as_written_checked_against_numpy"] = written
    cov["call_histories_with_reused_objects"] = alias_probes[0]
    cov["formulas_as_written_construction_errors"] = written_err
    cov["traces_validated_against_impl"] = (len(cases) - len(und)) * 6
    rep.assumptions += ["binary64 primitives are within one outward rounding at 40 bits of the exact operation (numeric channel)",
                        "array-valued constants/parameters are outside the model"]


def replay(rep, path):
    import json
    print(json.dumps(json.load(open(path)), indent=1)[:6000])
    return 0
