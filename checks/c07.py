"""C07 - reported objective value and variable values are self-consistent.

Proof: Props/C07.v (for every oracle answer: the reported objective undoes the sign
       flip exactly and, on the LP path, adds the objective's constant; the values
       have exactly one entry per problem variable in problem order; scalar / vector /
       matrix handles retrieve the entry of each of their elements with the handle's
       own shape and order; together with C01 (obj_fn denotes +/- the objective) and
       C05 (c.x + c0 = objective) the reported value is the objective at the values).
Tie:   (S) scripted answers at both seams: objective_value, values (keys and order)
       and every handle retrieval (vectors, reversed / stepped slices, rows, columns,
       transposes, diagonals, symmetric matrices) must equal the model's;
       (I) real solves: the reported objective value must lie in the interval enclosure
       of the objective's denotation at the reported values, both orientations."""
from __future__ import annotations

import itertools
import os
import sys
import random
import warnings
import numpy as np

import verifkit as vk
import gen
import ser
import stubs
from checks import common
from checks.common import Cases

LEVEL = "proof"
IMPORTS = "Vars SolveWrap Gen.GenTables"
DEFS = """
Definition oq_eqb (a b : option Q) : bool := opt_eqb Qeq_bool a b.
Definition vals_eqb (a b : list (string * Q)) : bool :=
  list_eqb (fun p q => String.eqb (fst p) (fst q) && Qeq_bool (snd p) (snd q)) a b.
Definition handles_ok (vals : list (string * Q)) (hs : list (list (list string) * list (list Q))) : bool :=
  forallb (fun h => list_eqb (list_eqb oq_eqb) (get_matrix vals (fst h)) (map (map Some) (snd h))) hs.
"""
CHECKER = ("fun k => match k with (lp, mx, c0, V, r, (ob, vals), hs) => "
           "let out := if lp then post_linprog gen_lp_chain gen_lp_default mx c0 V r "
           "else finish gen_status_chain gen_status_default mx V r false 1 in "
           "oq_eqb (o_objective out) ob && vals_eqb (o_values out) vals && handles_ok (o_values out) hs "
           "&& list_eqb String.eqb (map fst (o_values out)) V end")
CASE_TYPE = ("bool * bool * Q * list string * mresult * (option Q * list (string * Q)) * "
             "list (list (list string) * list (list Q))")


def mres_term(r):
    x = "None" if r.x is None else f"(Some {ser.lst(ser.q(float(v)) for v in r.x)})"
    f = "None" if r.fun is None else f"(Some {ser.q(float(r.fun))})"
    return (f"{{| r_success := {'true' if r.success else 'false'}; r_kws := []; r_status := {int(r.status)}%Z; "
            f"r_x := {x}; r_fun := {f} |}}")


def handles(pool: gen.Pool, rng):
    """(names as rows, callable retrieving from a Solution) for scalar, vector and matrix handles."""
    hs = []
    for v in pool.scalars:
        hs.append(([[v.name]], lambda s, v=v: np.array([[s[v]]])))
    for x in pool.vectors:
        views = [x]
        if x.size >= 2:
            # several handles whose generated NAMES coincide (a slice's name omits the step: x[:], x[0:n], x[::-1] are all "x[0:n]"),
            # read one after the other from the same solution
            views += [x[::-1], x[0:x.size - 1], x[::2], x[:], x[0:x.size], x[1:x.size], x[x.size - 2::-1]]
            if x.size >= 4:
                views += [x[0:4:2], x[0:4:3]]
        for w in views:
            hs.append(([[e.name for e in w._variables]], lambda s, w=w: np.atleast_2d(s[w])))
    for m in pool.matrices:
        for mv in (m, m.T):
            hs.append(([[mv[i, j].name for j in range(mv.cols)] for i in range(mv.rows)], lambda s, mv=mv: s[mv]))
            hs.append(([[e.name for e in mv[0, :]._variables]], lambda s, mv=mv: np.atleast_2d(s[mv[0, :]])))
            hs.append(([[e.name for e in mv[:, mv.cols - 1]._variables]], lambda s, mv=mv: np.atleast_2d(s[mv[:, mv.cols - 1]])))
        if m.rows == m.cols:
            hs.append(([[e.name for e in m.diagonal()._variables]], lambda s, m=m: np.atleast_2d(s[m.diagonal()])))
        if m.cols >= 3:
            # two different windows of one row: both are called "M[0,:]" and have the same length
            for a_, b_ in ((0, 2), (1, 3), (0, m.cols - 1), (1, m.cols)):
                hs.append(([[e.name for e in m[0, a_:b_]._variables]], lambda s, m=m, a_=a_, b_=b_: np.atleast_2d(s[m[0, a_:b_]])))
        if m.rows >= 3:
            for a_, b_ in ((0, 2), (1, 3)):
                hs.append(([[e.name for e in m[a_:b_, 0]._variables]], lambda s, m=m, a_=a_, b_=b_: np.atleast_2d(s[m[a_:b_, 0]])))
    return hs


def run(rep: vk.Report):
    vk.proof_stage(rep, "C07", extra_trusted=["Interval library enclosure (SemI.evalI_correct) for the numeric channel"])
    rng = common.rng_for(rep.seed, "C07")
    from optyx import Problem
    from optyx.analysis import is_linear
    n_stub = 160 if rep.tier == "quick" else 5000
    cases = Cases("report", IMPORTS, CASE_TYPE, CHECKER, defs=DEFS)
    for i in range(n_stub):
        r = random.Random(rng.random())
        g = gen.Gen(r, profile="poly")
        pool = g.pool
        allv = pool.all_scalar_vars()
        seen_names = set()
        uniq = [v for v in allv if not (v.name in seen_names or seen_names.add(v.name))]
        linear = r.random() < 0.5
        # objective mentions every pool variable so that every handle is retrievable
        coef = [r.choice([1, 2, -1, 0.5, 3]) for _ in uniq]
        obj = sum((c * v for c, v in zip(coef[1:], uniq[1:])), coef[0] * uniq[0]) + r.choice([0, 5, -2.5])
        if not linear:
            obj = obj + uniq[0] ** 2
        mx = r.random() < 0.5
        P = Problem()
        (P.maximize if mx else P.minimize)(obj)
        V = [v.name for v in P.variables]
        x = [float(r.choice([0.5, 1.5, -2.0, 3.25, 0.0, 7.0, -0.75])) + 0.125 * k for k in range(len(V))]
        fun = float(r.choice([1.5, -2.0, 0.0, 10.25]))
        res = stubs.mres(success=True, x=x, fun=fun, status=0)
        meth = r.choice(["auto", "SLSQP", "trust-constr", "L-BFGS-B"]) if not linear else r.choice(["auto", "linprog", "highs-ds"])
        with stubs.Seams(minimize_script=[res, res], linprog_script=[res]) as S, warnings.catch_warnings():
            warnings.simplefilter("ignore")
            sol = P.solve(method=meth)
        lp = bool(S.linprog_calls)
        c0 = float(getattr(P._lp_cache, "c0", 0.0)) if lp else 0.0
        hts = []
        for rows, getter in handles(pool, r):
            try:
                arr = np.asarray(getter(sol), dtype=float)
            except Exception as ex:
                rep.violation({"kind": "exception", "obligation": "handles retrievable from a solution holding all variables",
                               "handle": rows, "error": repr(ex)[:300]}, concrete=True)
                continue
            if arr.shape != (len(rows), len(rows[0])):
                rep.violation({"kind": "shape", "obligation": "handle retrieval has the handle's shape", "handle": rows,
                               "shape": list(arr.shape)}, concrete=True)
                continue
            hts.append(f"({ser.lst(ser.lst(ser.s(n) for n in row) for row in rows)}, "
                       f"{ser.lst(ser.lst(ser.q(float(v)) for v in row) for row in arr.tolist())})")
        ob = "None" if sol.objective_value is None else f"(Some {ser.q(sol.objective_value)})"
        vals = ser.lst(f"({ser.s(k)}, {ser.q(v)})" for k, v in sol.values.items())
        term = (f"({'true' if lp else 'false'}, {'true' if mx else 'false'}, {ser.q(c0)}, {ser.lst(ser.s(n) for n in V)}, "
                f"{mres_term(res)}, ({ob}, {vals}), {ser.lst(hts)})")
        cases.add(term, {"lp": lp, "maximize": mx, "method": meth, "n": len(V), "handles": len(hts)},
                  kinds={"lp" if lp else "nlp", "max" if mx else "min", meth, f"n{len(V)}"})
    fails = cases.run(shard=60)
    for i in fails[:20]:
        rep.violation({"kind": "correspondence", "obligation": "reported objective / values / handles = model (SolveWrap.v)",
                       "case": cases.terms[i][:5000], "meta": cases.meta[i],
                       "model": cases.model_answer(i, lambda t: "match " + t + " with (lp, mx, c0, V, r, _, _) => "
                                                   "if lp then post_linprog gen_lp_chain gen_lp_default mx c0 V r else finish gen_status_chain gen_status_default mx V r false 1 end"),
                       "witness": cases.meta[i]}, concrete=True)

    # ---- real solves: objective_value within the enclosure of the objective at the reported values
    n_real = 150 if rep.tier == "quick" else 2500
    nums, nmeta = [], []
    hist_count = {}
    far_points = 0
    from optyx.solution import SolverStatus
    for i in range(n_real):
        r = random.Random(rng.random())
        g = gen.Gen(r, profile="poly")
        x = g.pool.vectors[0]
        kind = r.choice(["lp", "qp", "nlp"])
        const = r.choice([0, 5, -2.5, 100])
        dead = None
        if kind == "lp":
            cf = g.coeffs(x.size)
            if r.random() < 0.3:
                cf = np.array([r.choice([1, 2, 3, 5]) + j for j in range(x.size)], dtype=r.choice([np.uint8, np.uint16, np.int32]))
            obj = r.choice([lambda: cf @ x + const, lambda: const - cf @ x, lambda: (const + 1) - x.sum(), lambda: x @ cf - const,
                            lambda: const + 2 * x.sum(), lambda: cf @ x[::-1] + const,
                            # coefficients / divisors written as constant-valued EXPRESSIONS (whatever route the library takes for them)
                            lambda: (cf @ x) / (gen.Constant(2.0) * 2) + const + x[0], lambda: x[0] / (gen.Constant(4.0) / 2) + cf @ x + const,
                            lambda: x.sum() / (-gen.Constant(2.0)) + const - x[0] * (gen.Constant(3.0) / gen.Constant(2.0))])()
            if r.random() < 0.4:
                # a variable whose net coefficient is zero everywhere and that has no bounds: it is still a variable of the model
                dead = gen.Variable(r.choice(["zz_dead", "a_dead"]))
                obj = r.choice([lambda: obj + 0 * dead, lambda: obj + (dead - dead), lambda: 0.0 * dead + obj])()
        elif kind == "qp":
            # centres 5 / -4 lie outside the box [-2, 3]: a method that never sees the bounds ends outside it, a bound-aware one on it
            obj = ((x - r.choice([0.5, 1, -1, 5, -4])) ** 2).sum() + const + g.coeffs(x.size) @ x
        else:
            obj = gen.FN["exp"](x * 0.5).sum() + ((x) ** 2).sum() + const
        mx = r.random() < 0.5
        P = Problem()
        for v in x:
            v.lb, v.ub = -2.0, 3.0
        (P.maximize if mx else P.minimize)(-obj if mx else obj)
        # every method the wrapper accepts: constrained ones with a constraint, the others (bounded or not, derivative-free or not) without
        if kind != "lp" and r.random() < 0.5:
            meth = r.choice(["L-BFGS-B", "TNC", "Nelder-Mead", "Powell", "BFGS", "CG", "COBYLA", "Newton-CG", "trust-ncg", "trust-exact", "dogleg",
                             "trust-krylov", "COBYQA"])
            if meth in ("COBYLA", "COBYQA") and r.random() < 0.5:
                P.subject_to(x.sum() <= 4)
        else:
            P.subject_to(x.sum() <= 4)
            meth = r.choice(["auto", "SLSQP", "trust-constr"]) if kind != "lp" else r.choice(["auto", "highs", "SLSQP"])
        # a short history on the same Problem: every solve's report is checked, not only the first
        steps = ["solve"]
        for _ in range(r.randint(0, 2)):
            steps.append(r.choice(["flip_same_object", "flip_same_object", "resolve", "new_objective_same_sense", "add_constraint",
                                   "rejected_opposite_setter", "rejected_opposite_setter", "add_constraint_new_variable_in_front",
                                   "add_constraint_new_variable_in_front"]))
        cur_mx = mx
        for step in steps:
            if step == "flip_same_object":
                cur_mx = not cur_mx
                (P.maximize if cur_mx else P.minimize)(P.objective)      # bounded either way: every variable is boxed
            elif step == "new_objective_same_sense":
                nobj = ((x - 0.25) ** 2).sum() * (-1 if cur_mx else 1) + r.choice([1, -3])
                (P.maximize if cur_mx else P.minimize)(nobj)
            elif step == "add_constraint":
                P.subject_to(x[0] <= 2.5)
            elif step == "add_constraint_new_variable_in_front":
                # the new constraint brings a variable that sorts BEFORE the objective's: every column of the objective moves right
                slack = gen.Variable(r.choice(["a0_slack", "A_slack", "_s"]), lb=0.0, ub=1.0)
                P.subject_to(slack + x[0] <= 2.75)
            elif step == "rejected_opposite_setter":
                # a call that is REJECTED (not an expression) must change nothing - in particular not the orientation
                try:
                    (P.minimize if cur_mx else P.maximize)(r.choice(["x + 2*y", None, 3.5, [1, 2]]))
                except Exception:
                    pass
            with warnings.catch_warnings():
                warnings.simplefilter("ignore")
                import time as _t
                t0_ = _t.time()
                try:
                    sol = P.solve(method=meth)
                except Exception:
                    break
                if os.environ.get("VERIF_DEBUG_C07") and _t.time() - t0_ > 2:
                    print("SLOW", meth, kind, step, cur_mx, round(_t.time() - t0_, 1), sol.status.value, file=sys.stderr)
            hist_count[step] = hist_count.get(step, 0) + 1
            hist_count["method:" + meth + ":" + sol.status.value] = hist_count.get("method:" + meth + ":" + sol.status.value, 0) + 1
            if sol.values and sol.status in (SolverStatus.OPTIMAL,):
                want_names = [v.name for v in P.variables]
                if sorted(sol.values) != sorted(want_names):
                    rep.violation({"kind": "values", "obligation": "the solution holds a value for exactly the problem's variables",
                                   "witness": {"objective": repr(P.objective)[:300], "method": meth, "history": list(steps), "variables": want_names,
                                               "value_keys": sorted(sol.values)}}, concrete=True)
                    continue
                if dead is not None and dead.name in want_names:
                    try:
                        float(sol[dead])
                    except Exception as ex:
                        rep.violation({"kind": "values", "obligation": "every variable of the problem can be retrieved from the solution",
                                       "witness": {"objective": repr(P.objective)[:300], "method": meth, "variable": dead.name, "error": repr(ex)[:200]}},
                                      concrete=True)
            if sol.objective_value is None or not sol.values or not np.isfinite(sol.objective_value):
                continue
            far = max(abs(float(t_)) for t_ in sol.values.values()) > 64.0 or abs(sol.objective_value) > 1e9
            if far:
                # a method that never sees the bounds may run far away on an unbounded flip: the enclosure of exp / powers at such points
                # costs minutes of exact arithmetic, so THERE the report is compared with the tree's own evaluation in floating point
                far_points += 1
                with np.errstate(all="ignore"):
                    rec_ = common.fval(P.objective.evaluate(sol.values))
                if rec_ is not None and abs(rec_ - sol.objective_value) > 1e-9 * max(1.0, abs(rec_)):
                    rep.violation({"kind": "numeric", "obligation": "objective_value = objective at the returned values (far point, floating-point comparison)",
                                   "witness": {"objective": repr(P.objective)[:300], "maximize": cur_mx, "method": meth, "history": list(steps),
                                               "status": sol.status.value, "reported": sol.objective_value, "recomputed": rec_, "values": sol.values}},
                                  concrete=True)
                continue
            S = ser.Ser()
            te = S.expr(P.objective)
            nums.append(f"({te}, {common.pts_term(sol.values)}, [], [{ser.q(sol.objective_value)}])")
            nmeta.append({"kind": kind, "maximize": cur_mx, "method": meth, "status": sol.status.value, "objective_value": sol.objective_value,
                          "history": steps[:steps.index(step) + 1] if steps.count(step) == 1 else list(steps), "values": sol.values,
                          "recomputed": common.fval(P.objective.evaluate(sol.values))})
            # orientation: the reported point must not be worse than the box centre / corners for the CURRENT sense (catches a stale sign)
            # (only for linear programs: a local solver may legitimately stop at a local optimum of a non-convex flip)
            if sol.status == SolverStatus.OPTIMAL and kind == "lp" and is_linear(P.objective):
                probes = [{v.name: c for v in P.variables} for c in (-2.0, 0.0, 0.5, 1.0)]
                feas = [pt for pt in probes if all(cn.is_satisfied(pt) for cn in P.constraints)]
                for pt in feas:
                    fv = common.fval(P.objective.evaluate(pt))
                    if fv is None:
                        continue
                    worse = (fv > sol.objective_value + 5e-3 * (1 + abs(fv))) if cur_mx else (fv < sol.objective_value - 5e-3 * (1 + abs(fv)))
                    if worse:
                        rep.violation({"kind": "orientation", "obligation": "an OPTIMAL report is at least as good, in the problem's CURRENT sense, as any feasible probe point",
                                       "witness": {"objective": repr(P.objective)[:300], "maximize": cur_mx, "method": meth, "history": list(steps),
                                                   "reported": sol.objective_value, "probe": pt, "probe_value": fv}}, concrete=True)
                        break
    # ---- LP sweep over the ways a user may hold the cost vector: dtype x orientation x spelling, bare `c @ x` included
    from optyx import VectorVariable as _VV
    sweep = 0
    for dt, mx_, form in itertools.product([np.float64, np.int64, np.int32, np.uint8, np.uint16], [False, True], range(4)):
        xv = _VV("q", 4, lb=0.0, ub=4.0)
        cvec = np.array([3, 1, 2, 5], dtype=dt)
        obj = [lambda: cvec @ xv, lambda: cvec @ xv + 2.5, lambda: 10 - cvec @ xv, lambda: xv @ cvec][form]()
        P = Problem()
        (P.maximize if mx_ else P.minimize)(obj)
        P.subject_to(xv.sum() <= 6)
        for meth in ("auto", "highs-ds"):
            with warnings.catch_warnings():
                warnings.simplefilter("ignore")
                try:
                    sol = P.solve(method=meth)
                except Exception as ex:
                    rep.violation({"kind": "exception", "obligation": "an LP with integer-typed cost data solves", "witness": {"dtype": np.dtype(dt).name,
                                   "maximize": mx_, "objective": repr(obj)[:120], "error": repr(ex)[:200]}}, concrete=True)
                    continue
            sweep += 1
            if sol.status != SolverStatus.OPTIMAL:
                continue
            xs = np.array([sol.values[f"q[{k}]"] for k in range(4)])
            cfl = np.array([3.0, 1.0, 2.0, 5.0])
            want = [cfl @ xs, cfl @ xs + 2.5, 10 - cfl @ xs, cfl @ xs][form]
            # the optimum itself, from the data: costs 3,1,2,5 on the box [0,4]^4 with sum <= 6
            best = {(False, 0): 0.0, (True, 0): 5 * 4 + 3 * 2, (False, 1): 2.5, (True, 1): 28.5, (False, 2): 10 - 26.0, (True, 2): 10.0,
                    (False, 3): 0.0, (True, 3): 26.0}[(mx_, form)]
            if abs(sol.objective_value - want) > 1e-7 * (1 + abs(want)) or abs(sol.objective_value - best) > 1e-6 * (1 + abs(best)):
                rep.violation({"kind": "values", "obligation": "objective_value = objective at the returned values = the optimum of the model as written",
                               "witness": {"cost_dtype": np.dtype(dt).name, "maximize": mx_, "objective": repr(obj)[:120], "method": meth,
                                           "reported": sol.objective_value, "objective_at_returned_values": float(want), "true_optimum": best,
                                           "values": sol.values}}, concrete=True)
    # ---- a Parameter inside a loop-accumulated objective (shallow, and beyond the depth where the explicit-stack compiler takes
    # over), re-solved after set(): the reported value must be the objective, under the CURRENT parameter value, at the returned point
    from optyx import Parameter as _P
    param_resolves = 0
    for nterms, meth in itertools.product([40, 399, 450], ["auto", "SLSQP"]):
        xv = _VV("r", 3, lb=-5.0, ub=5.0)
        lam = _P("lam", 0.5)
        data = [(0.1 * k - 1.0, (k % 5) * 0.25) for k in range(nterms)]
        obj = None
        for k, (a_, b_) in enumerate(data):
            t = (xv[k % 3] * a_ - b_) ** 2 + lam * xv[k % 3] * 0.01
            obj = t if obj is None else obj + t
        P = Problem().minimize(obj)
        for val in (None, 50.0, -3.0):
            if val is not None:
                lam.set(val)
            with warnings.catch_warnings():
                warnings.simplefilter("ignore")
                sol = P.solve(method=meth)
            param_resolves += 1
            xs = [sol.values[f"r[{k}]"] for k in range(3)]
            want = sum((xs[k % 3] * a_ - b_) ** 2 + float(lam.value) * xs[k % 3] * 0.01 for k, (a_, b_) in enumerate(data))
            if sol.objective_value is None or abs(sol.objective_value - want) > 1e-7 * (1 + abs(want)):
                rep.violation({"kind": "values", "obligation": "objective_value = objective (current parameter value) at the returned values",
                               "witness": {"terms": nterms, "method": meth, "lam": float(lam.value), "history": "solve; lam.set(50); solve; lam.set(-3); solve",
                                           "reported": sol.objective_value, "objective_at_returned_values": want, "values": sol.values}}, concrete=True)
                break
    nfails, nund = common.run_classify("SemI HarnessI", "", common.NUM_TYPE, nums, common.NUM_CHECKER) if nums else ([], [])
    for i in nfails:
        rep.violation({"kind": "numeric", "obligation": "objective_value = objective evaluated at the reported values",
                       "case": nums[i][:3000], "witness": nmeta[i]}, concrete=True)
    cov = rep.coverage
    cov["evaluations"] = len(cases.terms) + len(nums)
    cov["distinct_nontrivial"] = cases.nontrivial
    cov["rule"] = ("scripted answers at both seams for problems over scalar, vector and matrix variables (incl. symmetric, transposed, "
                   "sliced views): objective value, values and every handle retrieval compared exactly with the model; plus real solves "
                   "(LP/QP/NLP, both orientations, objectives with constants) checked by interval enclosure")
    cov["samples"] = [c[:500] for c in cases.terms[:2]] + [n[:300] for n in nums[:2]]
    cov["stub_cases"] = len(cases.terms)
    cov["handles_checked"] = sum(m["handles"] for m in cases.meta)
    cov["lp_cost_dtype_sweep"] = sweep
    cov["parameter_resolves"] = param_resolves
    cov["real_solves"] = len(nums)
    cov["real_solves_far_from_the_box_compared_in_floating_point"] = far_points
    cov["history_steps"] = hist_count
    cov["real_undecided"] = len(nund)
    cov["correspondence_failures"] = len(fails) + len(nfails)
    cov["traces_validated_against_impl"] = len(cases.terms) + len(nums) - len(nund)
    rep.assumptions += ["oracle contract for the end-to-end reading: r.fun is the value at r.x of the function handed over (scipy minimize) / c.x (linprog)"]


def replay(rep, path):
    import json
    print(json.dumps(json.load(open(path)), indent=1)[:6000])
    return 0
