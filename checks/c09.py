"""C09 - nonlinear solves are a transparent wrapper over SciPy.

Proof: Props/C09.v - what optyx hands to scipy.optimize.minimize and what it makes of
       the answer: fun denotes s*objective (C01), jac its gradient (C02/C03), hess its
       Hessian for the generated Hessian-capable methods (C17), bounds exactly for the
       generated bounds-capable methods, the default start lies within the bounds,
       constraints as C10, result mapping as C06/C07.  That SciPy converges, and that
       closures agreeing up to rounding drive it along the same iterates, is outside
       any executable model: PARTIAL, named in the level note.
Tie:   (I) at the minimize seam (stub records the callables): fun / jac / hess at probe
       points must lie in the enclosure of the model's s*objective, its gradient and
       its second derivatives; x0 and bounds must equal the model's initial_point /
       bounds_arg.
Search (the property's own quantifier): manufactured strictly convex problems (QP and
       smooth non-quadratic; equality / inequality / bounds active or not; min and
       max of the negation; shuffled variable names) solved by optyx and by a direct
       SciPy call with hand-written NumPy callables from the same start."""
from __future__ import annotations

import random
import warnings
import numpy as np

import verifkit as vk
import gen
import ser
import stubs
from checks import common

LEVEL = "proof"
IMPORTS = "Autodiff SolveWrap Gen.GenTables SemI HarnessI"
NUM_CHECKER = ("fun c => match c with (e, which, pts, ppts, obs) => "
               "let t := match which with "
               "| (None, None) => e "
               "| (Some v, None) => grad ln2c ln10c v e "
               "| (Some v, Some w) => grad ln2c ln10c w (grad ln2c ln10c v e) "
               "| (None, Some w) => e end in "
               "worst (map (num_check t pts ppts) obs) end")
NUM_TYPE = "expr * (option string * option string) * list (string * Q) * list (string * Q) * list Q"
ARG_DEFS = """
Definition bnd_eqb (a b : option Q * option Q) : bool := opt_eqb Qeq_bool (fst a) (fst b) && opt_eqb Qeq_bool (snd a) (snd b).
Definition qclose (a b : Q) : bool := Qle_bool (Qabs (a - b)) (QQ 1 1000000000).
"""
ARG_CHECKER = ("fun k => match k with (m, bnds, x0, bpassed, jflag, hflag) => "
               "list_eqb qclose (initial_point bnds) x0 "
               "&& opt_eqb (list_eqb bnd_eqb) (bounds_arg bounds_methods m bnds) bpassed "
               "&& Bool.eqb (use_gradient derivative_free_methods m) jflag "
               "&& Bool.eqb (use_hessian hessian_methods m true) hflag end")
ARG_TYPE = "string * list (option Q * option Q) * list Q * option (list (option Q * option Q)) * bool * bool"


def smooth_objective(g: gen.Gen, r):
    """Twice differentiable objective over the pool's variables."""
    from optyx.core import functions as F
    x = g.pool.vectors[0]
    a, b = g.pool.scalars[0], g.pool.scalars[1]
    k = r.randrange(6)
    if k == 0:
        return ((x - 0.5) ** 2).sum() + a ** 2 + a * b + 2 * b ** 2
    if k == 1:
        return F.exp(a * 0.5) + F.exp(-b * 0.5) + (x ** 2).sum()
    if k == 2:
        return x.dot(x) + (a - b) ** 2 + F.cos(a) + 3
    if k == 3:
        return F.exp(x * 0.5).sum() + a ** 2 + b ** 2 - a
    if k == 4:
        Q = np.eye(x.size) * 2 + 0.5
        return x.dot(Q @ x) + F.sin(a) * b + a ** 2 + b ** 2
    return (a ** 2 + 1) * (b ** 2 + 2) + (x ** 4).sum()


def seam_probe(rep, rng, n):
    from optyx import Problem
    nums, nmeta, args, ameta = [], [], [], []
    for i in range(n):
        r = random.Random(rng.random())
        g = gen.Gen(r, profile="smooth", pool=gen.Pool(r, with_matrices=False))
        obj = smooth_objective(g, r)
        mx = r.random() < 0.4
        P = Problem()
        # bound layouts a model may have as a whole: mixed, only upper bounds, only lower bounds, none at all, a single one-sided bound
        blay = r.choice(["mixed", "mixed", "upper_only", "lower_only", "none", "one_upper", "one_lower"])
        allv_ = g.pool.all_scalar_vars()
        lone = r.randrange(len(allv_))
        for j_, v in enumerate(allv_):
            v.lb = r.choice([None, -2.0, 0.0, -0.5]); v.ub = r.choice([None, 3.0, 1.5])
            if blay in ("upper_only", "none", "one_upper", "one_lower"):
                v.lb = None
            if blay in ("lower_only", "none", "one_upper", "one_lower"):
                v.ub = None
            if blay == "upper_only" and v.ub is None and r.random() < 0.7:
                v.ub = 1.5
            if blay == "lower_only" and v.lb is None and r.random() < 0.7:
                v.lb = -0.5
            if blay == "one_upper" and j_ == lone:
                v.ub = r.choice([0.0, 1.5, -1.0])
            if blay == "one_lower" and j_ == lone:
                v.lb = r.choice([0.0, -0.5, 1.0])
            if v.lb is not None and v.ub is not None and v.lb > v.ub:
                v.ub = None
        (P.maximize if mx else P.minimize)(obj)
        x = g.pool.vectors[0]
        if r.random() < 0.6:
            P.subject_to(x.sum() <= 2)
        meth = r.choice(["SLSQP", "trust-constr", "L-BFGS-B", "BFGS", "Nelder-Mead", "Newton-CG", "TNC", "COBYLA", "Powell"])
        with stubs.Seams(minimize_script=[lambda call: stubs.mres(x=call["x0"], fun=float(call["fun"](call["x0"])))] * 2) as S, \
                warnings.catch_warnings():
            warnings.simplefilter("ignore")
            try:
                P.solve(method=meth)
            except Exception as ex:
                rep.violation({"kind": "exception", "obligation": "solve hands the problem to the seam", "method": meth,
                               "error": repr(ex)[:300]}, concrete=True)
                continue
        call = S.minimize_calls[0]
        V = P.variables
        names = [v.name for v in V]
        Ss = ser.Ser()
        te = Ss.expr(obj)
        tm = f"(Un Neg {te})" if mx else te
        oq = lambda b: "None" if b is None or not np.isfinite(b) else f"(Some {ser.q(float(b))})"
        bnds = ser.lst(f"({oq(v.lb)}, {oq(v.ub)})" for v in V)
        bp = "None" if call["bounds"] is None else "(Some " + ser.lst(f"({oq(b[0])}, {oq(b[1])})" for b in call["bounds"]) + ")"
        args.append(f"({ser.s(meth)}, {bnds}, {ser.lst(ser.q(float(t)) for t in call['x0'])}, {bp}, "
                    f"{'true' if call['jac'] is not None else 'false'}, {'true' if call['hess'] is not None else 'false'})")
        ameta.append({"method": meth, "maximize": mx, "x0": call["x0"].tolist()})
        for _ in range(2):
            pt = common.pick_point(r, names, positive_bias=0.4)
            xa = np.array([pt[nm] for nm in names], dtype=float)
            with np.errstate(all="ignore"):
                fv = common.fval(call["fun"](xa))
                jv = np.asarray(call["jac"](xa), dtype=float) if call["jac"] is not None else None
                hv = np.asarray(call["hess"](xa), dtype=float) if call["hess"] is not None else None
            if fv is None:
                continue
            nums.append(f"({tm}, (None, None), {common.pts_term(pt)}, [], [{ser.q(fv)}])")
            nmeta.append({"what": "fun", "method": meth, "maximize": mx, "point": pt, "value": fv, "objective": repr(obj)[:300]})
            if jv is not None and np.all(np.isfinite(jv)):
                for j, nm in enumerate(names):
                    nums.append(f"({tm}, (Some {ser.s(nm)}, None), {common.pts_term(pt)}, [], [{ser.q(float(jv[j]))}])")
                    nmeta.append({"what": f"jac[{nm}]", "method": meth, "maximize": mx, "point": pt, "value": float(jv[j]), "objective": repr(obj)[:300]})
            if hv is not None and np.all(np.isfinite(hv)):
                if not np.array_equal(hv, hv.T):
                    rep.violation({"kind": "symmetry", "obligation": "Hessian handed over is symmetric", "method": meth, "point": pt,
                                   "hess": hv.tolist()}, concrete=True)
                for a in range(len(names)):
                    for b in range(len(names)):
                        nums.append(f"({tm}, (Some {ser.s(names[a])}, Some {ser.s(names[b])}), {common.pts_term(pt)}, [], [{ser.q(float(hv[a, b]))}])")
                        nmeta.append({"what": f"hess[{names[a]},{names[b]}]", "method": meth, "maximize": mx, "point": pt,
                                      "value": float(hv[a, b]), "objective": repr(obj)[:300]})
    return nums, nmeta, args, ameta


def manufactured(rep, rng, n):
    """Direct SciPy call with hand-written NumPy callables vs optyx, same start, same method; the same Problem is then
    edited (constraints added singly and as lists, bounds edited) and re-solved, against a direct call on the edited model."""
    from scipy.optimize import minimize as sp_minimize
    from optyx import Variable, Problem
    from optyx.core import functions as F
    from optyx.solution import SolverStatus
    from optyx.solvers.scipy_solver import _compute_initial_point
    tried = conv = 0
    layouts = ["none", "eq", "ineq_active", "ineq_inactive", "bounds_active", "bounds_inactive", "eq_then_ineq", "ineq_then_eq", "two_ineq",
               "bound_exactly_zero", "upper_only_active", "one_upper_active", "lower_only_active", "param_ineq_active"]
    edits_hist = {}
    for i in range(n):
        r = random.Random(rng.random())
        nv = r.randint(2, 4)
        vector_family = (i % 2 == 1)          # every other problem is written with the vector API (reductions, views, c - f spellings)
        if vector_family:
            from optyx import VectorVariable
            vec = VectorVariable(r.choice(["v", "x", "q"]), nv)
            vs = list(vec)
            names = [v.name for v in vs]
        else:
            vec = None
            names = r.sample(["v10", "v2", "a", "b1", "x03", "x3", "zz", "m", "k9"], nv)
            vs = [Variable(nm) for nm in names]
        a = np.array([r.choice([-1.0, 0.5, 2.0, 1.0, -0.5]) for _ in range(nv)])
        d = np.array([r.choice([1.0, 2.0, 0.5, 4.0]) for _ in range(nv)])
        cl = np.array([0.25 * (k + 1) * (-1 if k % 2 else 1) for k in range(nv)]) if vector_family else np.zeros(nv)   # linear term, distinct weights
        kind = r.choice(["qp", "exp"])
        cons_kind = layouts[(i // 2) % len(layouts)]
        mx = r.random() < 0.4
        def f_np(x, order):
            xa = np.array([x[order[nm]] for nm in names])
            base = 0.5 * float(np.sum(d * (xa - a) ** 2)) + 3.0 + float(cl @ xa)
            auxv = (x[order[aux["name"]]] - 1.0) ** 2 if aux["name"] is not None else 0.0
            return base + (float(np.sum(np.exp(0.3 * xa))) if kind == "exp" else 0.0) + auxv
        def g_np(x, order):
            xa = np.array([x[order[nm]] for nm in names])
            g = d * (xa - a) + cl + (0.3 * np.exp(0.3 * xa) if kind == "exp" else 0.0)
            out = np.zeros(len(x))
            for k, nm in enumerate(names):
                out[order[nm]] = g[k]
            if aux["name"] is not None:
                out[order[aux["name"]]] = 2.0 * (x[order[aux["name"]]] - 1.0)
            return out
        # an auxiliary variable that occurs in the OBJECTIVE only and sorts before every other one; an "objective swap" edit later
        # replaces it by one that sorts after them: same number of variables, every constraint column shifts
        aux = {"name": None}
        expr = sum((0.5 * float(d[k]) * (vs[k] - float(a[k])) ** 2 for k in range(1, nv)), 0.5 * float(d[0]) * (vs[0] - float(a[0])) ** 2) + 3.0
        if vector_family:
            # the linear term over a REVERSED view that covers every variable of the problem (weights reversed to match)
            expr = expr + r.choice([lambda: cl[::-1].copy() @ vec[::-1], lambda: vec[::-1] @ cl[::-1].copy(), lambda: cl @ vec])()
        if kind == "exp":
            expr = expr + sum((F.exp(0.3 * v) for v in vs[1:]), F.exp(0.3 * vs[0]))
        expr_core = expr
        use_aux = cons_kind in ("eq", "ineq_active", "eq_then_ineq", "two_ineq", "param_ineq_active") and r.random() < 0.6
        if use_aux:
            aux_var = Variable("A0_aux")
            aux["name"] = aux_var.name
            expr = expr_core + (aux_var - 1.0) ** 2
        P = Problem()
        (P.maximize(-expr) if mx else P.minimize(expr))
        s = float(np.sum(a))
        total = sum(vs[1:], vs[0])
        # constraint pieces: (optyx constraint, numpy dict builder given the variable order)
        w = np.array([1.0 + 0.5 * k for k in range(nv)])
        wexpr = sum((float(w[k]) * vs[k] for k in range(1, nv)), float(w[0]) * vs[0])
        def wdot(x, order):
            return float(sum(w[k] * x[order[nm]] for k, nm in enumerate(names)))
        def wjac(x, order):
            out = np.zeros(len(x))
            for k, nm in enumerate(names):
                out[order[nm]] = w[k]
            return out
        if vector_family:
            total = r.choice([lambda: vec.sum(), lambda: np.ones(nv) @ vec, lambda: vec[::-1].sum()])()
            wexpr = r.choice([lambda: w @ vec, lambda: vec @ w, lambda: w[::-1].copy() @ vec[::-1]])()
        def spell(f, sense, c):
            """The same relation f (sense) c in the spellings a user may choose, incl. a constant MINUS the function."""
            from optyx import Constant
            k = r.randrange(5) if vector_family else 0
            if sense == "==":
                return [lambda: f.eq(c), lambda: (f - c).eq(0), lambda: (c - f).eq(0), lambda: (Constant(c) - f).eq(0), lambda: f.eq(c)][k]()
            if sense == "<=":
                return [lambda: f <= c, lambda: c >= f, lambda: c - f >= 0, lambda: Constant(c) - f >= 0, lambda: f - c <= 0][k]()
            return [lambda: f >= c, lambda: c <= f, lambda: c - f <= 0, lambda: Constant(c) - f <= 0, lambda: f - c >= 0][k]()
        def tot(x, o):
            return float(sum(x[o[nm]] for nm in names))          # the sum over the MODEL's variables (an auxiliary objective variable is not one)
        def ones_at(x, o):
            out = np.zeros(len(x))
            for nm in names:
                out[o[nm]] = 1.0
            return out
        from optyx import Parameter as _Par
        pq = _Par(f"pq{i}", 1.0)          # a coefficient the user updates between solves; the reference reads it at call time
        piece = {
            "param_ineq": (lambda: pq * total <= s - 1.0,
                           lambda o: {"type": "ineq", "fun": lambda x: (s - 1.0) - float(pq.value) * tot(x, o),
                                      "jac": lambda x: -float(pq.value) * ones_at(x, o)}),
            "eq": (lambda: spell(total, "==", s - 1.0), lambda o: {"type": "eq", "fun": lambda x: tot(x, o) - (s - 1.0), "jac": lambda x: ones_at(x, o)}),
            "ineq_active": (lambda: spell(total, "<=", s - 1.0), lambda o: {"type": "ineq", "fun": lambda x: (s - 1.0) - tot(x, o), "jac": lambda x: -ones_at(x, o)}),
            "ineq_inactive": (lambda: spell(total, "<=", s + 50.0), lambda o: {"type": "ineq", "fun": lambda x: (s + 50.0) - tot(x, o), "jac": lambda x: -ones_at(x, o)}),
            "w_active": (lambda: spell(wexpr, ">=", float(w @ a) + 0.8), lambda o: {"type": "ineq", "fun": lambda x: wdot(x, o) - (float(w @ a) + 0.8), "jac": lambda x: wjac(x, o)}),
        }
        seq = {"none": [], "eq": ["eq"], "ineq_active": ["ineq_active"], "ineq_inactive": ["ineq_inactive"], "bounds_active": [], "bounds_inactive": [],
               "eq_then_ineq": ["eq", "w_active"], "ineq_then_eq": ["w_active", "eq"], "two_ineq": ["ineq_active", "w_active"],
               "bound_exactly_zero": [], "upper_only_active": [], "one_upper_active": [], "lower_only_active": [],
               "param_ineq_active": ["param_ineq"]}[cons_kind]
        builders = []
        for nm in seq:
            P.subject_to(piece[nm][0]())
            builders.append(piece[nm][1])
        if cons_kind == "bounds_active":
            vs[0].lb = float(a[0]) + 0.5
        elif cons_kind == "bounds_inactive":
            vs[0].lb = float(a[0]) - 5.0
            vs[0].ub = float(a[0]) + 5.0
        elif cons_kind == "upper_only_active":
            for k_ in range(nv):
                vs[k_].ub = float(a[k_]) - 0.5 - 0.25 * k_
        elif cons_kind == "one_upper_active":
            vs[-1].ub = float(a[-1]) - 1.0
        elif cons_kind == "lower_only_active":
            for k_ in range(nv):
                vs[k_].lb = float(a[k_]) + 0.5 + 0.25 * k_
        elif cons_kind == "bound_exactly_zero":
            # the bound value 0 (int and float spellings) on the side the objective pushes against
            for k_ in range(nv):
                if a[k_] > 0:
                    vs[k_].ub = 0 if k_ % 2 == 0 else 0.0
                else:
                    vs[k_].lb = 0 if k_ % 2 == 0 else -0.0

        def compare(tag, history):
            nonlocal tried, conv
            V = P.variables
            order = {v.name: k for k, v in enumerate(V)}
            np_cons = [bld(order) for bld in builders]
            box_only = not np_cons
            methods = ["auto", "SLSQP", "trust-constr"] + (["L-BFGS-B"] if box_only else [])
            for meth in methods:
                tried += 1
                x0 = _compute_initial_point(V)
                with warnings.catch_warnings():
                    warnings.simplefilter("ignore")
                    sol = P.solve(method=meth)
                    m_direct = meth if meth != "auto" else ("L-BFGS-B" if not np_cons else "SLSQP")
                    bnds = [(v.lb if v.lb is not None else -np.inf, v.ub if v.ub is not None else np.inf) for v in V]
                    try:
                        ref = sp_minimize(lambda x: f_np(x, order), x0, jac=lambda x: g_np(x, order), method=m_direct,
                                          bounds=bnds, constraints=np_cons if np_cons else ())
                    except Exception:
                        continue
                if not ref.success:
                    continue
                conv += 1
                fstar = float(ref.fun)
                ok_status = sol.status == SolverStatus.OPTIMAL
                gap = infeas = dist = None
                if sol.values:
                    xo = np.array([sol.values[v.name] for v in V])
                    gap = f_np(xo, order) - fstar
                    dist = float(np.max(np.abs(xo - ref.x)))
                    infeas = 0.0
                    for cdict in np_cons:
                        val = float(cdict["fun"](xo))
                        infeas = max(infeas, -val if cdict["type"] == "ineq" else abs(val))
                    for k, (lo, hi) in enumerate(bnds):
                        infeas = max(infeas, lo - xo[k], xo[k] - hi)
                acc = 5e-3 if meth in ('trust-constr', 'auto') else 1e-5    # trust-constr (which auto may pick) is a barrier method: looser solver accuracy
                # the optimum of a strictly convex problem is unique: optyx's point must be feasible for the model as written and
                # its objective must agree with the direct call's from BOTH sides
                bad = (not ok_status or gap is None or gap > acc * (1 + abs(fstar)) or infeas > 1e-4
                       or gap < -(10 * acc) * (1 + abs(fstar)))
                if bad:
                    rep.violation({"kind": "differential", "obligation": "direct SciPy converges => optyx OPTIMAL at the same (unique) optimum, feasible for the model as written",
                                   "witness": {"names": names, "a": a.tolist(), "d": d.tolist(), "objective": kind, "constraints": seq,
                                               "layout": cons_kind, "history": list(history), "at": tag,
                                               "maximize_negation": mx, "method": meth, "optyx_status": sol.status.value,
                                               "optyx_values": sol.values, "direct_x": ref.x.tolist(), "direct_fun": fstar, "gap": gap,
                                               "infeasibility_of_optyx_point": infeas, "distance": dist,
                                               "reported_objective": sol.objective_value}}, concrete=True)
                elif sol.objective_value is not None:
                    want = -f_np(xo, order) if mx else f_np(xo, order)
                    if abs(sol.objective_value - want) > 1e-7 * (1 + abs(want)):
                        rep.violation({"kind": "differential", "obligation": "objective value in the user's orientation",
                                       "witness": {"names": names, "method": meth, "maximize_negation": mx, "reported": sol.objective_value,
                                                   "expected": want, "history": list(history)}}, concrete=True)

        history = []
        compare("first solves", history)
        for step in range(r.randint(1, 2)):
            # (lower cuts would contradict the active upper bounds of the upper-bound layouts: those are edited through bounds only)
            edit = r.choice(["bound_edit"] if cons_kind in ("upper_only_active", "one_upper_active") else
                            ["param_update"] if cons_kind == "param_ineq_active" else ["list_cut", "scalar_cut", "bound_edit", "bound_edit"])
            if use_aux and step == 0:
                edit = "objective_swap"
            edits_hist[edit] = edits_hist.get(edit, 0) + 1
            if edit == "list_cut":
                cut = [0.3 + 0.1 * k for k in range(nv)]
                P.subject_to([vs[k] >= float(a[k]) + cut[k] for k in range(nv)])       # a Python list of constraints
                for k, nm in enumerate(names):
                    builders.append(lambda o, nm=nm, c=float(a[k]) + cut[k]: {"type": "ineq", "fun": lambda x: x[o[nm]] - c,
                                                                            "jac": lambda x: np.eye(len(x))[o[nm]]})
            elif edit == "objective_swap":
                # the objective is replaced by one over another variable set of the SAME size (the auxiliary variable in front leaves,
                # one at the back enters): the constraints, untouched, now sit at other positions of the solver's vector
                aux_var2 = Variable("zz_aux")
                aux["name"] = aux_var2.name
                expr2 = expr_core + (aux_var2 - 1.0) ** 2
                (P.maximize(-expr2) if mx else P.minimize(expr2))
            elif edit == "param_update":
                pq.set([1.5, 0.75, 2.0][step % 3])          # the same Problem, the same callables: the new coefficient must be used
            elif edit == "scalar_cut":
                P.subject_to(vs[0] >= float(a[0]) + 0.7)
                builders.append(lambda o, nm=names[0], c=float(a[0]) + 0.7: {"type": "ineq", "fun": lambda x: x[o[nm]] - c,
                                                                           "jac": lambda x: np.eye(len(x))[o[nm]]})
            else:
                k = r.randrange(nv)
                if r.random() < 0.5:
                    vs[k].lb = float(a[k]) + 0.4 + (1.0 if vs[k].lb is not None else 0.0)
                else:
                    vs[k].ub = float(a[k]) - 0.4 - (1.0 if vs[k].ub is not None else 0.0)
                if vs[k].lb is not None and vs[k].ub is not None and vs[k].lb > vs[k].ub:
                    vs[k].ub = None
            history.append(edit)
            compare(f"after edit {step + 1}", history)
    manufactured.edits = edits_hist
    return tried, conv


def deep_family(rep, rng):
    """A weighted least-squares fit written as a LOOP of 450 terms (the explicit-stack compiler builds its callable), against
    the closed-form optimum: group-wise weighted means, clipped to the box."""
    from optyx import Variable, Problem
    from optyx.solution import SolverStatus
    r = random.Random(rng.random())
    lv = [Variable(nm, lb=-5.0, ub=5.0) for nm in ("g_a", "g_b", "g_c")]
    ys = [round(r.uniform(-2, 2), 3) for _ in range(450)]
    ws = [r.choice([0.5, 1.0, 2.0]) for _ in range(450)]
    obj = None
    for k in range(450):
        t = ws[k] * (lv[k % 3] - ys[k]) ** 2 if k % 2 else (ys[k] - lv[k % 3]) ** 2 * ws[k] / 1.0
        obj = t if obj is None else obj + t
    star = []
    for gi in range(3):
        wsum = sum(ws[k] for k in range(gi, 450, 3)); wy = sum(ws[k] * ys[k] for k in range(gi, 450, 3))
        star.append(wy / wsum)
    fstar = sum(ws[k] * (star[k % 3] - ys[k]) ** 2 for k in range(450))
    out = 0
    for mx in (False, True):
        for meth in ("auto", "SLSQP", "L-BFGS-B", "trust-constr"):
            P = Problem()
            (P.maximize(-obj) if mx else P.minimize(obj))
            with warnings.catch_warnings():
                warnings.simplefilter("ignore")
                try:
                    sol = P.solve(method=meth)
                except Exception as ex:
                    rep.violation({"kind": "exception", "obligation": "a 450-term accumulated objective solves", "witness": {"method": meth, "error": repr(ex)[:300]}},
                                  concrete=True)
                    continue
            out += 1
            got = None if not sol.values else sum(ws[k] * (sol.values[lv[k % 3].name] - ys[k]) ** 2 for k in range(450))
            if sol.status != SolverStatus.OPTIMAL or got is None or got - fstar > 1e-4 * (1 + abs(fstar)):
                rep.violation({"kind": "differential", "obligation": "direct optimum of a deep (loop-built) least-squares objective is found and reported OPTIMAL",
                               "witness": {"terms": 450, "method": meth, "maximize_negation": mx, "optyx_status": sol.status.value, "optyx_values": sol.values,
                                           "objective_at_optyx_point": got, "optimum": fstar, "optimal_point": star, "message": str(sol.message)[:200]}},
                              concrete=True)
    return out


def run(rep: vk.Report):
    vk.proof_stage(rep, "C09", extra_trusted=["Interval library enclosure (SemI.evalI_correct) for the numeric channel",
                                              "SciPy's convergence and iterate sequence are NOT modelled (partial)"])
    rng = common.rng_for(rep.seed, "C09")
    nums, nmeta, args, ameta = seam_probe(rep, rng, 40 if rep.tier == "quick" else 1500)
    nfails, nund = common.run_classify(IMPORTS, "", NUM_TYPE, nums, NUM_CHECKER) if nums else ([], [])
    import coqrun
    afails = coqrun.run_cases("SolveWrap Gen.GenTables", ARG_DEFS, ARG_TYPE, args, ARG_CHECKER) if args else []
    for i in nfails:
        rep.violation({"kind": "numeric", "obligation": "callable handed to SciPy within the enclosure of the model's objective / derivative",
                       "case": nums[i][:3000], "witness": nmeta[i]}, concrete=True)
    for i in afails:
        rep.violation({"kind": "correspondence", "obligation": "x0 / bounds / jac / hess arguments = model", "case": args[i][:2000],
                       "witness": ameta[i]}, concrete=True)
    tried, conv = manufactured(rep, rng, 28 if rep.tier == "quick" else 700)
    deep_solved = deep_family(rep, rng)
    cov = rep.coverage
    cov["deep_loop_built_objective_solves"] = deep_solved
    cov["evaluations"] = len(nums) + len(args) + tried
    cov["distinct_nontrivial"] = len(set(nums)) + len(set(args))
    cov["rule"] = ("generated smooth problems over scalar and vector variables with random bounds, 9 methods, both orientations: the "
                   "callables captured at the minimize seam are probed at dyadic points (fun, every jac entry, every hess entry) and "
                   "checked by interval enclosure; x0/bounds/flags compared with the model; plus manufactured convex problems solved "
                   "by optyx and by a direct SciPy call from the same start")
    cov["samples"] = [n[:300] for n in nums[:2]] + [a[:300] for a in args[:1]]
    cov["seam_probes"] = len(nums)
    cov["seam_probes_undecided"] = len(nund)
    cov["argument_cases"] = len(args)
    cov["manufactured_edits"] = getattr(manufactured, "edits", {})
    cov["manufactured_solves"] = tried
    cov["manufactured_direct_converged"] = conv
    cov["correspondence_failures"] = len(nfails) + len(afails)
    cov["traces_validated_against_impl"] = len(nums) - len(nund) + len(args)
    rep.assumptions += ["PARTIAL: SciPy's convergence and the equality of iterate sequences between rounding-equivalent callables are not provable here",
                        "oracle extensionality: the solver's answer depends only on the values its callables return"]


def replay(rep, path):
    import json
    print(json.dumps(json.load(open(path)), indent=1)[:6000])
    return 0
