"""C19 - derivative callables stay finite at singular points.

Proof: Props/C19.v (sanitise: output all finite, regular entries unchanged, NaN -> 0,
       +/-Inf -> +/-large; every GENERATED vectorised closure either passes through
       the sanitiser or is built from primitives bounded on all inputs; every general
       path returns through the sanitiser - both facts re-derived from the source on
       this run).
Tie:   compile_gradient / compile_jacobian / compile_hessian outputs at points ON the
       singular sets (0, negatives for sqrt/log, +/-1, pi/2, origin for norms) and at
       large finite points: every entry finite; entries whose interval enclosure is
       bounded (regular entries) inside the enclosure of the model derivative;
       vectorised path vs the general path (same expression wrapped as e + 0): special
       entries (0, +/-1e16) identical, regular entries equal up to rounding."""
from __future__ import annotations

import itertools
import random
import warnings
import numpy as np

import verifkit as vk
import gen
import ser
from checks import common

LEVEL = "proof"
IMPORTS = "Autodiff Gen.GenTables SemI HarnessI"
SING = [0.0, -1.0, 1.0, -0.5, 0.5, 1.5707963267948966, 2.0, -2.0]
HUGE = [800.0, -800.0, 1e308, -1e308, 1e-320, 710.0]
LARGE = 1e16
# verdict 2 (undecided / singular) is the interesting class here: accept, but count
NUM_CHECKER = ("fun c => match c with (e, which, pts, ppts, obs) => "
               "let t := match which with "
               "| (Some v, None) => grad ln2c ln10c v e "
               "| (Some v, Some w) => grad ln2c ln10c w (grad ln2c ln10c v e) "
               "| _ => e end in worst (map (num_check t pts ppts) obs) end")
NUM_TYPE = "expr * (option string * option string) * list (string * Q) * list (string * Q) * list Q"


def singular_exprs(g: gen.Gen, r):
    from optyx.core.vectors import norm as vnorm
    x = g.view()
    a = g.pool.scalars[0]
    ops = ["abs", "sqrt", "log", "tan", "exp", "sinh", "cosh", "sin", "cos", "tanh"]
    k = r.randrange(19)
    b = g.pool.scalars[1]
    if k >= 12:
        # a REDUCTION that vanishes at the origin (or where the vector equals a constant), nested inside a function that is singular
        # there: log(||x||), sum(x**2) ** -1, 1 / sum(sin x), sqrt(x'Qx), log(sum of a vector expression) ...
        from optyx.core.matrices import quadratic_form
        sh = r.choice([0.0, 0.0, 1.0])
        w = x if sh == 0.0 else x - sh
        inner = r.choice([lambda: vnorm(w), lambda: vnorm(w, 1), lambda: (x ** 2).sum() if sh == 0.0 else ((x - sh) ** 2).sum(),
                          lambda: x.dot(x), lambda: gen.FN["sin"](x).sum(), lambda: quadratic_form(x, np.eye(x.size) * 2.0),
                          lambda: (x * x).sum(), lambda: gen.FN["abs"](x).sum(), lambda: (x ** 4).sum()])()
        outer = r.choice([lambda f: gen.FN["log"](f), lambda f: f ** 0.5, lambda f: f ** -1, lambda f: 1 / f, lambda f: gen.FN["sqrt"](f),
                          lambda f: f ** 1.5, lambda f: gen.FN["log"](f + 0.0) * 2, lambda f: 3 / f + f])
        return outer(inner) + (a if k % 2 else 0)
    if k == 9:
        # singular MIXED partials: d2/da db is singular on a = 0 while the diagonal in b is regular
        return gen.FN[r.choice(["sqrt", "log", "abs"])](a) * b + 3 * a * b + b ** 2
    if k == 10:
        return b / a + b * b + gen.FN["sqrt"](a) * x[0]
    if k == 11:
        return (a ** r.choice([0.5, -1, 1.5])) * (b + 2) + 5e17 * b        # a regular entry beyond +-1e16 next to singular ones
    wgt = r.choice([1, 1, 3, -1, 0.5, -2.5, 1e300, 7])           # a constant weight on a vectorised sum, written on either side
    scale = (lambda f: f) if wgt == 1 else r.choice([lambda f: wgt * f, lambda f: f * wgt, lambda f: -(f * abs(wgt))])
    if k == 0:
        return scale(gen.FN[r.choice(ops)](x).sum())
    if k == 1:
        return scale((x ** r.choice([0.5, -1, -2, 1.5, 2, 3, 1, -0.5])).sum())
    if k == 2:
        return vnorm(x) + a
    if k == 3:
        return vnorm(x, 1) * 2
    if k == 4:
        return gen.FN[r.choice(["abs", "sqrt", "log", "asin", "acos", "atanh", "acosh", "tan"])](a) + x.sum()
    if k == 5:
        return a ** r.choice([0.5, -1, 1.5]) + x.dot(x)
    if k == 6:
        return 1 / a + gen.FN["log"](x[0] * x[0])
    if k == 7:
        return gen.FN["sqrt"](x.dot(x)) + gen.FN["abs"](a * 2)
    return gen.FN["exp"](a * 10) + gen.FN["sqrt"](a)


SAN_DEFS = """
Definition xq := xfloat Q.
Definition xeqb (a b : xq) : bool :=
  match a, b with
  | Fin x, Fin y => Qeq_bool x y
  | PInf, PInf | NInf, NInf | NaN, NaN => true
  | _, _ => false
  end.
Definition san (v : list xq) : list xq := sanitize (QQ 0 1) (QQ 10000000000000000 1) (QQ (-10000000000000000) 1) v.
"""
SAN_CHECKER = "fun c => match c with (v, seen) => list_eqb xeqb (san v) seen end"
SAN_TYPE = "list xq * list xq"


def xq(v):
    v = float(v)
    if np.isnan(v):
        return "NaN"
    if np.isinf(v):
        return "PInf" if v > 0 else "NInf"
    return f"(Fin {ser.q(v)})"


def sanitiser_cases(rng, n):
    """The sanitiser itself, run on arrays mixing NaN / +-Inf with ordinary, huge (beyond +-1e16) and tiny finite values,
    in 1-D and 2-D, against Sanitize.sanitize: special entries replaced, every finite entry returned bit for bit."""
    import optyx.core.compiler as C
    finite = [0.0, -0.0, 1.5, -2.25, 1e16, -1e16, 5e17, -3e18, 1e300, -1e300, 1e-300, 9.999999999999998e15, 1.0000000000000002e16, 123456.789]
    bad = [float("nan"), float("inf"), float("-inf")]
    cases, meta = [], []
    for i in range(n):
        m = rng.randint(1, 6)
        p_bad = rng.choice([0.0, 0.0, 0.3, 0.6, 1.0])
        vals = [rng.choice(bad) if rng.random() < p_bad else rng.choice(finite) for _ in range(m)]
        arr = np.array(vals, dtype=float)
        if rng.random() < 0.3 and m % 2 == 0:
            arr = arr.reshape(2, m // 2)
        before = arr.copy()
        with np.errstate(all="ignore"), warnings.catch_warnings():
            warnings.simplefilter("ignore")
            out = np.asarray(C._sanitize_derivatives(arr), dtype=float)
        flat_out = out.reshape(-1)
        cases.append(f"({ser.lst(xq(v) for v in before.reshape(-1))}, {ser.lst(xq(v) for v in flat_out)})")
        meta.append({"input": [repr(float(v)) for v in before.reshape(-1)], "output": [repr(float(v)) for v in flat_out],
                     "shape": list(before.shape), "shape_kept": list(out.shape) == list(before.shape)})
    return cases, meta


def run(rep: vk.Report):
    vk.proof_stage(rep, "C19", extra_trusted=["Interval library enclosure (SemI.evalI_correct) for regular entries"])
    rng = common.rng_for(rep.seed, "C19")
    import optyx.core.autodiff as AD
    import optyx.core.compiler as C
    from optyx import Variable
    n = 150 if rep.tier == "quick" else 5000
    nums, nmeta = [], []
    nonfinite = 0
    entries = 0
    special = {"0": 0, "+1e16": 0, "-1e16": 0}
    path_diffs = 0
    stacked = 0
    paths = {}
    fixed = common.vectorised_worklist()
    for i in range(n + len(fixed)):
        r = random.Random(rng.random())
        g = gen.Gen(r, profile="smooth", pool=gen.Pool(r, with_matrices=(r.random() < 0.3)))
        try:
            e = fixed[i][0] if i < len(fixed) else singular_exprs(g, r)
            Ss = ser.Ser()
            te = Ss.expr(e)
        except Exception:
            continue
        if i < len(fixed):
            V = list(fixed[i][1])
        else:
            vs = sorted(e.get_variables(), key=lambda v: v.name)
            from optyx.problem import _variable_order_key
            vs.sort(key=_variable_order_key)
            V = list(vs)
            if r.random() < 0.4:
                V = V + [Variable("extra0")]
            if r.random() < 0.3:
                r.shuffle(V)
        names = [v.name for v in V]
        with warnings.catch_warnings():
            warnings.simplefilter("ignore")
            try:
                gf = C.compile_gradient(e, V)
                jf = AD.compile_jacobian([e], V)
                hf = AD.compile_hessian(e, V)
                gf0 = C.compile_gradient(e + 0, V)          # same derivative trees through the general path
                hf0 = AD.compile_hessian(e + 0, V)
                # the same row inside STACKS that mix it with rows whose Jacobian is constant (linear rows), in every position
                lin1 = sum((float(k + 2) * v for k, v in enumerate(V[1:])), 2.0 * V[0]) + 1.0
                lin2 = V[-1] * 5.0 - 3.0
                layout = r.choice([("e", "lin1"), ("lin1", "e"), ("lin1", "e", "lin2"), ("lin1", "lin2", "e"), ("e", "lin1", "e"), ("lin2", "e", "e", "lin1")])
                rows_ = {"e": e, "lin1": lin1, "lin2": lin2}
                jstack = AD.compile_jacobian([rows_[k] for k in layout], V)
            except Exception as ex:
                rep.violation({"kind": "exception", "obligation": "derivative callables can be built", "expr": te[:2000], "error": repr(ex)[:300]},
                              concrete=True)
                continue
        for nm in (gf.__name__, jf.__name__, hf.__name__):
            paths[nm] = paths.get(nm, 0) + 1
        for trial in range(6):
            huge = trial == 3
            pool = HUGE if huge else SING
            pt = {nm: r.choice(pool) for nm in names}
            if trial >= 4:
                pt = {nm: (0.0 if trial == 4 else 1.0) for nm in names}        # the whole point at the origin / at ones: reductions vanish there
            x = np.array([pt[nm] for nm in names], dtype=float)
            with np.errstate(all="ignore"), warnings.catch_warnings():
                warnings.simplefilter("ignore")
                try:
                    G = np.asarray(gf(x), dtype=float).reshape(-1)
                    J = np.asarray(jf(x), dtype=float).reshape(-1)
                    H = np.asarray(hf(x), dtype=float)
                    G0 = np.asarray(gf0(x), dtype=float).reshape(-1)
                    H0 = np.asarray(hf0(x), dtype=float)
                except Exception as ex:
                    rep.violation({"kind": "exception", "obligation": "derivative callables are total at finite points", "expr": te[:2000],
                                   "point": pt, "error": repr(ex)[:300]}, concrete=True)
                    continue
                try:
                    JS = np.asarray(jstack(x), dtype=float)
                except Exception as ex:
                    rep.violation({"kind": "exception", "obligation": "derivative callables are total at finite points", "expr": te[:2000],
                                   "point": pt, "error": repr(ex)[:300]}, concrete=True)
                    continue
            stacked += 1
            if trial == 0:
                # call history: the Jacobian handed out for a regular point is still that matrix after the same callable has been
                # evaluated ON the singular set (the sanitiser may hand its argument back unchanged: it must not be a shared buffer)
                reg = np.array([0.75 + 0.25 * k_ for k_ in range(len(names))])
                for nm_f, f_, mk_ in (("compile_jacobian", jf, lambda: AD.compile_jacobian([e], V)), ("stacked Jacobian", jstack, None),
                                      ("compile_gradient", gf, lambda: C.compile_gradient(e, V)), ("compile_hessian", hf, lambda: AD.compile_hessian(e, V))):
                    try:
                        f_ref = mk_() if mk_ is not None else f_
                        bad_ = common.alias_probe(f_, reg, x, (lambda a_, f_ref=f_ref: f_ref(a_)), rtol=0.0) if mk_ is not None else None
                        if mk_ is None:
                            first = f_(reg.copy()); kept = np.array(first, dtype=float, copy=True); f_(x.copy())
                            bad_ = None if np.array_equal(np.asarray(first, dtype=float), kept, equal_nan=True) else {
                                "what": "a result handed out earlier changed when the callable was called again (shared output buffer)",
                                "first_result_then": kept.tolist(), "first_result_now": np.asarray(first, dtype=float).tolist()}
                        if bad_:
                            rep.violation({"kind": "history", "obligation": "a derivative array handed out earlier is not overwritten by a later call",
                                           "witness": dict(bad_, expr=repr(e)[:300], V=names, callable=nm_f)}, concrete=True)
                    except Exception:
                        pass
            for k_, nm_ in enumerate(layout):
                if nm_ != "e":
                    continue
                row = JS[k_]
                bad_row = (not np.all(np.isfinite(row))) or any(
                    (u != w) if (abs(u) in (0.0, LARGE) or abs(w) in (0.0, LARGE)) else abs(u - w) > 1e-9 * max(1.0, abs(u), abs(w))
                    for u, w in zip(row, J) if np.isfinite(u) and np.isfinite(w))
                if bad_row:
                    nonfinite += 1
                    rep.violation({"kind": "nonfinite", "obligation": "a row of a stacked Jacobian is the (sanitised) single-row Jacobian of that expression",
                                   "witness": {"expr": repr(e)[:300], "V": names, "point": pt, "stack_layout": list(layout), "row_index": k_,
                                               "row_in_stack": row.tolist(), "single_row": J.tolist(), "path": jstack.__name__}}, concrete=True)
                    break
            with np.errstate(all="ignore"):
                pass
            for what, arr in (("compile_gradient", G), ("compile_jacobian", J), ("compile_hessian", H)):
                entries += arr.size
                if not np.all(np.isfinite(arr)):
                    nonfinite += 1
                    rep.violation({"kind": "nonfinite", "obligation": "every entry of a derivative callable is finite at a finite point",
                                   "witness": {"callable": what, "path": {"compile_gradient": gf.__name__, "compile_jacobian": jf.__name__,
                                                                          "compile_hessian": hf.__name__}[what],
                                               "expr": repr(e)[:300], "V": names, "point": pt, "output": arr.tolist()}}, concrete=True)
                for v_ in arr.reshape(-1):
                    if v_ == 0.0:
                        special["0"] += 1
                    elif v_ == LARGE:
                        special["+1e16"] += 1
                    elif v_ == -LARGE:
                        special["-1e16"] += 1
            # vectorised vs general path
            for what, a_, b_ in (("gradient", G, G0), ("hessian", H.reshape(-1), H0.reshape(-1))):
                for p_, (u, w) in enumerate(zip(a_, b_)):
                    is_special = abs(u) in (0.0, LARGE) or abs(w) in (0.0, LARGE)
                    same = (u == w) if is_special else abs(u - w) <= 1e-9 * max(1.0, abs(u), abs(w))
                    if not same and np.isfinite(u) and np.isfinite(w):
                        path_diffs += 1
                        rep.violation({"kind": "paths", "obligation": "vectorised and general paths return the same array (special entries identical)",
                                       "witness": {"which": what, "expr": repr(e)[:300], "V": names, "point": pt, "entry": p_,
                                                   "vectorised": float(u), "general": float(w),
                                                   "paths": [gf.__name__, gf0.__name__, hf.__name__, hf0.__name__]}}, concrete=True)
            if huge:
                continue
            # regular entries unchanged: inside the enclosure of the model derivative (verdict 2 = singular entry, accepted)
            for j, nm in enumerate(names):
                if np.isfinite(G[j]) and np.isfinite(J[j]):
                    nums.append(f"({te}, (Some {ser.s(nm)}, None), {common.pts_term(pt)}, [], [{ser.q(float(G[j]))}; {ser.q(float(J[j]))}])")
                    nmeta.append({"what": f"grad[{nm}]", "expr": repr(e)[:300], "point": pt, "value": float(G[j]), "path": gf.__name__})
            if len(names) <= 3:
                for a_ in range(len(names)):
                    for b_ in range(len(names)):
                        if np.isfinite(H[a_, b_]):
                            nums.append(f"({te}, (Some {ser.s(names[a_])}, Some {ser.s(names[b_])}), {common.pts_term(pt)}, [], [{ser.q(float(H[a_, b_]))}])")
                            nmeta.append({"what": f"hess[{names[a_]},{names[b_]}]", "expr": repr(e)[:300], "point": pt,
                                          "value": float(H[a_, b_]), "path": hf.__name__})
    import coqrun
    scases, smeta = sanitiser_cases(rng, 400 if rep.tier == "quick" else 20000)
    sfails = coqrun.run_cases("Sanitize", SAN_DEFS, SAN_TYPE, scases, SAN_CHECKER)
    for i in sfails[:20]:
        rep.violation({"kind": "correspondence", "obligation": "_sanitize_derivatives = Sanitize.sanitize (NaN -> 0, +-Inf -> +-1e16, finite entries unchanged)",
                       "witness": smeta[i]}, concrete=True)
    for m_ in smeta:
        if not m_["shape_kept"]:
            rep.violation({"kind": "correspondence", "obligation": "the sanitiser keeps the array's shape", "witness": m_}, concrete=True)
            break
    nfails, nund = common.run_classify(IMPORTS, "", NUM_TYPE, nums, NUM_CHECKER) if nums else ([], [])
    for i in nfails:
        m = nmeta[i]
        # a bounded enclosure that excludes the observed value: either a wrong regular entry or a sanitised value where the
        # derivative is in fact finite
        rep.violation({"kind": "numeric", "obligation": "regular entries are unchanged (inside the enclosure of the model derivative)",
                       "case": nums[i][:3000], "witness": m}, concrete=True)
    cov = rep.coverage
    cov["evaluations"] = entries
    cov["distinct_nontrivial"] = len(set(nums))
    cov["rule"] = ("expressions with singular derivatives (abs, sqrt, log, tan, inverse functions at the ends of their domains, negative and "
                   "fractional powers, norms at the origin, exp at large arguments), V in natural / permuted / superset order, 3 points on "
                   "singular sets + 1 large finite point each; every entry of gradient, Jacobian and Hessian checked for finiteness, "
                   "regular entries by interval enclosure, vectorised vs general path entry by entry")
    cov["samples"] = [x_[:300] for x_ in nums[:3]]
    cov["sanitiser_arrays"] = len(scases)
    cov["sanitiser_disagreements"] = len(sfails)
    cov["stacked_jacobians_checked"] = stacked
    cov["entries_checked"] = entries
    cov["nonfinite_outputs"] = nonfinite
    cov["special_value_counts"] = special
    cov["enclosure_checks"] = len(nums)
    cov["enclosure_singular_or_undecided"] = len(nund)
    cov["path_disagreements"] = path_diffs
    cov["path_histogram"] = dict(sorted(paths.items()))
    cov["correspondence_failures"] = len(nfails) + nonfinite + path_diffs + len(sfails)
    cov["traces_validated_against_impl"] = entries
    rep.assumptions += ["NumPy's sin, cos, tanh, sign map finite inputs to values bounded by 1 (contract behind bounded_body)",
                        "entries whose true value is finite but beyond the binary64 range are outside the enclosure check (large points only check finiteness and path agreement)"]


def replay(rep, path):
    import json
    print(json.dumps(json.load(open(path)), indent=1)[:6000])
    return 0
