"""C03 - solver-facing gradients and Jacobians are correct in the declared variable order.

Proof: Props/C03.v (each compile_jacobian path, each jacobian_row shortcut and the
       generated vectorised closures denote the value of the model gradient,
       which C02 proves is the partial derivative; any V permutation/superset).
Tie:   (S) compute_jacobian's row TREES and the path chosen by compile_jacobian /
       compile_gradient (the returned callable's __name__) must equal the model's;
       (I) every entry of the returned arrays must lie in the interval enclosure
       of the model gradient's real denotation; (T) closure tables regenerated.
Search: central differences of the implementation's evaluate()."""
from __future__ import annotations

import random
import numpy as np

import verifkit as vk
import gen
import ser
from checks import common
from checks.common import Cases

LEVEL = "proof"
IMPORTS = "Autodiff Compile ArrTerm Jacobian Gen.GenTables"
DEFS = """
Definition jname (p : jpath) : string :=
  match p with
  | JPower _ _ _ => "power_jacobian_fn" | JUnary _ _ _ => "unary_jacobian_fn"
  | JConst _ => "constant_jacobian_fn" | JScaled _ => "scaled_variable_jacobian_fn"
  | JGeneral _ => "jacobian_fn" | JError => "<error>" end.
Definition gname (p : jpath) : string :=
  match p with
  | JPower full _ k => match pick_power gen_power_grad (negb full) k with Some ce => c_name ce | None => "<none>" end
  | JUnary full _ o => match pick_unary gen_unary_grad (negb full) o with Some ce => c_name ce | None => "<none>" end
  | JGeneral _ => "symbolic_gradient" | _ => "<error>" end.
Definition rows_eqb (a b : list (list expr)) : bool := list_eqb (list_eqb expr_eqb) a b.
"""
TREE_CHECKER = ("fun c => match c with (es, V, rows, jn, gn) => "
                "rows_eqb (compute_jacobian ln2c ln10c es V) rows "
                "&& String.eqb (jname (compile_jacobian ln2c ln10c es V)) jn "
                "&& match es with [e] => String.eqb (gname (compile_gradient ln2c ln10c e V)) gn | _ => true end end")
NUM_CHECKER = ("fun c => match c with (e, v, pts, ppts, obs) => "
               "worst (map (num_check (grad ln2c ln10c v e) pts ppts) obs) end")
NUM_TYPE = "expr * string * list (string * Q) * list (string * Q) * list Q"


def special_exprs(g: gen.Gen):
    """Expression lists shaped to hit each compile_jacobian path."""
    r = g.rng
    x = g.view()
    k = r.randrange(10)
    if k == 0:
        return [(x ** r.choice([1, 2, 3, 0.5, -1, 1.5, 4, 0])).sum()]
    if k == 1:
        return [gen.FN[r.choice(gen.UNARY_VEC + ["abs"])](x).sum()]
    if k == 2:
        return [g.coeffs(x.size) @ x + r.choice([0, 1, -2]), x.sum() * 2, g.leaf() * 3 - 1][: r.randint(1, 3)]
    if k == 3:
        return [x.dot(x)] if r.random() < 0.6 else [2 * x.dot(x)]
    if k == 4:
        X = g.pool.vectors[0]
        if X.size >= 2:
            return [X[0:X.size - 1].dot(X[1:X.size])]
        return [X.dot(X)]
    if k == 5:
        Q = g.matrix(x.size)
        return [x.dot(Q @ x), x.sum()]
    if k == 6 and g.pool.matrices:
        m = r.choice(g.pool.matrices)
        return [m.sum(), (m * 2).sum()]
    if k == 7:
        return [3 * (x ** 2).sum() + 1, (x ** 2).sum() - 2, 2 * x.sum() * 1]
    return [g.expr(3) for _ in range(r.randint(1, 3))]


def run(rep: vk.Report):
    vk.proof_stage(rep, "C03", extra_trusted=["Interval library enclosure (SemI.evalI_correct) for the numeric channel"])
    n = 150 if rep.tier == "quick" else 8000
    rng = common.rng_for(rep.seed, "C03")
    import optyx.core.autodiff as AD
    import optyx.core.compiler as C
    from optyx import Variable
    trees = Cases("jac-tree", IMPORTS, "list expr * list string * list (list expr) * string * string", TREE_CHECKER, defs=DEFS)
    nums, num_meta, keep = [], [], []
    paths = {}
    unsupported = 0
    errors = {}
    fixed = common.vectorised_worklist()
    param_updates = 0
    def sources():
        for f in fixed:
            yield None, [f[0]], list(f[1])
        # (row trees are compared EXACTLY: contexts whose constants do not multiply exactly in binary64 are left to C02)
        for g, e in common.corpus(rng, rep.tier, 0, errors=errors, exclude=["tiny", "huge", "f-1(", "f+tiny"]):
            yield g, [e], None
        for i in range(n):
            g = gen.Gen(random.Random(rng.random()), profile=rng.choice(["poly", "smooth", "smooth", "all"]))
            try:
                es = special_exprs(g) if rng.random() < 0.6 else [g.expr(rng.choice([2, 3])) for _ in range(rng.randint(1, 3))]
            except Exception as ex:
                errors["gen:" + type(ex).__name__] = errors.get("gen:" + type(ex).__name__, 0) + 1
                continue
            yield g, es, None

    for g, es, V in sources():
        if V is None:
            allv = {}
            for e in es:
                for v in e.get_variables():
                    allv[v.name] = v
            vs = list(allv.values())
            mode = rng.random()
            if mode < 0.45:
                # natural problem order for vector elements so that the full fast paths can fire
                V = sorted(vs, key=lambda v: common.natkey(v.name))
            else:
                V = common.orders(vs, [Variable(f"extra{j}") for j in range(rng.randint(0, 2))], rng)
        if not V:
            continue
        S = ser.Ser()
        try:
            tes = [S.expr(e) for e in es]
            rows = AD.compute_jacobian(es, V)
            trows = [[S.expr(r) for r in row] for row in rows]
            jf = AD.compile_jacobian(es, V)
            gf = C.compile_gradient(es[0], V) if len(es) == 1 else None
        except ser.Unsupported:
            unsupported += 1
            continue
        except Exception as ex:
            errors[type(ex).__name__] = errors.get(type(ex).__name__, 0) + 1
            rep.violation({"kind": "exception", "obligation": "compute/compile_jacobian total on API-built expressions",
                           "exprs": [repr(e)[:300] for e in es], "V": [v.name for v in V], "error": repr(ex)[:500]}, concrete=True)
            continue
        jn = jf.__name__
        gn = gf.__name__ if gf is not None else ""
        paths[jn] = paths.get(jn, 0) + 1
        if gn:
            paths["grad:" + gn] = paths.get("grad:" + gn, 0) + 1
        trees.add(f"({ser.lst(tes)}, {ser.lst(ser.s(v.name) for v in V)}, {ser.lst(ser.lst(r) for r in trows)}, {ser.s(jn)}, {ser.s(gn)})",
                  {"V": [v.name for v in V], "jac_path": jn, "grad_path": gn})
        keep.append((es, V))
        # numeric: entries of the arrays at a regular-looking point
        params = {}
        for e in es:
            common.params_of(e, params)
        for rnd in ([0, 1, 2, 3] if params else [0, 1, 3]):
            if rnd == 2:
                # Parameters re-set AFTER the Jacobian / gradient callables were compiled
                for nme, pp in params.items():
                    if np.ndim(pp.value) == 0:
                        pp.set(float(rng.choice([-1.5, 0.25, 2.0, 3.5, 0.0, 1.0])) + 0.0625 * rng.randrange(8))
                        param_updates += 1
            ppts = {nme: float(p.value) for nme, p in params.items() if np.ndim(p.value) == 0}
            pt = common.pick_point(rng, [v.name for v in V])
            if rnd == 3:
                # a badly scaled but perfectly regular point: entries beyond 1e16 are ordinary derivative values there.  Only for
                # polynomials of small degree (anything else overflows, or makes the interval arithmetic explode)
                degs = [e.degree for e in es]
                if any(d_ is None or d_ > 5 for d_ in degs) or max(degs) < 3:
                    continue
                pt = {v.name: float(rng.choice([1.0e5, 3.0e5, 1.0e6, -2.0e5, 2.5e6])) for v in V}
            x = np.array([pt[v.name] for v in V], dtype=float)
            with np.errstate(all="ignore"):
                try:
                    J = np.asarray(jf(x), dtype=float)
                    G = np.asarray(gf(x), dtype=float).reshape(-1) if gf is not None else None
                    base_ok = all(common.fval(e.evaluate(pt)) is not None for e in es)
                except Exception as ex:
                    errors["call:" + type(ex).__name__] = errors.get("call:" + type(ex).__name__, 0) + 1
                    continue
            if not base_ok or J.shape != (len(es), len(V)):
                if base_ok:
                    rep.violation({"kind": "shape", "obligation": "Jacobian has shape (m, n)", "shape": list(J.shape),
                                   "exprs": tes, "V": [v.name for v in V]}, concrete=True)
                continue
            for a, e in enumerate(es):
                for b, v in enumerate(V):
                    obs = [float(J[a, b])]
                    if G is not None:
                        obs.append(float(G[b]))
                    if not all(np.isfinite(obs)):
                        continue
                    nums.append(f"({tes[a]}, {ser.s(v.name)}, {common.pts_term(pt)}, {common.pts_term(ppts)}, {ser.lst(ser.q(o) for o in obs)})")
                    num_meta.append({"i": a, "j": b, "wrt": v.name, "point": pt, "obs": obs, "case": len(keep) - 1,
                                     "jac_path": jn, "grad_path": gn, "V": [t.name for t in V],
                                     "after_parameter_update": dict(ppts) if rnd == 2 else None})
    tree_fails = trees.run()
    # ---- derivatives of formulas AS WRITTEN (independent NumPy function, finite differences), the same object under two orders
    wd_checked, wd_bad = common.written_derivatives(rep, rng, 2 if rep.tier == "quick" else 40, "jac", "C03")
    num_fails, num_und = common.run_classify(IMPORTS + " SemI HarnessI", DEFS, NUM_TYPE, nums, NUM_CHECKER) if nums else ([], [])

    from checks.c02 import central_difference_witness
    for i in tree_fails:
        es, V = keep[i]
        model = trees.model_answer(i, lambda t: "match " + t + " with (es, V, _, _, _) => "
                                   "(compute_jacobian ln2c ln10c es V, jname (compile_jacobian ln2c ln10c es V)) end")
        wit = None
        for e in es:
            for v in V:
                row = AD.compute_jacobian([e], [v])[0][0]
                wit = central_difference_witness(e, v, row, rng)
                if wit:
                    break
            if wit:
                break
        rep.violation({"kind": "correspondence", "obligation": "compute_jacobian rows / compile path = model (Jacobian.v)",
                       "case": trees.terms[i][:6000], "meta": trees.meta[i], "model": model, "witness": wit}, concrete=wit is not None)
    excused = 0
    for i in num_fails:
        m = num_meta[i]
        if common.sanitised_overflow(IMPORTS + " SemI HarnessI", DEFS, nums[i], "match c with (e, v, pts, ppts, _) => enclosure (grad ln2c ln10c v e) pts ppts end", m["obs"]):
            excused += 1          # the true derivative exceeds binary64: +-1e16 is the documented answer there
            continue
        es, V = keep[m["case"]]
        rep.violation({"kind": "numeric", "obligation": "Jacobian/gradient entry within the enclosure of the proved derivative",
                       "case": nums[i][:5000], "meta": m,
                       "witness": {"exprs": [repr(e)[:300] for e in es], "V": [v.name for v in V], "point": m["point"],
                                   "entry": [m["i"], m["j"]], "observed": m["obs"]}}, concrete=True)

    cov = rep.coverage
    cov["derivatives_of_formulas_as_written_vs_finite_differences"] = wd_checked
    cov["derivatives_of_formulas_as_written_disagreements"] = wd_bad
    cov["entries_whose_true_value_exceeds_binary64"] = excused
    cov["evaluations"] = len(trees.terms) + len(nums)
    cov["distinct_nontrivial"] = trees.nontrivial
    cov["rule"] = ("lists of 1-3 API-built expressions shaped to hit every compile_jacobian path, V = natural order / permuted / "
                   "superset; row trees and path names compared exactly, every array entry at 2 dyadic points checked by interval "
                   "enclosure; distinct = distinct serialised case, non-trivial = >= 2 node kinds")
    cov["samples"] = [t[:500] for t in trees.terms[:3]] + [x[:300] for x in nums[:2]]
    cov["path_histogram"] = dict(sorted(paths.items()))
    cov["tree_cases"] = len(trees.terms)
    cov["numeric_entries"] = len(nums)
    cov["numeric_undecided_near_singularity"] = len(num_und)
    cov["unsupported_by_serialiser"] = unsupported
    cov["exceptions"] = errors
    cov["correspondence_failures"] = len(tree_fails) + len(num_fails)
    cov["traces_validated_against_impl"] = len(trees.terms) + len(nums) - len(num_und)
    rep.assumptions += ["binary64 primitives within one outward rounding at 40 bits (numeric channel)",
                        "identity of Variable objects is modelled by name (scaled-pattern test uses `is`)"]


def replay(rep, path):
    import json
    print(json.dumps(json.load(open(path)), indent=1)[:6000])
    return 0
