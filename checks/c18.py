"""C18 - integrality is never relaxed silently.

Proof: Props/C18.v (with strict the oracle is never reached; when the request can be
       served the error is IntegerVariableError naming exactly the non-continuous
       variables in problem order; without strict a warning names exactly those and
       the oracle call equals the relaxed problem's; binary declarations carry [0,1];
       the gate precedes the solver call in the generated source order).
Tie:   exhaustive product: 12 declaration routes x {integer, binary} x 13 methods x
       {strict, not} x {linear, non-linear model} against the real wrappers with
       stubbed seams: exception class and names, warning names, stub call count,
       bounds/domain of every element must equal the model's solve_front."""
from __future__ import annotations

import itertools
import re
import warnings
import numpy as np

import verifkit as vk
import ser
import stubs
from checks import common
from checks.common import Cases

LEVEL = "proof"
IMPORTS = "Vars SolveWrap Gen.GenTables"
DEFS = """
Definition dom_of (s : string) : domain :=
  if String.eqb s "integer" then Integer else if String.eqb s "binary" then Binary else Continuous.
Fixpoint store_of (d : list (string * string)) : store :=
  match d with
  | [] => fun _ => {| lb := None; ub := None; vdom := Continuous |}
  | (k, dm) :: r => fun v => if String.eqb k v then {| lb := None; ub := None; vdom := dom_of dm |} else store_of r v
  end.
Inductive pyres := PyNoObjective | PyNonLinear | PyNoVariables | PyInteger (ns : list string) | PyRan (ws : list string) (lp : bool).
Definition res_match (r : solve_result) (p : pyres) : bool :=
  match r, p with
  | SNoObjective, PyNoObjective | SNonLinear, PyNonLinear | SNoVariables, PyNoVariables => true
  | SInteger a, PyInteger b => list_eqb String.eqb a b
  | SRan ws (RouteLP _), PyRan ws' true => list_eqb String.eqb ws ws'
  | SRan ws (RouteScipy _), PyRan ws' false => list_eqb String.eqb ws ws'
  | _, _ => false
  end.
"""
CHECKER = ("fun k => match k with (is_lp, auto_nlp, doms, V, m, strict, seen) => "
           "res_match (solve_front true is_lp auto_nlp (store_of doms) V m strict) seen "
           "&& (if strict then negb (match seen with PyRan _ _ => true | _ => false end) "
           "|| match non_continuous (store_of doms) V with [] => true | _ => false end else true) end")
CASE_TYPE = "bool * string * list (string * string) * list string * string * bool * pyres"
METHODS = ["auto", "linprog", "highs", "highs-ds", "highs-ipm", "SLSQP", "trust-constr", "L-BFGS-B", "BFGS",
           "Nelder-Mead", "COBYLA", "TNC", "Powell"]


BOUNDS = [(-3, 7), (-2.5, 6.5), (2, 2), (None, 4.5)]      # integral, fractional, pinned, one-sided


def routes(dom, bnd=(-3, 7)):
    """name -> (list of Variable objects of the declared container, a vector-like handle to build a model from)"""
    from optyx import Variable, VectorVariable, MatrixVariable
    from optyx.core.matrices import diag_matrix, diag
    out = {}
    lb_, ub_ = bnd
    z = Variable("z", lb=lb_, ub=ub_, domain=dom)
    out["scalar"] = ([z], None, z)
    x = VectorVariable("x", 3, lb=lb_, ub=ub_, domain=dom)
    out["vector"] = (list(x), x, None)
    out["slice"] = (list(x[1:3]), x[1:3], None)
    out["reversed_slice"] = (list(x[::-1]), x[::-1], None)
    M = MatrixVariable("M", 2, 3, lb=lb_, ub=ub_, domain=dom)
    out["matrix_row"] = (list(M[1, :]), M[1, :], None)
    out["matrix_col"] = (list(M[:, 2]), M[:, 2], None)
    out["transpose_row"] = (list(M.T[0, :]), M.T[0, :], None)
    out["submatrix_row"] = (list(M[0:2, 1:3][1, :]), M[0:2, 1:3][1, :], None)
    S = MatrixVariable("S", 3, 3, lb=lb_, ub=ub_, domain=dom, symmetric=True)
    out["symmetric_col"] = (list(S[:, 0]), S[:, 0], None)
    out["diagonal"] = (list(S.diagonal()), S.diagonal(), None)
    out["diag_fn"] = (list(diag(S)), diag(S), None)
    D = diag_matrix(x)
    out["diag_matrix_row"] = (list(D[1, :]), D[1, :], None)
    return out


def run(rep: vk.Report):
    vk.proof_stage(rep, "C18")
    from optyx import Problem, Variable, VectorVariable
    from optyx.core.errors import IntegerVariableError, NonLinearError, NoObjectiveError
    from optyx.solution import SolverStatus
    cases = Cases("gate", IMPORTS, CASE_TYPE, CHECKER, defs=DEFS)
    binary_bad = []
    relaxed_diffs = 0
    relaxed_cmp = 0
    ok = lambda call: stubs.mres(x=np.ones(len(call["x0"])), fun=1.0)
    seam_bad = []

    def observe(P, m, strict, where):
        """One solve under stubs: what the caller sees (exception with names / warning with names / solver reached)."""
        with stubs.Seams(minimize_script=[ok, ok]) as S, warnings.catch_warnings(record=True) as wlog:
            warnings.simplefilter("always")
            try:
                P.solve(method=m, strict=strict)
                names = []
                for w in wlog:
                    mm = re.search(r"Variables \[(.*?)\] have integer/binary domains", str(w.message))
                    if mm:
                        names = [s_.strip() for s_ in mm.group(1).split(", ")] if mm.group(1) else []
                ncalls = len(S.minimize_calls) + len(S.linprog_calls)
                if ncalls == 0:
                    return "PyNoVariables"
                # the relaxation that reaches the solver keeps the DECLARED box of every variable ([0,1] for binaries)
                call = (S.linprog_calls or S.minimize_calls)[0]
                if call.get("bounds") is not None:
                    fin = lambda t: None if t is None or not np.isfinite(t) else float(t)
                    got = [(fin(b[0]), fin(b[1])) for b in call["bounds"]]
                    want = [(fin(v.lb), fin(v.ub)) for v in P.variables]
                    if got != want and len(seam_bad) < 10:
                        seam_bad.append(1)
                        rep.violation({"kind": "relaxation", "obligation": "the relaxed problem handed to the solver has the declared bounds",
                                       "witness": {"where": where, "method": m, "strict": strict, "variables": [v.name for v in P.variables],
                                                   "domains": [v.domain for v in P.variables], "declared": want, "handed_over": got}}, concrete=True)
                return f"(PyRan {ser.lst(ser.s(n) for n in names)} {'true' if S.linprog_calls else 'false'})"
            except IntegerVariableError as ex:
                ncalls = len(S.minimize_calls) + len(S.linprog_calls)
                if ncalls:
                    rep.violation({"kind": "order", "obligation": "strict raises before any solver runs", "where": where,
                                   "method": m, "calls": ncalls}, concrete=True)
                return f"(PyInteger {ser.lst(ser.s(n) for n in (ex.variable_names or []))})"
            except NonLinearError:
                return "PyNonLinear"
            except NoObjectiveError:
                return "PyNoObjective"

    def build(dom, rname, linear, bnd=(-3, 7), alone=False):
        elems, vec, scal = routes(dom, bnd)[rname]
        if alone and vec is not None:
            # the whole problem lives on this one view: objective and constraint are reductions over it, nothing else is mentioned
            body = vec.sum() if linear else (vec ** 2).sum()
            P = Problem().minimize(body)
            P.subject_to(vec.sum() >= -2)
            return P, elems
        c = Variable("c_cont", lb=0, ub=5)
        if scal is not None:
            body = scal * 2 + c if linear else scal ** 2 + c
        else:
            body = vec.sum() + c if linear else (vec ** 2).sum() + c
        P = Problem().minimize(body)
        P.subject_to(c >= 1)
        return P, elems

    def add_case(P, m, strict, seen, meta, kinds):
        V = [v.name for v in P.variables]
        doms = {v.name: v.domain for v in P.variables}
        is_lp = P._is_linear_problem()
        auto_nlp = P._auto_select_method()
        term = (f"({'true' if is_lp else 'false'}, {ser.s(auto_nlp)}, {ser.lst('(' + ser.s(k) + ', ' + ser.s(d) + ')' for k, d in doms.items())}, "
                f"{ser.lst(ser.s(n) for n in V)}, {ser.s(m)}, {'true' if strict else 'false'}, {seen})")
        D = [v.name for v in P.variables if v.domain != "continuous"]
        cases.add(term, dict(meta, seen=seen, non_continuous_variables=D), kinds=kinds)

    for bnd, dom, rname, linear, m, strict in itertools.product(BOUNDS, ["integer", "binary"], list(routes("integer")),
                                                                [True, False], METHODS, [True, False]):
        if bnd != BOUNDS[0] and (m not in ("auto", "linprog", "highs-ds", "SLSQP", "L-BFGS-B") or rname not in ("scalar", "vector", "matrix_col", "diagonal")):
            continue                       # the full route x method product is run for the first declaration only
        P, elems = build(dom, rname, linear, bnd)
        for v in elems:
            if v.domain == "binary" and (v.lb, v.ub) != (0.0, 1.0):
                binary_bad.append((rname, v.name, v.lb, v.ub))
        seen = observe(P, m, strict, rname)
        add_case(P, m, strict, seen, {"domain": dom, "route": rname, "linear": linear, "method": m, "strict": strict, "history": [],
                                      "declared_bounds": list(bnd)},
                 {dom, rname, str(linear), m, str(strict), str(bnd)})
    # problems that consist of ONE view of an integer / binary vector or matrix and nothing else (strided and reversed views included)
    extra_routes = {"strided_slice": lambda dom: VectorVariable("x", 5, lb=-3, ub=7, domain=dom)[::2],
                    "odd_slice": lambda dom: VectorVariable("x", 5, lb=-3, ub=7, domain=dom)[1::2],
                    "reversed": lambda dom: VectorVariable("x", 4, lb=-3, ub=7, domain=dom)[::-1]}
    for dom, rname, linear, m, strict in itertools.product(["integer", "binary"], ["vector", "slice", "reversed_slice", "matrix_row", "matrix_col",
                                                                                   "diagonal", "strided_slice", "odd_slice", "reversed"],
                                                           [True, False], ["auto", "linprog", "highs", "SLSQP", "L-BFGS-B"], [True, False]):
        if rname in extra_routes:
            vec = extra_routes[rname](dom)
            P = Problem().minimize(vec.sum() if linear else (vec ** 2).sum())
            P.subject_to(vec.sum() >= -2)
        else:
            P, _ = build(dom, rname, linear, alone=True)
        seen = observe(P, m, strict, rname + " (alone)")
        add_case(P, m, strict, seen, {"domain": dom, "route": rname + " (the whole problem)", "linear": linear, "method": m, "strict": strict,
                                      "history": []}, {dom, rname, "alone", str(linear), m, str(strict)})
    # strict / the warning are per CALL, not per problem: the same Problem solved repeatedly with changing flags and methods;
    # every solve of the history is compared with the model's answer for that call alone
    hist_routes = ["scalar", "vector", "reversed_slice", "matrix_col", "symmetric_col"]
    flag_seqs = [(False, True), (False, False, True), (True, False), (False, True, False)]
    meth_seqs = [("auto",), ("linprog",), ("highs-ds", "auto"), ("SLSQP",), ("auto", "SLSQP"), ("trust-constr", "linprog")]
    n_hist = 0
    for dom, rname, linear, flags, meths in itertools.product(["integer", "binary"], hist_routes, [True, False], flag_seqs, meth_seqs):
        P, elems = build(dom, rname, linear)
        hist = []
        for k, strict in enumerate(flags):
            m = meths[k % len(meths)]
            seen = observe(P, m, strict, rname)
            hist.append([m, strict])
            if k > 0:
                n_hist += 1
                add_case(P, m, strict, seen, {"domain": dom, "route": rname, "linear": linear, "method": m, "strict": strict,
                                              "history": list(hist)}, {dom, rname, str(linear), m, str(strict), "history"})
    fails = cases.run(shard=400)
    for i in fails[:30]:
        meta = cases.meta[i]
        model = cases.model_answer(i, lambda t: "match " + t + " with (is_lp, a, doms, V, m, strict, _) => "
                                   "solve_front true is_lp a (store_of doms) V m strict end")
        # independent of the model: with D the non-continuous variables of the problem (read off the declarations),
        # a solver run under strict, or an error / warning naming anything but exactly D, is a failing input in itself
        D = meta.get("non_continuous_variables", [])
        named = re.findall(r'"([^"]*)"', meta["seen"].split(")")[0]) if meta["seen"].startswith(("(PyInteger", "(PyRan")) else None
        concrete = bool(D) and ((meta["strict"] and meta["seen"].startswith("(PyRan"))
                                or (named is not None and named != D))
        rep.violation({"kind": "correspondence", "obligation": "solve front (validation, gate) = model solve_front", "meta": meta,
                       "model": model, "witness": meta if concrete else None}, concrete=concrete)
    for b in binary_bad[:10]:
        rep.violation({"kind": "bounds", "obligation": "binary variables carry [0,1]", "route": b[0], "variable": b[1],
                       "bounds": [b[2], b[3]]}, concrete=True)
    # non-strict result equals the relaxed problem's (real solvers)
    from optyx import VectorVariable
    for dom in ["integer", "binary"]:
        for m in ["auto", "SLSQP", "linprog"] if rep.tier == "quick" else METHODS:
            for linear in [True, False]:
                if m in ("linprog", "highs", "highs-ds", "highs-ipm") and not linear:
                    continue
                x = VectorVariable("q", 3, lb=0.4, ub=2.5, domain=dom)
                y = VectorVariable("q", 3, lb=x[0].lb, ub=x[0].ub)      # the relaxation: same names and bounds, continuous
                def build_rel(v):
                    obj = (v.sum() * -1 + 0) if linear else ((v - 0.4) ** 2).sum()
                    return Problem().minimize(obj).subject_to(v.sum() <= 2.5)
                with warnings.catch_warnings():
                    warnings.simplefilter("ignore")
                    a = build_rel(x).solve(method=m)
                    b = build_rel(y).solve(method=m)
                relaxed_cmp += 1
                same = a.status == b.status and all(abs(a.values[k] - b.values[k]) < 1e-7 for k in b.values)
                if not same:
                    relaxed_diffs += 1
                    rep.violation({"kind": "relaxation", "obligation": "non-strict solve = solve of the continuous relaxation",
                                   "domain": dom, "method": m, "got": [a.status.value, a.values], "relaxed": [b.status.value, b.values]},
                                  concrete=True)
    # the same with EVERY method on a box-only model whose unconstrained optimum lies outside the box (bound-blind methods end
    # outside it): values, objective value and status of the non-strict solve are those of the continuous twin
    from optyx import Variable as _Vc
    for dom in ["integer", "binary"]:
        for m in METHODS:
            for linear in ([True] if m in ("linprog", "highs", "highs-ds", "highs-ipm") else [False]):
                def twin(domain):
                    b_ = _Vc("b", lb=0.0, ub=1.0, domain=domain)
                    k_ = _Vc("k", lb=0.0, ub=1.0, domain=domain)
                    y_ = _Vc("yc", lb=-1.0, ub=1.0)
                    obj = (-2 * b_ + k_ - y_) if linear else (b_ - 1.8) ** 2 + (k_ + 0.7) ** 2 + (y_ - 0.5) ** 2 + 0.1 * b_ * y_
                    return Problem().minimize(obj)
                with warnings.catch_warnings():
                    warnings.simplefilter("ignore")
                    try:
                        a, b = twin(dom).solve(method=m), twin("continuous").solve(method=m)
                    except Exception:
                        continue
                relaxed_cmp += 1
                same = a.status == b.status and set(a.values) == set(b.values) and all(abs(a.values[k] - b.values[k]) < 1e-7 for k in b.values) and \
                    ((a.objective_value is None) == (b.objective_value is None)) and \
                    (a.objective_value is None or abs(a.objective_value - b.objective_value) < 1e-7 * (1 + abs(b.objective_value)))
                if not same:
                    relaxed_diffs += 1
                    rep.violation({"kind": "relaxation", "obligation": "non-strict solve = solve of the continuous relaxation (values, objective value, status), for every method",
                                   "domain": dom, "method": m, "got": [a.status.value, a.values, a.objective_value],
                                   "relaxed": [b.status.value, b.values, b.objective_value]}, concrete=True)
    # ---- copies of a model (copy.copy / copy.deepcopy / a pickle round trip, as a scenario tool or a worker pool makes them) keep
    # the declared domains: a strict solve of the copy raises for the same names, a non-strict one warns
    import copy as _copy, pickle as _pickle
    from optyx.core.errors import IntegerVariableError as _IVE
    copies = copies_bad = 0
    def strict_names(Pr, m):
        try:
            with warnings.catch_warnings():
                warnings.simplefilter("ignore")
                Pr.solve(method=m, strict=True)
            return "no error"
        except _IVE as ex:
            return sorted(set(getattr(ex, "variable_names", None) or []) or [str(ex)[:200]])
        except Exception as ex:
            return "other: " + type(ex).__name__
    for dom in ["integer", "binary"]:
        for rname in ["scalar", "vector", "matrix_row", "symmetric_col"]:
            for linear in [True, False]:
                P0, elems = build(dom, rname, linear)
                m = "auto" if linear else "SLSQP"
                want = strict_names(P0, m)
                for how, fn in (("copy.deepcopy", _copy.deepcopy), ("pickle round trip", lambda q: _pickle.loads(_pickle.dumps(q))), ("copy.copy", _copy.copy)):
                    try:
                        P1 = fn(P0)
                    except Exception:
                        continue                      # copying not supported for this object: nothing to compare
                    copies += 1
                    got = strict_names(P1, m)
                    doms0 = sorted((v.name, v.domain) for v in P0.variables)
                    doms1 = sorted((v.name, v.domain) for v in P1.variables)
                    if got != want or doms0 != doms1:
                        copies_bad += 1
                        rep.violation({"kind": "copy", "obligation": "a copy of a model keeps its integer / binary declarations (strict solve raises for the same names)",
                                       "witness": {"domain": dom, "route": rname, "linear": linear, "copied_with": how, "strict_solve_original": want,
                                                   "strict_solve_copy": got, "domains_original": doms0, "domains_copy": doms1}}, concrete=True)
    cov = rep.coverage
    cov["copies_of_models_checked"] = copies
    cov["evaluations"] = len(cases.terms) + relaxed_cmp
    cov["distinct_nontrivial"] = cases.nontrivial
    cov["exhaustive"] = True
    cov["rule"] = ("exhaustive product 2 domains x 12 declaration routes x {linear, non-linear} x 13 methods x {strict, not}: "
                   "every combination is one distinct case; plus histories on one Problem (2-3 solves with changing strict flag and method over "
                   "5 routes x 4 flag sequences x 6 method sequences), every later solve compared with the model's answer for that call; "
                   "plus non-strict vs relaxed comparisons with real solvers")
    cov["samples"] = [c[:400] for c in cases.terms[:3]]
    cov["history_cases"] = n_hist
    cov["binary_bounds_violations"] = len(binary_bad)
    cov["relaxation_comparisons"] = relaxed_cmp
    cov["correspondence_failures"] = len(fails)
    cov["traces_validated_against_impl"] = len(cases.terms)
    rep.assumptions += ["forcing an LP method on a non-linear model raises NonLinearError before the gate (still before any solver call)"]


def replay(rep, path):
    import json
    print(json.dumps(json.load(open(path)), indent=1)[:6000])
    return 0
