"""C17 - symbolic and compiled Hessians are the true symmetric second derivatives.

Proof: Props/C17.v (Hessian entry (i,j) = derivative w.r.t. V_j of the derivative w.r.t.
       V_i, from the gradient theorem applied to gradient trees; compiled matrix
       symmetric by construction with upper-triangle entries equal to the symbolic
       entries' values; diagonal shortcuts of the generated tables = second derivatives;
       maximise hands over the negated Hessian).
Tie:   (S) compute_hessian's entry TREES (the second pass differentiates the simplified
       output of the first) and compile_hessian's path (callable __name__) must equal
       the model's; (I) all n^2 entries of the compiled callable inside the enclosure
       of the model's second-derivative trees; H == H.T exactly."""
from __future__ import annotations

import random
import warnings
import numpy as np

import verifkit as vk
import gen
import ser
from checks import common
from checks.common import Cases

LEVEL = "proof"
IMPORTS = "Autodiff Compile ArrTerm Jacobian Gen.GenTables"
DEFS = """
Definition hname (p : hpath) : string :=
  match p with
  | HPower full _ k => match pick_power gen_power_hess (negb full) k with Some ce => c_name ce | None => "<none>" end
  | HUnary full _ o => match pick_unary gen_unary_hess (negb full) o with Some ce => c_name ce | None => "<none>" end
  | HGeneral _ => "hessian_fn" | HError => "<error>" end.
Definition rows_eqb (a b : list (list expr)) : bool := list_eqb (list_eqb expr_eqb) a b.
"""
TREE_CHECKER = ("fun c => match c with (e, V, rows, hn) => "
                "rows_eqb (compute_hessian ln2c ln10c e V) rows "
                "&& String.eqb (hname (compile_hessian ln2c ln10c gen_unary_hess e V)) hn end")
NUM_CHECKER = ("fun c => match c with (e, vi, vj, pts, ppts, obs) => "
               "worst (map (num_check (grad ln2c ln10c vj (grad ln2c ln10c vi e)) pts ppts) obs) end")
NUM_TYPE = "expr * string * string * list (string * Q) * list (string * Q) * list Q"


def twice_diff(g: gen.Gen, r):
    x = g.view()
    k = r.randrange(8)
    if k == 0:
        return (x ** r.choice([1, 2, 3, 4, 0.5, -1, 1.5])).sum()
    if k == 1:
        return gen.FN[r.choice(["sin", "cos", "exp", "log", "sqrt", "tanh", "sinh", "cosh", "tan"])](x).sum()
    if k == 2:
        return x.dot(x) + g.leaf() * x.sum()
    if k == 3:
        Q = g.matrix(x.size)
        return x.dot(Q @ x) + g.coeffs(x.size) @ x
    return g.expr(r.choice([2, 3]))


def run(rep: vk.Report):
    vk.proof_stage(rep, "C17", extra_trusted=["Interval library enclosure (SemI.evalI_correct) for the numeric channel"])
    rng = common.rng_for(rep.seed, "C17")
    import optyx.core.autodiff as AD
    import optyx.core.compiler as C
    from optyx import Variable
    from optyx.problem import _variable_order_key
    n = 220 if rep.tier == "quick" else 6000
    trees = Cases("hess-tree", IMPORTS, "expr * list string * list (list expr) * string", TREE_CHECKER, defs=DEFS)
    nums, nmeta = [], []
    paths = {}
    asym = 0
    errors = {}
    fixed = common.vectorised_worklist()
    for i in range(n + len(fixed)):
        r = random.Random(rng.random())
        g = gen.Gen(r, profile=r.choice(["poly", "smooth", "smooth"]), pool=gen.Pool(r, with_matrices=(r.random() < 0.3)))
        if i < len(fixed):
            e, V = fixed[i][0], list(fixed[i][1])
        else:
            try:
                e = twice_diff(g, r)
            except Exception:
                continue
            vs = sorted(e.get_variables(), key=_variable_order_key)
            if not vs or len(vs) > 4:
                continue
            V = list(vs)
            mode = r.random()
            if mode < 0.3:
                r.shuffle(V)
            elif mode < 0.5:
                V = V + [Variable("extra0")]
        S = ser.Ser()
        C._compile_cached.cache_clear()
        try:
            te = S.expr(e)
            H = AD.compute_hessian(e, V)
            th = [[S.expr(h) for h in row] for row in H]
            hf = AD.compile_hessian(e, V)
        except ser.Unsupported:
            continue
        except Exception as ex:
            errors[type(ex).__name__] = errors.get(type(ex).__name__, 0) + 1
            rep.violation({"kind": "exception", "obligation": "Hessian can be computed and compiled", "expr": repr(e)[:300], "error": repr(ex)[:300]},
                          concrete=True)
            continue
        paths[hf.__name__] = paths.get(hf.__name__, 0) + 1
        names = [v.name for v in V]
        trees.add(f"({te}, {ser.lst(ser.s(nm) for nm in names)}, {ser.lst(ser.lst(row) for row in th)}, {ser.s(hf.__name__)})",
                  {"V": names, "path": hf.__name__, "expr": repr(e)[:300]})
        params = common.params_of(e)
        ppts = {nm: p.value for nm, p in params.items()}
        for _ in range(2):
            pt = common.pick_point(r, names)
            x = np.array([pt[nm] for nm in names], dtype=float)
            with np.errstate(all="ignore"), warnings.catch_warnings():
                warnings.simplefilter("ignore")
                try:
                    M = np.asarray(hf(x), dtype=float)
                    ok = common.fval(e.evaluate(pt)) is not None
                except Exception as ex:
                    errors["call:" + type(ex).__name__] = errors.get("call:" + type(ex).__name__, 0) + 1
                    continue
            if not ok or M.shape != (len(names), len(names)) or not np.all(np.isfinite(M)):
                continue
            if not np.array_equal(M, M.T):
                asym += 1
                rep.violation({"kind": "symmetry", "obligation": "compiled Hessian is symmetric", "witness": {"expr": repr(e)[:300], "V": names,
                               "point": pt, "H": M.tolist(), "path": hf.__name__}}, concrete=True)
            for a in range(len(names)):
                for b in range(len(names)):
                    nums.append(f"({te}, {ser.s(names[a])}, {ser.s(names[b])}, {common.pts_term(pt)}, {common.pts_term(ppts)}, [{ser.q(float(M[a, b]))}])")
                    nmeta.append({"entry": [names[a], names[b]], "expr": repr(e)[:300], "V": names, "point": pt, "value": float(M[a, b]),
                                  "path": hf.__name__})
    tfails = trees.run()
    nfails, nund = common.run_classify(IMPORTS + " SemI HarnessI", DEFS, NUM_TYPE, nums, NUM_CHECKER) if nums else ([], [])
    for i in tfails:
        model = trees.model_answer(i, lambda t: "match " + t + " with (e, V, _, _) => (compute_hessian ln2c ln10c e V, "
                                   "hname (compile_hessian ln2c ln10c gen_unary_hess e V)) end")
        rep.violation({"kind": "correspondence", "obligation": "Hessian entry trees / compile path = model", "case": trees.terms[i][:6000],
                       "meta": trees.meta[i], "model": model, "witness": None}, concrete=False)
    for i in nfails:
        rep.violation({"kind": "numeric", "obligation": "compiled Hessian entry within the enclosure of the model's second derivative",
                       "case": nums[i][:3000], "witness": nmeta[i]}, concrete=True)
    cov = rep.coverage
    cov["evaluations"] = len(trees.terms) + len(nums)
    cov["distinct_nontrivial"] = trees.nontrivial
    cov["rule"] = ("twice differentiable API-built expressions (vectorised sums with every fast-path power/op, dot products, quadratic "
                   "forms, general trees), V in natural / permuted / superset order; Hessian entry trees and path names compared exactly, "
                   "all n^2 compiled entries at 2 dyadic points by interval enclosure, symmetry bitwise")
    cov["samples"] = [t[:500] for t in trees.terms[:2]] + [x_[:300] for x_ in nums[:2]]
    cov["path_histogram"] = dict(sorted(paths.items()))
    cov["numeric_entries"] = len(nums)
    cov["numeric_undecided"] = len(nund)
    cov["asymmetric_outputs"] = asym
    cov["exceptions"] = errors
    cov["correspondence_failures"] = len(tfails) + len(nfails) + asym
    cov["traces_validated_against_impl"] = len(trees.terms) + len(nums) - len(nund)
    rep.assumptions += ["Schwarz's theorem is not proved: the compiled matrix is symmetric by construction and its lower triangle is the mirrored upper value"]


def replay(rep, path):
    import json
    print(json.dumps(json.load(open(path)), indent=1)[:6000])
    return 0
