"""C17 - symbolic and compiled Hessians are the true symmetric second derivatives.

Proof: Props/C17.v (Hessian entry (i,j) = derivative w.r.t. V_j of the derivative w.r.t.
       V_i, from the gradient theorem applied to gradient trees; compiled matrix
       symmetric by construction with upper-triangle entries equal to the symbolic
       entries' values; diagonal shortcuts of the generated tables = second derivatives;
       maximise hands over the negated Hessian).
Tie:   (S) compute_hessian's entry TREES (the second pass differentiates the simplified
       output of the first) and compile_hessian's path (callable __name__) must equal
       the model's; (I) all n^2 entries of the compiled callable inside the enclosure
       of the model's second-derivative trees; H == H.T exactly."""
from __future__ import annotations

import random
import warnings
import numpy as np

import verifkit as vk
import gen
import ser
from checks import common
from checks.common import Cases

LEVEL = "proof"
IMPORTS = "Autodiff Compile ArrTerm Jacobian Gen.GenTables"
DEFS = """
Definition hname (p : hpath) : string :=
  match p with
  | HPower full _ k => match pick_power gen_power_hess (negb full) k with Some ce => c_name ce | None => "<none>" end
  | HUnary full _ o => match pick_unary gen_unary_hess (negb full) o with Some ce => c_name ce | None => "<none>" end
  | HGeneral _ => "hessian_fn" | HError => "<error>" end.
Definition rows_eqb (a b : list (list expr)) : bool := list_eqb (list_eqb expr_eqb) a b.
"""
TREE_CHECKER = ("fun c => match c with (e, V, rows, hn) => "
                "rows_eqb (compute_hessian ln2c ln10c e V) rows "
                "&& String.eqb (hname (compile_hessian ln2c ln10c gen_unary_hess e V)) hn end")
NUM_CHECKER = ("fun c => match c with (e, vi, vj, pts, ppts, obs) => "
               "worst (map (num_check (grad ln2c ln10c vj (grad ln2c ln10c vi e)) pts ppts) obs) end")
NUM_TYPE = "expr * string * string * list (string * Q) * list (string * Q) * list Q"


def twice_diff(g: gen.Gen, r):
    x = g.view()
    k = r.randrange(8)
    if k == 0:
        return (x ** r.choice([1, 2, 3, 4, 0.5, -1, 1.5])).sum()
    if k == 1:
        return gen.FN[r.choice(["sin", "cos", "exp", "log", "sqrt", "tanh", "sinh", "cosh", "tan"])](x).sum()
    if k == 2:
        return x.dot(x) + g.leaf() * x.sum()
    if k == 3:
        Q = g.matrix(x.size)
        return x.dot(Q @ x) + g.coeffs(x.size) @ x
    return g.expr(r.choice([2, 3]))


def hessian_fd_witness(e, V, hf, rng):
    """Concrete failing input: a regular point where an entry of the compiled Hessian differs from a second central
    difference of the expression's own evaluate() (two step sizes must agree for the point to count as regular)."""
    names = [v.name for v in V]
    def fd(pt, a, b, h):
        def f(da, db):
            q = dict(pt); q[names[a]] += da; q[names[b]] += db
            return common.fval(e.evaluate(q))
        vals = [f(h, h), f(h, -h), f(-h, h), f(-h, -h)]
        if None in vals:
            return None
        return (vals[0] - vals[1] - vals[2] + vals[3]) / (4 * h * h)
    for _ in range(12):
        pt = common.pick_point(rng, names)
        x = np.array([pt[nm] for nm in names], dtype=float)
        with np.errstate(all="ignore"), warnings.catch_warnings():
            warnings.simplefilter("ignore")
            try:
                M = np.asarray(hf(x), dtype=float)
            except Exception:
                continue
            if M.shape != (len(names), len(names)) or not np.all(np.isfinite(M)):
                continue
            for a in range(len(names)):
                for b in range(len(names)):
                    try:
                        d1, d2 = fd(pt, a, b, 2.0 ** -7), fd(pt, a, b, 2.0 ** -8)
                    except Exception:
                        continue
                    if d1 is None or d2 is None:
                        continue
                    tol = 1e-3 * max(1.0, abs(d2)) + 8 * abs(d1 - d2)
                    if abs(d1 - d2) <= 1e-3 * max(1.0, abs(d2)) and abs(M[a, b] - d2) > tol:
                        return {"point": pt, "entry": [names[a], names[b]], "compiled": float(M[a, b]), "second_central_difference": d2,
                                "tolerance": tol}
    return None


def run(rep: vk.Report):
    vk.proof_stage(rep, "C17", extra_trusted=["Interval library enclosure (SemI.evalI_correct) for the numeric channel"])
    rng = common.rng_for(rep.seed, "C17")
    import optyx.core.autodiff as AD
    import optyx.core.compiler as C
    from optyx import Variable
    from optyx.problem import _variable_order_key
    n = 120 if rep.tier == "quick" else 6000
    trees = Cases("hess-tree", IMPORTS, "expr * list string * list (list expr) * string", TREE_CHECKER, defs=DEFS)
    nums, nmeta = [], []
    paths = {}
    asym = 0
    errors = {}
    fixed = common.vectorised_worklist()
    def sources():
        for f in fixed:
            yield None, f[0], list(f[1])
        for g, e in common.corpus(rng, rep.tier, 0, focus_profile="all", pool_kwargs={"with_matrices": False}):
            yield g, e, None
        for _ in range(n):
            r0 = random.Random(rng.random())
            g = gen.Gen(r0, profile=r0.choice(["poly", "smooth", "smooth"]), pool=gen.Pool(r0, with_matrices=(r0.random() < 0.3)))
            try:
                yield g, twice_diff(g, r0), None
            except Exception:
                continue

    keep = []
    param_updates = 0
    alias_probes = [0]
    for g, e, V in sources():
        r = g.rng if g is not None else random.Random(rng.random())
        if V is None:
            vs = sorted(e.get_variables(), key=_variable_order_key)
            if not vs or len(vs) > 4:
                continue
            mode = r.random()
            if mode < 0.4:
                V = list(vs)
            else:
                V = common.orders(vs, [Variable("extra0")] if r.random() < 0.4 else [], r)
        S = ser.Ser()
        try:
            te = S.expr(e)
            H = AD.compute_hessian(e, V)
            th = [[S.expr(h) for h in row] for row in H]
            hf = AD.compile_hessian(e, V)
        except ser.Unsupported:
            continue
        except Exception as ex:
            errors[type(ex).__name__] = errors.get(type(ex).__name__, 0) + 1
            rep.violation({"kind": "exception", "obligation": "Hessian can be computed and compiled", "expr": repr(e)[:300], "error": repr(ex)[:300]},
                          concrete=True)
            continue
        paths[hf.__name__] = paths.get(hf.__name__, 0) + 1
        names = [v.name for v in V]
        trees.add(f"({te}, {ser.lst(ser.s(nm) for nm in names)}, {ser.lst(ser.lst(row) for row in th)}, {ser.s(hf.__name__)})",
                  {"V": names, "path": hf.__name__, "expr": repr(e)[:300]})
        keep.append((e, V, hf))
        # call history with the caller's array reused: the same float64 array updated in place between two calls (a solver's
        # iterate), and the first matrix kept while the second is computed; the reference is a SECOND compilation of the same object
        if r.random() < 0.5:
            pa_, pb_ = common.pick_point(r, names), common.pick_point(r, names)
            xa_, xb_ = [pa_[nm] for nm in names], [pb_[nm] for nm in names]
            try:
                with warnings.catch_warnings():
                    warnings.simplefilter("ignore")
                    hf2 = AD.compile_hessian(e, V)
                    bad_ = common.alias_probe(hf, xa_, xb_, hf2, rtol=1e-12)
                alias_probes[0] += 1
                if bad_:
                    rep.violation({"kind": "history", "obligation": "the compiled Hessian answers for the point it is given, whatever it was given before",
                                   "witness": dict(bad_, expr=repr(e)[:300], V=names)}, concrete=True)
            except Exception:
                pass
        params = common.params_of(e)
        for rnd in range(3 if params else 2):
            if rnd == 2:
                # Parameters re-set AFTER compile_hessian: entries without variables are not constants
                for nm, pp in params.items():
                    if np.ndim(pp.value) == 0:
                        pp.set(float(r.choice([-1.5, 0.25, 2.0, 3.5])) + 0.0625 * r.randrange(8))
                        param_updates += 1
            ppts = {nm: float(p.value) for nm, p in params.items() if np.ndim(p.value) == 0}
            pt = common.pick_point(r, names)
            if rnd == 1 and r.random() < 0.4:
                pt = {nm: float(r.choice([1, 2, 3, -1, -2, 4])) for nm in names}       # an integer-valued point
            x = np.array([pt[nm] for nm in names], dtype=float)
            with np.errstate(all="ignore"), warnings.catch_warnings():
                warnings.simplefilter("ignore")
                try:
                    M = np.asarray(hf(x), dtype=float)
                    ok = common.fval(e.evaluate(pt)) is not None
                except Exception as ex:
                    errors["call:" + type(ex).__name__] = errors.get("call:" + type(ex).__name__, 0) + 1
                    continue
            if not ok or M.shape != (len(names), len(names)) or not np.all(np.isfinite(M)):
                continue
            if np.all(x == np.round(x)):
                # the same integer-valued point handed over as an integer array: NumPy may refuse (negative integer powers), but a
                # matrix that comes back must be the same matrix
                with np.errstate(all="ignore"), warnings.catch_warnings():
                    warnings.simplefilter("ignore")
                    try:
                        Mi = np.asarray(hf(x.astype(np.int64)), dtype=float)
                    except Exception:
                        Mi = None
                # fixed-width integers wrap around: the int64 answer is held against the floating one only where an exact-integer run of
                # the same callable shows that no intermediate comes near 2**63
                if Mi is not None and np.all(np.isfinite(Mi)) and np.all(np.abs(M) < 1e9) and not np.allclose(Mi, M, rtol=1e-9, atol=1e-12) \
                        and common.int64_cannot_wrap(hf, x):
                    rep.violation({"kind": "numeric", "obligation": "the compiled Hessian at a point does not depend on the array's integer / floating dtype",
                                   "witness": {"expr": repr(e)[:300], "V": names, "point": pt, "float_point": M.tolist(), "int64_point": Mi.tolist(),
                                               "path": hf.__name__}}, concrete=True)
            if not np.array_equal(M, M.T):
                asym += 1
                rep.violation({"kind": "symmetry", "obligation": "compiled Hessian is symmetric", "witness": {"expr": repr(e)[:300], "V": names,
                               "point": pt, "H": M.tolist(), "path": hf.__name__}}, concrete=True)
            for a in range(len(names)):
                for b in range(len(names)):
                    nums.append(f"({te}, {ser.s(names[a])}, {ser.s(names[b])}, {common.pts_term(pt)}, {common.pts_term(ppts)}, [{ser.q(float(M[a, b]))}])")
                    nmeta.append({"entry": [names[a], names[b]], "expr": repr(e)[:300], "V": names, "point": pt, "value": float(M[a, b]),
                                  "path": hf.__name__})
    tfails = trees.run()
    # ---- derivatives of formulas AS WRITTEN (independent NumPy function, finite differences), the same object under two orders
    wd_checked, wd_bad = common.written_derivatives(rep, rng, 2 if rep.tier == "quick" else 40, "hess", "C17")
    nfails, nund = common.run_classify(IMPORTS + " SemI HarnessI", DEFS, NUM_TYPE, nums, NUM_CHECKER) if nums else ([], [])
    tree_reports = searched = 0
    for i in tfails:
        if tree_reports >= 20 or searched >= 60:
            break
        searched += 1
        wit = hessian_fd_witness(keep[i][0], keep[i][1], keep[i][2], rng) if searched <= 40 else None
        if wit is None and tree_reports >= 6:
            continue              # a renamed / re-routed path with correct values: reported a few times, not once per case
        tree_reports += 1
        model = trees.model_answer(i, lambda t: "match " + t + " with (e, V, _, _) => (compute_hessian ln2c ln10c e V, "
                                   "hname (compile_hessian ln2c ln10c gen_unary_hess e V)) end")
        rep.violation({"kind": "correspondence", "obligation": "Hessian entry trees / compile path = model", "case": trees.terms[i][:6000],
                       "meta": trees.meta[i], "model": model, "witness": wit}, concrete=wit is not None)
    for i in nfails:
        if common.sanitised_overflow(IMPORTS + " SemI HarnessI", DEFS, nums[i], "match c with (e, vi, vj, pts, ppts, _) => "
                                     "enclosure (grad ln2c ln10c vj (grad ln2c ln10c vi e)) pts ppts end", [nmeta[i].get("value")]):
            continue
        rep.violation({"kind": "numeric", "obligation": "compiled Hessian entry within the enclosure of the model's second derivative",
                       "case": nums[i][:3000], "witness": nmeta[i]}, concrete=True)
    cov = rep.coverage
    cov["call_histories_with_the_point_array_updated_in_place"] = alias_probes[0]
    cov["derivatives_of_formulas_as_written_vs_finite_differences"] = wd_checked
    cov["derivatives_of_formulas_as_written_disagreements"] = wd_bad
    cov["evaluations"] = len(trees.terms) + len(nums)
    cov["distinct_nontrivial"] = trees.nontrivial
    cov["rule"] = ("twice differentiable API-built expressions (vectorised sums with every fast-path power/op, dot products, quadratic "
                   "forms, general trees), V in natural / permuted / superset order; Hessian entry trees and path names compared exactly, "
                   "all n^2 compiled entries at 2 dyadic points by interval enclosure, symmetry bitwise")
    cov["samples"] = [t[:500] for t in trees.terms[:2]] + [x_[:300] for x_ in nums[:2]]
    cov["path_histogram"] = dict(sorted(paths.items()))
    cov["parameter_updates_after_compile"] = param_updates
    cov["numeric_entries"] = len(nums)
    cov["numeric_undecided"] = len(nund)
    cov["asymmetric_outputs"] = asym
    cov["exceptions"] = errors
    cov["correspondence_failures"] = len(tfails) + len(nfails) + asym
    cov["traces_validated_against_impl"] = len(trees.terms) + len(nums) - len(nund)
    rep.assumptions += ["Schwarz's theorem is not proved: the compiled matrix is symmetric by construction and its lower triangle is the mirrored upper value"]


def replay(rep, path):
    import json
    print(json.dumps(json.load(open(path)), indent=1)[:6000])
    return 0
