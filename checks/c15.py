"""C15 - results do not depend on depth or association of the expression tree.

Proof: Props/C15.v (the explicit-stack algorithms return exactly what the recursive
       ones return, for every tree and every switch threshold: gradient, compiler,
       degree; left-deep, right-deep and balanced accumulations of + and * denote the
       same real function, left chains of - and / denote t1 - sum / t1 / prod; variable
       discovery, degree (+, -) and gradient values are shape-independent).
Tie:   accumulation chains built term by term through the API, n in {399, 400, 401,
       900} (compile / evaluate) and {5000, 20000} (gradient, degree, variables), every
       op, left-deep / balanced / vectorised, base terms over all 19 elementary
       functions and the vector nodes: (I) compiled value, evaluate and gradient values
       inside the enclosure of the MODEL's chain (rebuilt in Coq from the term list);
       (S) degree and variable lists equal to the model's; shapes agree with each other;
       both traversals forced from outside give identical trees; no RecursionError."""
from __future__ import annotations

import os
import random
import sys
import warnings
import numpy as np

import verifkit as vk
import gen
import ser
from checks import common

repr = common.safe_repr          # deep chains: the library's recursive __repr__ must not crash the report
from checks.common import Cases

LEVEL = "proof"
IMPORTS = "Occ Degree Autodiff Vars Assoc Gen.GenTables SemI HarnessI"
DEFS = """
(* sort_vars (dedup l) = names  <=>  l and names have the same elements and names is sorted without duplicates
   (VarsProofs.sort_dedup_ext, sorted_unique); checked in O(|l| * |names|) instead of O(|l|^2) *)
Definition same_set (l names : list string) : bool :=
  forallb (fun x => existsb (String.eqb x) names) l && forallb (fun n => existsb (String.eqb n) l) names.
Definition chain (assoc : nat) (o : bop) (ts : list expr) : expr :=
  match assoc with O => chain_l o ts | S O => chain_r o ts | _ => chain_bal o ts end.
"""
STRUCT_CHECKER = ("fun c => match c with (a, o, ts, degs, names) => "
                  "forallb (fun d => opt_eqb Nat.eqb (degree (chain a o ts)) d) degs "
                  "&& same_set (vars (chain a o ts)) names && list_eqb String.eqb (sort_vars (dedup names)) names end")
STRUCT_TYPE = "nat * bop * list expr * list (option nat) * list string"
NUM_CHECKER = ("fun c => match c with (a, o, ts, wrt, pts, ppts, obs) => "
               "let e := chain a o ts in "
               "worst (map (num_check (match wrt with Some v => grad ln2c ln10c v e | None => e end) pts ppts) obs) end")
NUM_TYPE = "nat * bop * list expr * option string * list (string * Q) * list (string * Q) * list Q"
ALL_FN = ["sin", "cos", "tan", "exp", "log", "log2", "log10", "sqrt", "tanh", "sinh", "cosh", "asin", "acos", "atan",
          "asinh", "acosh", "atanh", "abs"]


def base_terms(kind, n, pool, r):
    vs = pool.all_scalar_vars()
    out = []
    for i in range(n):
        v = vs[i % len(vs)]
        if kind == "lin":
            out.append(r.choice([1, 2, 0.5]) * v)
        elif kind == "var":
            out.append(v)
        elif kind == "sq":
            out.append(v ** 2)
        elif kind == "param":
            out.append(pool.params[i % len(pool.params)] * v + (i % 3))
        elif kind == "clones":
            # every mention is a NEW Variable object with the same name (a helper `def var(i): return Variable(f"v{i}")`)
            from optyx import Variable as _V
            out.append(_V(v.name) ** 2 - 2 * _V(v.name))
        elif kind == "varpow":
            # a power whose EXPONENT is an expression in the variables (general a**b rule), base kept positive
            v2 = vs[(i + 1) % len(vs)]
            out.append(r.choice([1, 2, 0.5]) * (v + 2) ** (v2 * 0.25 + 1))
        elif kind == "expvar":
            # a variable that occurs ONLY in exponents (2**(z - a) + 2**(a - z) style), another one only as a base
            from optyx import Variable as _V
            zz, aa = _V(f"z{i % 3}"), float(i % 4) * 0.25
            out.append(gen.Constant(2.0) ** (zz - aa) + gen.Constant(2.0) ** (aa - zz))
        elif kind == "distinct":
            # every term has its own variable, written with the variable on the LEFT: the first one sits at the very bottom
            # of the left spine and is mentioned nowhere else
            from optyx import Variable as _V
            out.append(_V(f"u{i}") * 3.0)
        elif kind == "divc":
            out.append(r.choice([1, 3, 0.5]) * v / (gen.Constant(4.0) / 2))          # denominator is a constant EXPRESSION, not a literal
        elif kind == "negpow":
            out.append((v + 2) ** -1 * 3)
        elif kind == "fracpow":
            out.append((v + 2) ** 0.5)
        elif kind == "pow01":
            out.append(v ** (i % 2) + (v + 1) ** 1)
        elif kind == "cdiv":
            out.append(2 / (v + 3))
        elif kind == "dotshare":
            # dot products that SHARE their left vector object; each right vector occurs in no other term
            if not out:
                from optyx import VectorVariable as _VVd
                base_terms.dot_left = _VVd("dl", 3)
                base_terms.dot_rights = [_VVd(f"dr{j_}", 3) for j_ in range(3)]
                base_terms.dot_once = _VVd("dq", 3)          # occurs in ONE term only, as the right operand
            if i == 7:
                out.append(base_terms.dot_left.dot(base_terms.dot_once))
            else:
                out.append(base_terms.dot_left.dot(base_terms.dot_rights[i % 3]) if i % 5 else base_terms.dot_rights[i % 3].dot(base_terms.dot_left))
        elif kind == "cexpr_r":
            # a constant-valued EXPRESSION (never a bare literal) as the RIGHT factor / divisor of a non-constant left operand
            cr = [lambda: gen.Constant(2.0) * 3 - 1, lambda: -gen.Constant(2.0), lambda: gen.Constant(3.0) / 2, lambda: gen.Constant(0.5) * 0.5,
                  lambda: gen.Constant(2.0) ** 2, lambda: gen.Constant(1.5) + 0][i % 6]()
            out.append(v * cr if i % 4 else (v + 1) * cr + 2 * v)
        elif kind.startswith("focused:"):
            # one member of the focused corpus (every reduction / leaf kind under every one-node context), the same object n times
            if not out:
                g_ = gen.Gen(r, profile="poly", pool=pool)
                base_terms.focused = g_.focused(int(kind[8:]))
            out.append(base_terms.focused)
        elif kind == "cexpr":
            out.append((gen.Constant(2.0) * 3 - 1) * v + gen.Constant(2.0) ** 3)
        elif kind.startswith("fn:"):
            f = kind[3:]
            arg = v * 0.125 + (1.5 if f == "acosh" else 0.25)
            out.append(gen.FN[f](arg))
        else:  # vec
            x = pool.vectors[i % len(pool.vectors)]
            out.append(r.choice([x.sum(), np.ones(x.size) @ x, x.dot(x), (x ** 2).sum(), gen.FN["sin"](x).sum()]))
    return out


def run(rep: vk.Report):
    vk.proof_stage(rep, "C15", extra_trusted=["Interval library enclosure (SemI.evalI_correct) for the numeric channel"])
    rng = common.rng_for(rep.seed, "C15")
    import optyx.core.autodiff as AD
    import optyx.core.compiler as C
    import optyx.analysis as AN
    import optyx.core.expressions as EX
    from optyx.problem import _variable_order_key
    quick = rep.tier == "quick"
    shallow_sizes = [399, 400, 401, 900]
    deep_sizes = [5000] if quick else [5000, 20000]
    kinds = ["lin", "var", "sq", "vec"] + ["fn:" + f for f in ALL_FN]
    plan = []
    for kind in kinds:
        for op in ["+", "-", "*", "/"]:
            if quick and rng.random() < 0.72:
                continue
            n = rng.choice(shallow_sizes)
            plan.append((kind, op, n, rng.choice(["left", "balanced"])))
    # term kinds that exercise each rule of the degree analysis and the call-time reading of parameters, right at the switch depth
    probe_ = gen.Gen(random.Random(0), profile="poly", pool=gen.Pool(random.Random(0), with_matrices=False))
    fsize = probe_.focused_size()
    focus_ids = sorted(random.Random(rng.random()).sample(range(fsize), min(fsize, 14 if quick else 160)))
    for kind in ["param", "divc", "negpow", "fracpow", "pow01", "cdiv", "cexpr", "cexpr_r", "clones", "distinct", "expvar", "varpow", "dotshare"] + \
            [f"focused:{i_}" for i_ in focus_ids]:
        for op, n in ([("+", 401), ("-", 400)] if quick else [("+", 399), ("+", 400), ("+", 401), ("-", 400), ("-", 900), ("*", 401)]):
            plan.append((kind, op, n, "left" if op != "+" or quick else rng.choice(["left", "balanced"])))
    for kind in (["lin", "vec", "fn:atan", "fn:log2"] if quick else ["lin", "var", "sq", "vec", "fn:sin", "fn:atan", "fn:log2"]):
        for n in deep_sizes:
            plan.append((kind, "+", n, "left"))
    # the edge-of-depth product and quotient chains are always in the plan (recorded findings K6 / K7 live there)
    for must in [("lin", "*", 900, "left"), ("lin", "/", 900, "left")]:
        if must not in plan:
            plan.append(must)
    structs = Cases("chain-struct", IMPORTS, STRUCT_TYPE, STRUCT_CHECKER, defs=DEFS)
    nums, nmeta = [], []
    recursion = 0
    shape_diffs = 0
    thresh_diffs = 0
    sys.setrecursionlimit(1000)
    for kind, op, n, assoc in plan:
        r = random.Random(rng.random())
        pool = gen.Pool(r, with_matrices=False, with_params=(kind == "param"))
        terms = base_terms(kind, n, pool, r)
        if op in ("*", "/"):
            # keep products numerically tame: factors near 1
            terms = [terms[0]] + [(t * 0.001 + 1) for t in terms[1:]]
        if rng.random() < 0.5:
            # a user who inspects the TERMS before accumulating them: whatever a term remembers about itself (its degree, its class)
            # must not change what the accumulation is
            for t_ in terms[:6] + terms[-3:]:
                try:
                    t_.degree
                    t_.is_linear()
                except Exception:
                    pass
        shapes = {"left": common.build_chain(terms, op, "left")}
        if op in ("+", "*"):
            shapes["balanced"] = common.build_chain(terms, op, "balanced")
        e = shapes.get(assoc, shapes["left"])
        assoc = assoc if assoc in shapes else "left"
        deep = n > 900
        V = sorted({v.name: v for t in (terms if kind == "distinct" else terms[:50]) for v in t.get_variables()}.values(), key=_variable_order_key)
        if kind == "clones":
            from optyx import Variable as _V
            V = [_V(v.name) for v in V]          # differentiate with respect to equal-named but distinct objects
        names = [v.name for v in V]
        pt = {nm: r.choice([0.5, 0.75, 0.25, 0.625]) for nm in names}
        xarr = np.array([pt[nm] for nm in names], dtype=float)
        S = ser.Ser()
        try:
            tts = ser.lst(S.expr(t) for t in terms)
        except ser.Unsupported:
            continue
        step = "start"
        try:
            with warnings.catch_warnings():
                warnings.simplefilter("ignore")
                obs = {}
                for sh, ee in shapes.items():
                    step = "variable discovery"
                    o = {"vars": [v.name for v in sorted(EX.get_all_variables(ee), key=_variable_order_key)]}
                    step = "degree"
                    o["degree"] = AN.compute_degree(ee)
                    w = V[0]
                    step = "gradient()"
                    gt = AD.gradient(ee, w)
                    with np.errstate(all="ignore"):
                        o["grad"] = None
                        if not deep:
                            step = "compile(gradient)"
                            gfn = C.compile_expression(gt, V)
                            step = "call compiled gradient"
                            o["grad"] = common.fval(gfn(xarr))
                        elif kind in ("lin", "var", "vec"):
                            # beyond n = 900 the property speaks about the SYMBOLIC gradient only (a closure nest of that depth cannot
                            # be called within Python's default recursion limit): its value is read off the tree by the harness's own
                            # explicit-stack walk
                            step = "value of the symbolic gradient (harness walk)"
                            gfn = None
                            o["grad"] = common.fval(common.iter_eval(gt, pt))
                        if not deep:
                            step = "compile(value)"
                            vfn = C.compile_expression(ee, V)
                            o["_vfn"], o["_gfn"], o["_ee"] = vfn, (gfn if o["grad"] is not None else None), ee
                            step = "call compiled value"
                            o["compiled"] = common.fval(vfn(xarr))
                            step = "evaluate"
                            o["evaluate"] = common.fval(ee.evaluate(pt))
                    obs[sh] = o
        except RecursionError as ex:
            recursion += 1
            # the recorded findings are identified by the call site, not by one particular n: the gradient closure of a left-deep
            # quotient chain (derivative ~2 levels per factor) and of a left-deep product chain at the edge of the supported depth
            fclass = None
            failing_shape = sh if "sh" in dir() else assoc          # the shape being processed when the error escaped
            if failing_shape == "left" and step in ("compile(gradient)", "call compiled gradient"):
                if op == "/" and n >= 399:
                    fclass = "gradient closure of a left-deep quotient chain"
                elif op == "*" and n >= 881:
                    fclass = "gradient closure of a left-deep product chain at the edge of the supported depth"
            rep.violation({"kind": "recursion", "obligation": "no RecursionError within the supported depth", "step": step,
                           "op": op, "n": n, "base": kind, "association": failing_shape, "finding_class": fclass,
                           "witness": {"base": kind, "op": op, "n": n, "association": assoc, "step": step}}, concrete=True)
            continue
        except Exception as ex:
            rep.violation({"kind": "exception", "obligation": "every operator / function / vector node supported on shallow trees is supported on deep ones",
                           "step": step, "witness": {"base": kind, "op": op, "n": n, "association": assoc, "error": repr(ex)[:300]}}, concrete=True)
            continue
        if os.environ.get("VERIF_DEBUG_C15"):
            print("DEBUG", kind, op, n, assoc, {sh_: o_["degree"] for sh_, o_ in obs.items()}, file=sys.stderr)
        # shapes agree with each other
        ref = obs["left"]
        for sh, o in obs.items():
            bad = o["vars"] != ref["vars"] or (op in "+-*" and o["degree"] != ref["degree"])
            for k in ("grad", "compiled", "evaluate"):
                a_, b_ = o.get(k), ref.get(k)
                if a_ is not None and b_ is not None and abs(a_ - b_) > 1e-7 * max(1.0, abs(a_), abs(b_)):
                    bad = True
            if bad:
                shape_diffs += 1
                rep.violation({"kind": "shape", "obligation": "observations agree across associations",
                               "witness": {"base": kind, "op": op, "n": n, "shape": sh,
                                           "this": {k: o[k] for k in o if k != "vars" and not k.startswith("_")},
                                           "left": {k: ref[k] for k in ref if k != "vars" and not k.startswith("_")}}}, concrete=True)
        # forced thresholds on a moderate tree: identical derivative trees and degrees
        if n <= 401:
            ee = shapes["left"]
            res = []
            for th in (0, 10 ** 9):
                old = (AD._RECURSION_THRESHOLD, AN._RECURSION_THRESHOLD)
                try:
                    AD._RECURSION_THRESHOLD = th; AN._RECURSION_THRESHOLD = th
                    with common.uncached(AD, "_gradient_cached"), common.uncached(AN, "_compute_degree_cached"):
                        res.append((AD.gradient(ee, V[0]), AN.compute_degree(ee)))
                finally:
                    AD._RECURSION_THRESHOLD, AN._RECURSION_THRESHOLD = old
            if not common.trees_equal(res[0][0], res[1][0]) or res[0][1] != res[1][1]:
                thresh_diffs += 1
                rep.violation({"kind": "threshold", "obligation": "same result below and above the switch threshold",
                               "witness": {"base": kind, "op": op, "n": n, 
                                           "degrees": [res[0][1], res[1][1]]}}, concrete=True)
        o = obs[assoc]
        a_id = common.ASSOC[assoc]
        dg = o["degree"]
        if dg is not None and not (isinstance(dg, (int, np.integer)) and not isinstance(dg, bool) and dg >= 0):
            rep.violation({"kind": "correspondence", "obligation": "a reported degree is None or a natural number",
                           "witness": {"base": kind, "op": op, "n": n, "association": assoc, "degree": repr(dg)}}, concrete=True)
            continue
        ppts0 = {pp.name: float(pp.value) for pp in pool.params}
        if kind == "param" and not deep and o.get("_vfn") is not None:
            # Parameters re-set AFTER compilation: the deep-tree callables must read them at call time
            for pp in pool.params:
                pp.set(float(pp.value) + 1.75)
            ppts1 = {pp.name: float(pp.value) for pp in pool.params}
            with np.errstate(all="ignore"):
                vals1 = [common.fval(o["_vfn"](xarr)), common.fval(o["_ee"].evaluate(pt))]
                g1 = common.fval(o["_gfn"](xarr)) if o.get("_gfn") is not None else None
            if all(v is not None for v in vals1):
                nums.append(f"({a_id}%nat, {ser.BOPS[op]}, {tts}, None, {common.pts_term(pt)}, {common.pts_term(ppts1)}, {ser.lst(ser.q(v) for v in vals1)})")
                nmeta.append({"what": "value after Parameter.set() on the compiled deep tree", "base": kind, "op": op, "n": n, "association": assoc,
                              "values": vals1, "params": ppts1})
            if g1 is not None:
                nums.append(f"({a_id}%nat, {ser.BOPS[op]}, {tts}, (Some {ser.s(names[0])}), {common.pts_term(pt)}, {common.pts_term(ppts1)}, [{ser.q(g1)}])")
                nmeta.append({"what": "gradient after Parameter.set()", "base": kind, "op": op, "n": n, "association": assoc, "value": g1, "params": ppts1})
        structs.add(f"({a_id}%nat, {ser.BOPS[op]}, {tts}, [{ser.opt_nat(o['degree'])}], {ser.lst(ser.s(v) for v in o['vars'])})",
                    {"base": kind, "op": op, "n": n, "association": assoc, "degree": o["degree"]},
                    kinds={kind, op, assoc, f"n{n}"})
        if not deep or kind in ("lin", "var", "vec"):
            vals = [o[k] for k in ("compiled", "evaluate") if o.get(k) is not None]
            if vals and not deep:
                nums.append(f"({a_id}%nat, {ser.BOPS[op]}, {tts}, None, {common.pts_term(pt)}, {common.pts_term(ppts0)}, {ser.lst(ser.q(v) for v in vals)})")
                nmeta.append({"what": "value", "base": kind, "op": op, "n": n, "association": assoc, "values": vals})
            if o.get("grad") is not None:
                nums.append(f"({a_id}%nat, {ser.BOPS[op]}, {tts}, (Some {ser.s(names[0])}), {common.pts_term(pt)}, {common.pts_term(ppts0)}, [{ser.q(o['grad'])}])")
                nmeta.append({"what": "gradient", "base": kind, "op": op, "n": n, "association": assoc, "value": o["grad"]})
    # ---- vectorised writing vs the loop-built formula (the third "shape" of the property): strided handles of one vector, whose
    # names coincide, accumulated in both operand orders; variables, value and LP optimum must equal the loop-built model's
    from optyx import VectorVariable, Problem
    vec_cmp = 0
    for order in [(3, 2, 1), (1, 2, 3), (2, 1), (1, 2), (2, 3), (3, 1)]:
        for nvec in (6, 12):
            xv = VectorVariable("x", nvec, lb=0.0, ub=3.0)
            cw = {1: 1.0, 2: 2.0, 3: -1.5}
            vect = None
            loop = None
            for st in order:
                t = cw[st] * xv[0:nvec:st].sum()
                vect = t if vect is None else vect + t
                for j in range(0, nvec, st):
                    u = cw[st] * xv[j]
                    loop = u if loop is None else loop + u
            last = order[-1]
            con_v = xv[0:nvec:last].sum() <= 4
            con_l = None
            for j in range(0, nvec, last):
                con_l = xv[j] if con_l is None else con_l + xv[j]
            con_l = con_l <= 4
            Pv, Pl = Problem().maximize(vect).subject_to(con_v), Problem().maximize(loop).subject_to(con_l)
            vec_cmp += 1
            nv_, nl_ = [v.name for v in Pv.variables], [v.name for v in Pl.variables]
            ptv = {f"x[{j}]": 0.25 * (j + 1) for j in range(nvec)}
            with warnings.catch_warnings():
                warnings.simplefilter("ignore")
                try:
                    sv, sl = Pv.solve(), Pl.solve()
                    solved = (sv.status.value, None if sv.objective_value is None else round(sv.objective_value, 7)), \
                             (sl.status.value, None if sl.objective_value is None else round(sl.objective_value, 7))
                except Exception as ex:
                    solved = (("raised", repr(ex)[:120]), ("-", None))
            vv, vl = common.fval(vect.evaluate(ptv)), common.fval(loop.evaluate(ptv))
            if nv_ != nl_ or solved[0] != solved[1] or vv is None or vl is None or abs(vv - vl) > 1e-9:
                shape_diffs += 1
                rep.violation({"kind": "shape", "obligation": "the vectorised writing of a formula gives the variables, value and optimum of the loop-built one",
                               "witness": {"n": nvec, "stride_order": list(order), "variables_vectorised": nv_, "variables_loop": nl_,
                                           "solve_vectorised": solved[0], "solve_loop": solved[1], "value_vectorised": vv, "value_loop": vl}}, concrete=True)
    # ---- the same formula as ONE vector node around constants vs term by term: every derivative entry point and an NLP solve
    from optyx import VectorVariable as _VVq, Problem as _Pq
    jac_cmp = 0
    for trial in range(10 if quick else 120):
        r = random.Random(rng.random())
        nq = r.randint(2, 5)
        xq = _VVq(r.choice(["x", "q"]), nq, lb=-1.0, ub=3.0)          # an ASYMMETRIC box: a flipped sign changes the optimal value
        wq = np.array([1.0 + 0.5 * k_ * (-1 if k_ % 2 else 1) for k_ in range(nq)])
        c0 = r.choice([9.0, 4.0, 12.5])
        fam = trial % 6
        if fam == 0:
            vect, loop = c0 - xq.dot(xq), c0 - sum((xq[k_] * xq[k_] for k_ in range(1, nq)), xq[0] * xq[0])
        elif fam == 1:
            vect, loop = c0 - wq @ xq, c0 - sum((float(wq[k_]) * xq[k_] for k_ in range(1, nq)), float(wq[0]) * xq[0])
        elif fam == 2:
            vect, loop = (c0 - xq.sum()) + 1 - 2, (c0 - sum((xq[k_] for k_ in range(1, nq)), xq[0])) + 1 - 2
        elif fam == 3:
            vect, loop = 2 + (c0 - (xq ** 2).sum()), 2 + (c0 - sum((xq[k_] ** 2 for k_ in range(1, nq)), xq[0] ** 2))
        elif fam == 4:
            vect, loop = xq.dot(xq) - c0, sum((xq[k_] * xq[k_] for k_ in range(1, nq)), xq[0] * xq[0]) - c0
        else:
            vect, loop = c0 + wq @ xq - 1, c0 + sum((float(wq[k_]) * xq[k_] for k_ in range(1, nq)), float(wq[0]) * xq[0]) - 1
        Vq = list(xq)
        ptq = np.array([0.5 + 0.25 * k_ for k_ in range(nq)])
        jac_cmp += 1
        got = {}
        with np.errstate(all="ignore"), warnings.catch_warnings():
            warnings.simplefilter("ignore")
            for nm_, ee in (("vectorised", vect), ("loop", loop)):
                got[nm_] = {"compile_jacobian": np.round(np.asarray(AD.compile_jacobian([ee], Vq)(ptq), dtype=float).reshape(-1), 9).tolist(),
                            "compile_gradient": np.round(np.asarray(C.compile_gradient(ee, Vq)(ptq), dtype=float).reshape(-1), 9).tolist(),
                            "gradient()": [round(float(AD.gradient(ee, v_).evaluate({t_.name: float(ptq[k_]) for k_, t_ in enumerate(Vq)})), 9) for v_ in Vq]}
            # the formula as a constraint body / objective of a small NLP
            sols = {}
            for nm_, ee in (("vectorised", vect), ("loop", loop)):
                Pq = _Pq().maximize(wq @ xq) if fam in (0, 3, 4) else _Pq().minimize(((xq - 1) ** 2).sum())
                Pq.subject_to(ee >= 0 if fam != 4 else ee <= 0)
                try:
                    sq = Pq.solve(method="SLSQP")
                    sols[nm_] = (sq.status.value, None if sq.objective_value is None else round(sq.objective_value, 5))
                except Exception as ex:
                    sols[nm_] = ("raised", repr(ex)[:100])
            # the LINEAR families also as objectives of a linear program (whatever extraction path each writing takes)
            if fam in (1, 2, 5):
                for sense_ in ("maximize", "minimize"):
                    for nm_, ee in (("vectorised", vect), ("loop", loop)):
                        try:
                            Pl_ = _Pq()
                            getattr(Pl_, sense_)(ee)
                            sl_ = Pl_.solve()
                            sols[nm_ + ":lp:" + sense_] = (sl_.status.value, None if sl_.objective_value is None else round(sl_.objective_value, 7))
                        except Exception as ex:
                            sols[nm_ + ":lp:" + sense_] = ("raised", repr(ex)[:100])
                    if sols["vectorised:lp:" + sense_] != sols["loop:lp:" + sense_]:
                        sols["vectorised"] = ("lp " + sense_,) + tuple(sols["vectorised:lp:" + sense_])
                        sols["loop"] = ("lp " + sense_,) + tuple(sols["loop:lp:" + sense_])
        if got["vectorised"] != got["loop"] or sols["vectorised"] != sols["loop"]:
            shape_diffs += 1
            rep.violation({"kind": "shape", "obligation": "derivatives and solve results of a formula written with one vector node equal those of the term-by-term writing",
                           "witness": {"family": fam, "n": nq, "constant": c0, "weights": wq.tolist(), "point": ptq.tolist(),
                                       "vectorised": got["vectorised"], "loop": got["loop"], "solve_vectorised": sols["vectorised"], "solve_loop": sols["loop"]}},
                          concrete=True)
    sfails = structs.run(shard=4)
    nfails, nund = common.run_classify(IMPORTS, DEFS, NUM_TYPE, nums, NUM_CHECKER, shard=4) if nums else ([], [])
    for i in sfails:
        rep.violation({"kind": "correspondence", "obligation": "degree / variables of the chain = model's", "meta": structs.meta[i],
                       "witness": structs.meta[i]}, concrete=True)
    for i in nfails:
        rep.violation({"kind": "numeric", "obligation": "value / gradient of the chain within the enclosure of the model's chain",
                       "witness": nmeta[i]}, concrete=True)
    cov = rep.coverage
    cov["evaluations"] = len(structs.terms) + len(nums)
    cov["distinct_nontrivial"] = structs.nontrivial
    cov["rule"] = ("accumulation chains over 22 base-term kinds (linear, variable, square, vector reductions, each of 18 elementary functions) "
                   "x ops + - * / x sizes {399,400,401,900} (and 5000/20000 for gradient, degree, variables) x left-deep / balanced; "
                   "distinct = distinct (base, op, n, association); non-trivial = all (every chain has hundreds of nodes)")
    cov["samples"] = [dict(m) for m in structs.meta[:4]]
    cov["vectorised_vs_loop_comparisons"] = vec_cmp
    cov["vector_node_vs_term_by_term_derivative_and_solve_comparisons"] = jac_cmp
    cov["plan_size"] = len(plan)
    cov["numeric_checks"] = len(nums)
    cov["numeric_undecided"] = len(nund)
    cov["recursion_errors"] = recursion
    cov["shape_disagreements"] = shape_diffs
    cov["threshold_disagreements"] = thresh_diffs
    cov["correspondence_failures"] = len(sfails) + len(nfails)
    cov["traces_validated_against_impl"] = len(structs.terms) + len(nums) - len(nund)
    rep.assumptions += ["the Python call stack is outside the model: the no-RecursionError clause is measured (default recursion limit 1000)",
                        "right-deep accumulation (obj = t + obj) is outside the property's quantifier (left-deep, balanced, vectorised); "
                        "it raises RecursionError in gradient() from n ~ 900 (left-spine depth estimate), recorded in DESIGN.md"]


def replay(rep, path):
    import json
    print(json.dumps(json.load(open(path)), indent=1)[:6000])
    return 0
