"""C11 - vector and matrix modelling operations denote their NumPy counterparts.

Proof: Props/C11.v (every API operation of the VecMat.v model evaluates to the NumPy
       reference operation of NumpySpec.v on the element values, for all sizes; views
       share the element objects of their base; incompatible shapes are rejected with an
       error class, never truncated; Python slice semantics of slice_indices).
Tie:   (S) each API operation applied to operands produced by random API recipes
       (views of views, expressions of views, transposes, symmetric matrices): the
       object built by the real API (or the exception class raised) must equal the
       model's result exactly (element trees compared structurally); (I) the built
       object's evaluate() must agree with an independent NumPy computation on the same
       values - which validates NumpySpec.v against NumPy itself - and scalar results
       must lie in the interval enclosure of the model tree."""
from __future__ import annotations

import random
import warnings
import numpy as np

import verifkit as vk
import gen
import ser
from checks import common
from checks.common import Cases

LEVEL = "proof"
IMPORTS = "VecMat"
DEFS = """
Definition kind_same (a b : vkind) : bool := match a, b with KVar _, KVar _ => true | KExpr, KExpr => true | _, _ => false end.
Definition vobj_eqb (a b : vobj) : bool := kind_same (vk a) (vk b) && list_eqb expr_eqb (vel a) (vel b).
Definition mobj_eqb (a b : mobj) : bool := Bool.eqb (misvar a) (misvar b) && list_eqb (list_eqb expr_eqb) (mrows a) (mrows b).
Definition err_eqb (a b : err) : bool :=
  match a, b with EDim, EDim | EWrongDim, EWrongDim | EInvalid, EInvalid | EIndex, EIndex | ESquare, ESquare => true | _, _ => false end.
(* expressions compared modulo the identity numbers of vector operands *)
Fixpoint strip (e : expr) {struct e} : expr :=
  match e with
  | Bin o l r => Bin o (strip l) (strip r)
  | Un o a => Un o (strip a)
  | VSum _ xs => VSum 0 xs
  | LinComb cs k es => LinComb cs (match k with KVar _ => KVar 0 | KExpr => KExpr end) (map strip es)
  | Dot kl ls kr rs => Dot (match kl with KVar _ => KVar 0 | KExpr => KExpr end) (map strip ls)
                           (match kr with KVar _ => KVar 0 | KExpr => KExpr end) (map strip rs)
  | L2n k es => L2n (match k with KVar _ => KVar 0 | KExpr => KExpr end) (map strip es)
  | L1n k es => L1n (match k with KVar _ => KVar 0 | KExpr => KExpr end) (map strip es)
  | QForm k es m => QForm (match k with KVar _ => KVar 0 | KExpr => KExpr end) (map strip es) m
  | VPowSum _ xs p => VPowSum 0 xs p
  | VUnSum _ xs o => VUnSum 0 xs o
  | VExprSum es => VExprSum (map strip es)
  | MSum b es => MSum b (map strip es)
  | Frob es => Frob (map strip es)
  | _ => e
  end.
Definition sv (v : vobj) : vobj := mkV (vk v) (map strip (vel v)).
Definition sm (m : mobj) : mobj := mkM (misvar m) (map (map strip) (mrows m)).
Definition res_eqb (a b : res) : bool :=
  match a, b with
  | RExpr x, RExpr y => expr_eqb (strip x) (strip y)
  | RVec x, RVec y => vobj_eqb (sv x) (sv y)
  | RMat x, RMat y => mobj_eqb (sm x) (sm y)
  | RErr x, RErr y => err_eqb x y
  | _, _ => false
  end.
"""
CHECKER = "fun k => res_eqb (fst k) (snd k)"
CASE_TYPE = "res * res"
ERR = {"DimensionMismatchError": "EDim", "WrongDimensionalityError": "EWrongDim", "InvalidOperationError": "EInvalid",
       "IndexError": "EIndex", "SquareMatrixError": "ESquare", "ValueError": "EInvalid", "EmptyContainerError": "EIndex"}
BOP = {"+": "Add", "-": "Sub", "*": "Mul", "/": "Div", "**": "Pow"}


class S2(ser.Ser):
    def vobj(self, v):
        from optyx.core import vectors as V
        if isinstance(v, V.VectorVariable):
            return f"(mkV (KVar {self.vid(v)}) {ser.lst(self.expr(e) for e in v._variables)})"
        if isinstance(v, V.VectorExpression):
            return f"(mkV KExpr {ser.lst(self.expr(e) for e in v._expressions)})"
        raise ser.Unsupported(type(v).__name__)

    def mobj(self, m):
        from optyx.core import matrices as M
        if isinstance(m, M.MatrixVariable):
            return f"(mkM true {ser.lst(ser.lst(self.expr(e) for e in row) for row in m._variables)})"
        if isinstance(m, M.MatrixExpression):
            return f"(mkM false {ser.lst(ser.lst(self.expr(e) for e in row) for row in m._expressions)})"
        raise ser.Unsupported(type(m).__name__)

    def res(self, r):
        from optyx.core import vectors as V, matrices as M
        from optyx.core.expressions import Expression
        if isinstance(r, (V.VectorVariable, V.VectorExpression)):
            return f"(RVec {self.vobj(r)})"
        if isinstance(r, (M.MatrixVariable, M.MatrixExpression)):
            return f"(RMat {self.mobj(r)})"
        if isinstance(r, Expression):
            return f"(RExpr {self.expr(r)})"
        raise ser.Unsupported(type(r).__name__)

    def arg(self, a):
        from optyx.core import vectors as V, matrices as M
        if isinstance(a, (int, float)) and not isinstance(a, bool):
            return f"(AScalar {ser.q(a)})"
        if isinstance(a, (V.VectorVariable, V.VectorExpression)):
            return f"(AVec {self.vobj(a)})"
        if isinstance(a, (M.MatrixVariable, M.MatrixExpression)):
            return f"(AMat {self.mobj(a)})"
        if isinstance(a, (list, np.ndarray)):
            arr = np.asarray(a)
            if arr.ndim == 1:
                return f"(AArr1 {ser.lst(ser.q(float(t)) for t in arr)})"
            if arr.ndim == 2:
                return f"(AArr2 {ser.lst(ser.lst(ser.q(float(t)) for t in row) for row in arr)})"
        return "AOther"


class Vals(dict):
    """Values for every variable name ever asked for (the generator may create fresh vectors on the fly)."""

    def __init__(self, rng):
        super().__init__()
        self._rng = rng

    def __contains__(self, k):
        return True

    def __missing__(self, k):
        v = self._rng.choice(common.NICE)
        self[k] = v
        return v


def oz(v):
    return "None" if v is None else f"(Some ({int(v)})%Z)"


def attempt(f):
    try:
        with warnings.catch_warnings():
            warnings.simplefilter("ignore")
            return ("ok", f())
    except Exception as ex:
        return ("err", ex)


def np_values(obj, vals):
    """Independent NumPy-side value of a vector / matrix operand: variables looked up, element trees evaluated one by one."""
    from optyx.core import vectors as V, matrices as M
    if isinstance(obj, V.VectorVariable):
        return np.array([vals[v.name] for v in obj._variables])
    if isinstance(obj, M.MatrixVariable):
        return np.array([[vals[v.name] for v in row] for row in obj._variables])
    with np.errstate(all="ignore"):
        if isinstance(obj, V.VectorExpression):
            return np.array([float(e.evaluate(vals)) for e in obj._expressions])
        if isinstance(obj, M.MatrixExpression):
            return np.array([[float(e.evaluate(vals)) for e in row] for row in obj._expressions])
    return None


def run(rep: vk.Report):
    vk.proof_stage(rep, "C11", extra_trusted=["Interval library enclosure (SemI.evalI_correct) for scalar results"])
    rng = common.rng_for(rep.seed, "C11")
    from optyx import VectorVariable, MatrixVariable
    from optyx.core.matrices import quadratic_form, frobenius_norm
    from optyx.core.vectors import norm as vnorm
    n = 260 if rep.tier == "quick" else 8000
    cases = Cases("api-ops", IMPORTS, CASE_TYPE, CHECKER, defs=DEFS)
    np_checks = np_bad = 0
    alias_checks = 0
    unsup_results = unsup_operands = 0
    ops_hist = {}
    nums, nmeta = [], []
    for i in range(n):
        r = random.Random(rng.random())
        g = gen.Gen(r, profile="smooth", pool=gen.Pool(r, with_matrices=True))
        pool = g.pool
        allv = pool.all_scalar_vars()
        vals = Vals(r)
        zero_mode = r.random()
        for v in allv:
            vals[v.name]
            # boundary values: now and then a whole model, or one whole vector, sits at the origin; single entries are 0 more often
            if zero_mode < 0.08 or (zero_mode < 0.2 and v.name.startswith(pool.vectors[0].name + "[")) or r.random() < 0.06:
                vals[v.name] = 0.0
        for trial in range(6):
            S = S2()
            x = g.view()                     # VectorVariable view (possibly of a matrix / transpose / symmetric)
            w = g.vec(depth=1)               # VectorVariable or VectorExpression
            M = r.choice(pool.matrices)
            if r.random() < 0.3:
                M = M.T
            if r.random() < 0.3 and M.rows >= 2 and M.cols >= 2:
                # operations compose: a sub-block (principal, off-diagonal, non-square) of a matrix / transpose / symmetric matrix,
                # possibly transposed again, is an operand like any other
                r0 = r.randrange(M.rows - 1); r1 = r.randint(r0 + 1, M.rows)
                c0 = r.randrange(M.cols - 1); c1 = r.randint(c0 + 1, M.cols)
                try:
                    B = M[r0:r1, c0:c1]
                    if hasattr(B, "rows"):
                        # every construction step is itself a case: the block against m_sub, its transpose against m_T
                        cases.add(f"(m_sub {S.mobj(M)} {oz(r0)} {oz(r1)} None {oz(c0)} {oz(c1)} None, {S.res(B)})",
                                  {"op": "m_sub(step)", "python": "ok"}, kinds={"m_sub", "step"})
                        if r.random() < 0.5:
                            BT = B.T
                            cases.add(f"(m_T {S.mobj(B)}, {S.res(BT)})", {"op": "T(step)", "python": "ok"}, kinds={"T", "step"})
                            ref_T = np_values(B, vals).T
                            got_T = np_values(BT, vals)
                            np_checks += 1
                            if got_T.shape != ref_T.shape or not np.array_equal(got_T, ref_T):
                                np_bad += 1
                                rep.violation({"kind": "numpy", "obligation": "built object evaluates to the NumPy operation on the values",
                                               "witness": {"op": "transpose of a sub-block", "of": M.name, "block": [r0, r1, c0, c1],
                                                           "got": got_T.tolist(), "numpy": ref_T.tolist()}}, concrete=True)
                            M = BT
                        else:
                            M = B
                        ops_hist["operand:sub-block"] = ops_hist.get("operand:sub-block", 0) + 1
                except (IndexError, ser.Unsupported):
                    pass
            nx = x.size
            op = r.choice(["getitem", "slice", "binop", "rbinop", "neg", "sum", "dot", "dot_windows", "dot_matvec", "matmul", "rmatmul", "norm",
                           "quad", "m_getitem", "m_row", "m_col", "m_sub", "T", "diagonal", "trace", "m_binop", "m_rbinop",
                           "m_neg", "m_sum", "frob", "m_matvec", "radd"])
            ops_hist[op] = ops_hist.get(op, 0) + 1
            np_ref = None
            try:
                if op == "getitem":
                    k = r.randint(-nx - 1, nx)
                    model = f"v_getitem {S.vobj(w)} ({k})%Z"; py = attempt(lambda: w[k])
                elif op == "slice":
                    a, b, c = r.choice([None, 0, 1, -1, 2, -3, 5]), r.choice([None, 0, 1, 2, 3, -1, 7]), r.choice([None, 1, 2, -1, -2, 0, 3])
                    model = f"v_slice {S.vobj(x)} {oz(a)} {oz(b)} {oz(c)}"; py = attempt(lambda: x[slice(a, b, c)])
                    if py[0] == "ok":
                        np_ref = (py[1], np_values(x, vals)[slice(a, b, c)])
                elif op in ("binop", "rbinop", "radd"):
                    o = r.choice(["+", "-", "*", "/"]) if op == "binop" else r.choice(["-", "/"]) if op == "rbinop" else r.choice(["+", "*"])
                    right = r.choice([2, 0.5, -1.0, g.vec(w.size, 0), g.vec(None, 0), list(g.coeffs(w.size)), g.coeffs(w.size + 1),
                                      np.ones((w.size, 2)), "str"]) if op == "binop" else \
                        r.choice([3, 1.5, g.coeffs(w.size), list(g.coeffs(w.size)), g.coeffs(w.size + 1), np.ones((2, w.size))])
                    import operator
                    fn = {"+": operator.add, "-": operator.sub, "*": operator.mul, "/": operator.truediv}[o]
                    if op == "binop":
                        model = f"v_binop {BOP[o]} {S.vobj(w)} {S.arg(right)}"; py = attempt(lambda: fn(w, right))
                    elif op == "radd":
                        model = f"v_binop {BOP[o]} {S.vobj(w)} {S.arg(right)}"; py = attempt(lambda: fn(right, w))
                    else:
                        model = f"v_rbinop {BOP[o]} {S.vobj(w)} {S.arg(right)}"; py = attempt(lambda: fn(right, w))
                    if py[0] == "ok" and not isinstance(right, str):
                        rv = np_values(right, vals) if hasattr(right, "size") and not isinstance(right, np.ndarray) else np.asarray(right, dtype=float)
                        with np.errstate(all="ignore"):
                            np_ref = (py[1], fn(np_values(w, vals), rv) if op == "binop" else fn(rv, np_values(w, vals)))
                elif op == "neg":
                    model = f"v_neg {S.vobj(w)}"; py = attempt(lambda: -w)
                    if py[0] == "ok":
                        np_ref = (py[1], -np_values(w, vals))
                elif op == "sum":
                    model = f"v_sum {S.vobj(w)}"; py = attempt(lambda: w.sum())
                    if py[0] == "ok":
                        np_ref = (py[1], np.sum(np_values(w, vals)))
                elif op == "dot":
                    other = r.choice([g.vec(w.size, 1), g.vec(None, 0)])
                    if type(other).__name__ == "MatrixVectorProduct" and hasattr(w, "_variables"):
                        # x.dot(A @ y) with the product built beforehand: the API looks through the product object (v_dot_matvec)
                        A_ = np.asarray(other.matrix, dtype=float)
                        model = (f"v_dot_matvec {S.vobj(w)} {ser.lst(ser.lst(ser.q(float(t)) for t in row) for row in A_)} "
                                 f"{S.vobj(other.vector)}")
                    else:
                        model = f"v_dot {S.vobj(w)} {S.vobj(other)}"
                    py = attempt(lambda: w.dot(other))
                    if py[0] == "ok":
                        np_ref = (py[1], np.dot(np_values(w, vals), np_values(other, vals)))
                elif op == "dot_windows":
                    # two DIFFERENT views of one parent whose generated names and lengths coincide (windows of a row / column, a slice
                    # and its reversal, strided slices with equal bounds): the product is over the elements, not over the names
                    cands = []
                    for vv in pool.vectors:
                        n_ = vv.size
                        if n_ >= 2:
                            cands += [(vv[:], vv[::-1]), (vv[0:n_], vv[::-1]), (vv[0:n_ - 1], vv[1:n_])]
                        if n_ >= 4:
                            cands += [(vv[0:4:2], vv[0:4:3])]
                    for mm in pool.matrices:
                        if mm.cols >= 3:
                            cands += [(mm[0, 0:2], mm[0, 1:3]), (mm[mm.rows - 1, 0:mm.cols - 1], mm[mm.rows - 1, 1:mm.cols])]
                        if mm.rows >= 3:
                            cands += [(mm[0:2, 0], mm[1:3, 0])]
                    if not cands:
                        continue
                    ua, ub = r.choice(cands)
                    if r.random() < 0.5:
                        ua, ub = ub, ua
                    model = f"v_dot {S.vobj(ua)} {S.vobj(ub)}"
                    py = attempt(lambda: ua.dot(ub) if r.random() < 0.7 else ua @ ub)
                    if py[0] == "ok":
                        np_ref = (py[1], np.dot(np_values(ua, vals), np_values(ub, vals)))
                elif op == "dot_matvec":
                    y = r.choice([x, x[0:nx], x[::-1], x[::-1], g.view()])
                    rows_ = r.choice([nx, nx, y.size])
                    A = (g.matrix_asym(nx) if (rows_ == nx and y.size == nx and r.random() < 0.6) else
                         np.array([[float(r.choice([0, 1, 2, -1])) for _ in range(y.size)] for _ in range(rows_)]))
                    model = f"v_dot_matvec {S.vobj(x)} {ser.lst(ser.lst(ser.q(float(t)) for t in row) for row in A)} {S.vobj(y)}"
                    py = attempt(lambda: x.dot(A @ y))
                    if py[0] == "ok":
                        np_ref = (py[1], np.dot(np_values(x, vals), A @ np_values(y, vals)))
                elif op in ("matmul", "rmatmul"):
                    right = r.choice([g.coeffs(w.size), g.coeffs(w.size + 1), list(g.coeffs(w.size)), np.ones((2, w.size)), np.ones((w.size, 2))])
                    if op == "matmul":
                        right = r.choice([right, g.vec(w.size, 0)])
                        model = f"v_matmul {S.vobj(w)} {S.arg(right)}"; py = attempt(lambda: w @ right)
                        if py[0] == "ok":
                            rv = np_values(right, vals) if hasattr(right, "_variables") or hasattr(right, "_expressions") else np.asarray(right, dtype=float)
                            np_ref = (py[1], np_values(w, vals) @ rv)
                    else:
                        if not isinstance(right, np.ndarray):
                            right = np.asarray(right)
                        model = f"v_rmatmul {S.vobj(x)} {S.arg(right)}"; py = attempt(lambda: right @ x)
                        if py[0] == "ok":
                            np_ref = (py[1], right @ np_values(x, vals))
                elif op == "norm":
                    o_ = r.choice([1, 2, 3])
                    model = f"v_norm {S.vobj(w)} ({o_})%Z"; py = attempt(lambda: vnorm(w, o_))
                    if py[0] == "ok":
                        np_ref = (py[1], np.linalg.norm(np_values(w, vals), o_))
                elif op == "quad":
                    Q = r.choice([g.matrix(w.size), g.matrix(w.size + 1), np.ones((w.size, w.size + 1))])
                    model = f"quad_form {S.vobj(w)} {ser.lst(ser.lst(ser.q(float(t)) for t in row) for row in Q)}"
                    py = attempt(lambda: quadratic_form(w, Q))
                    if py[0] == "ok":
                        np_ref = (py[1], np_values(w, vals) @ Q @ np_values(w, vals))
                elif op == "m_getitem":
                    a, b = r.randint(-M.rows - 1, M.rows), r.randint(-M.cols - 1, M.cols)
                    model = f"m_getitem {S.mobj(M)} ({a})%Z ({b})%Z"; py = attempt(lambda: M[a, b])
                elif op == "m_row":
                    a = r.randint(-M.rows, M.rows - 1); s_ = (r.choice([None, 0, 1]), r.choice([None, 1, 2, 5]), r.choice([None, 1, -1, 2]))
                    model = f"m_row {S.mobj(M)} ({a})%Z {oz(s_[0])} {oz(s_[1])} {oz(s_[2])}"; py = attempt(lambda: M[a, slice(*s_)])
                elif op == "m_col":
                    b = r.randint(-M.cols, M.cols - 1); s_ = (r.choice([None, 0, 1]), r.choice([None, 1, 2, 5]), r.choice([None, 1, -1, 2]))
                    model = f"m_col {S.mobj(M)} {oz(s_[0])} {oz(s_[1])} {oz(s_[2])} ({b})%Z"; py = attempt(lambda: M[slice(*s_), b])
                elif op == "m_sub":
                    s1 = (r.choice([None, 0, 1]), r.choice([None, 1, 2, 3]), r.choice([None, 1, 2]))
                    s2 = (r.choice([None, 0, 1]), r.choice([None, 1, 2, 3]), r.choice([None, 1, -1]))
                    model = f"m_sub {S.mobj(M)} {oz(s1[0])} {oz(s1[1])} {oz(s1[2])} {oz(s2[0])} {oz(s2[1])} {oz(s2[2])}"
                    py = attempt(lambda: M[slice(*s1), slice(*s2)])
                elif op == "T":
                    model = f"m_T {S.mobj(M)}"; py = attempt(lambda: M.T)
                    if py[0] == "ok":
                        np_ref = (py[1], np_values(M, vals).T)
                elif op == "diagonal":
                    model = f"m_diagonal {S.mobj(M)}"; py = attempt(lambda: M.diagonal())
                    if py[0] == "ok":
                        np_ref = (py[1], np.diagonal(np_values(M, vals)))
                elif op == "trace":
                    model = f"m_trace {S.mobj(M)}"; py = attempt(lambda: M.trace())
                    if py[0] == "ok":
                        np_ref = (py[1], np.trace(np_values(M, vals)))
                elif op in ("m_binop", "m_rbinop"):
                    o = r.choice(["+", "-", "*", "/"]) if op == "m_binop" else r.choice(["-", "/"])
                    import operator
                    fn = {"+": operator.add, "-": operator.sub, "*": operator.mul, "/": operator.truediv}[o]
                    # an array operand as a user may hold it: distinct, non-zero entries (no symmetry hides a misplaced element) in every
                    # memory layout - C, Fortran, transposed / reversed views, strided, integer
                    base_ = np.array([[1.5 + 3 * i_ - 2 * j_ + ((i_ * j_) % 3) for j_ in range(M.cols)] for i_ in range(M.rows)])
                    marr = r.choice([base_, np.asfortranarray(base_), np.ascontiguousarray(base_.T).T, np.ascontiguousarray(base_[::-1])[::-1],
                                     np.ascontiguousarray(base_[:, ::-1])[:, ::-1], (base_ * 2).astype(np.int64), np.repeat(base_, 2, axis=1)[:, ::2],
                                     np.asfortranarray((base_ * 2).astype(np.int32)), base_.tolist()])
                    others = [2, 0.5, pool.matrices[1] if M is pool.matrices[0] else pool.matrices[0], np.ones((M.rows, M.cols)) * 2, marr, marr,
                              np.ones((M.rows + 1, M.cols)), (M * 2)]
                    right = r.choice(others if op == "m_binop" else [3, 1.5, np.ones((M.rows, M.cols)) * 2, marr, marr, np.ones((M.rows, M.cols + 1))])
                    if op == "m_binop":
                        model = f"m_binop {BOP[o]} {S.mobj(M)} {S.arg(right)}"; py = attempt(lambda: fn(M, right))
                    else:
                        # a nested Python LIST on the left of `-` is rejected loudly (InvalidOperationError) although `list + X`, `list * X`
                        # and `list / X` convert it: an API gap, not a violation (nothing is silently truncated); modelled as such
                        marg = "AOther" if (o == "-" and isinstance(right, list)) else S.arg(right)
                        model = f"m_rbinop {BOP[o]} {S.mobj(M)} {marg}"; py = attempt(lambda: fn(right, M))
                    if py[0] == "ok":
                        rv = np_values(right, vals) if hasattr(right, "rows") else np.asarray(right, dtype=float)
                        with np.errstate(all="ignore"):
                            try:
                                np_ref = (py[1], fn(np_values(M, vals), rv) if op == "m_binop" else fn(rv, np_values(M, vals)))
                            except ValueError as ex:
                                rep.violation({"kind": "numpy", "obligation": "operands NumPy cannot broadcast are rejected, not combined",
                                               "witness": {"op": op, "operator": o, "matrix": [M.name, M.rows, M.cols], "right_shape": list(np.shape(rv)),
                                                           "result": type(py[1]).__name__, "numpy_error": str(ex)}}, concrete=True)
                elif op == "m_neg":
                    model = f"m_neg {S.mobj(M)}"; py = attempt(lambda: -M)
                    if py[0] == "ok":
                        np_ref = (py[1], -np_values(M, vals))
                elif op == "m_sum":
                    model = f"m_sum {S.mobj(M)}"; py = attempt(lambda: M.sum())
                    if py[0] == "ok":
                        np_ref = (py[1], np.sum(np_values(M, vals)))
                elif op == "frob":
                    model = f"m_frob {S.mobj(M)}"; py = attempt(lambda: frobenius_norm(M))
                    if py[0] == "ok":
                        np_ref = (py[1], np.linalg.norm(np_values(M, vals), "fro"))
                else:
                    y = r.choice([g.vec(M.cols, 0), g.vec(None, 0)])
                    model = f"m_matvec {S.mobj(M)} {S.vobj(y)}"; py = attempt(lambda: M @ y)
                    if py[0] == "ok":
                        np_ref = (py[1], np_values(M, vals) @ np_values(y, vals))
                if py[0] == "ok":
                    try:
                        seen = S.res(py[1])
                    except ser.Unsupported as ex:
                        # the operands were expressible but the RESULT is not a vector / matrix / scalar tree over scalar constants
                        unsup_results += 1
                        rep.violation({"kind": "correspondence", "obligation": "an accepted operation returns a vector, matrix or scalar expression whose element trees are scalar",
                                       "witness": {"op": op, "model_call": model[:600], "result_type": type(py[1]).__name__, "reason": str(ex)[:200]}},
                                      concrete=True)
                        continue
                else:
                    seen = f"(RErr {ERR.get(type(py[1]).__name__, 'EInvalid')})" if type(py[1]).__name__ in ERR else None
                    if seen is None:
                        rep.violation({"kind": "exception", "obligation": "API operations raise only the documented error classes",
                                       "op": op, "error": repr(py[1])[:300]}, concrete=True)
                        continue
            except ser.Unsupported:
                unsup_operands += 1
                continue
            cases.add(f"({model}, {seen})", {"op": op, "python": "ok" if py[0] == "ok" else type(py[1]).__name__}, kinds={op, seen[:6]})
            # independent NumPy reference for value-level agreement
            if np_ref is not None:
                built, ref = np_ref
                ref = np.asarray(ref, dtype=float)
                with np.errstate(all="ignore"):
                    try:
                        got = np.array(built.evaluate(vals), dtype=float) if hasattr(built, "evaluate") else np_values(built, vals)
                    except (ZeroDivisionError, OverflowError, ValueError, TypeError):
                        got = None
                    if got is None:
                        got = np_values(built, vals)
                if not np.all(np.isfinite(ref)) or (got is not None and not np.all(np.isfinite(np.asarray(got, dtype=float)))):
                    continue          # a division by zero somewhere in the values: outside the domain
                np_checks += 1
                if got is None or np.asarray(got).shape != ref.shape or not np.allclose(got, ref, rtol=1e-9, atol=1e-12):
                    np_bad += 1
                    rep.violation({"kind": "numpy", "obligation": "built object evaluates to the NumPy operation on the values",
                                   "witness": {"op": op, "got": None if got is None else np.asarray(got).tolist(), "numpy": ref.tolist()}},
                                  concrete=True)
            # call history: a result handed out for one assignment of values must not change when the same built object is evaluated
            # again for another assignment (NumPy operations return fresh arrays)
            if py[0] == "ok" and hasattr(py[1], "evaluate"):
                try:
                    with np.errstate(all="ignore"):
                        first = py[1].evaluate(vals)
                        if isinstance(first, np.ndarray):
                            kept = np.array(first, copy=True)
                            vals2 = {k_: (v_ + 0.5 if isinstance(v_, float) else v_) for k_, v_ in dict(vals).items()}
                            second = py[1].evaluate(vals2)
                            alias_checks += 1
                            if not np.array_equal(np.asarray(first), kept, equal_nan=True):
                                rep.violation({"kind": "history", "obligation": "a result handed out earlier does not change when the same object is evaluated again",
                                               "witness": {"op": op, "model_call": model[:400], "first_result_then": kept.tolist(),
                                                           "first_result_after_second_call": np.asarray(first).tolist()}}, concrete=True)
                except (ZeroDivisionError, OverflowError, ValueError, TypeError, KeyError):
                    pass
            if py[0] == "ok" and op in ("sum", "dot", "dot_windows", "dot_matvec", "matmul", "norm", "quad", "trace", "m_sum", "frob", "rmatmul") \
                    and hasattr(py[1], "evaluate") and not hasattr(py[1], "_expressions"):
                with np.errstate(all="ignore"):
                    v_ = common.fval(py[1].evaluate(vals))
                if v_ is not None:
                    nums.append(f"(match {model} with RExpr e => e | _ => Const (QQ 0 1) end, {common.pts_term(dict(vals))}, [], [{ser.q(v_)}])")
                    nmeta.append({"op": op, "value": v_})
    # ---- exhaustive sweep: every sub-block of a plain 3x4 and a symmetric 4x4 matrix (and of their transposes), and its transpose
    sweep = 0
    for base in (MatrixVariable("P", 3, 4), MatrixVariable("Q", 4, 4, symmetric=True)):
        vals2 = Vals(random.Random(7))
        for M0 in (base, base.T):
            for r0 in range(M0.rows):
                for r1 in range(r0 + 1, M0.rows + 1):
                    for c0 in range(M0.cols):
                        for c1 in range(c0 + 1, M0.cols + 1):
                            S = S2()
                            B = M0[r0:r1, c0:c1]
                            if not hasattr(B, "rows"):
                                continue
                            BT = B.T
                            cases.add(f"(m_sub {S.mobj(M0)} {oz(r0)} {oz(r1)} None {oz(c0)} {oz(c1)} None, {S.res(B)})",
                                      {"op": "m_sub(sweep)", "python": "ok"}, kinds={"m_sub", "sweep"})
                            cases.add(f"(m_T {S.mobj(B)}, {S.res(BT)})", {"op": "T(sweep)", "python": "ok"}, kinds={"T", "sweep"})
                            sweep += 2
                            want = np_values(M0, vals2)[r0:r1, c0:c1]
                            # the scalar reductions of the block and of its transpose, evaluated, against NumPy on the block's values
                            reds = [("sum of sub-block", lambda: B.sum(), want.sum()), ("sum of transposed sub-block", lambda: BT.sum(), want.sum()),
                                    ("frobenius norm of sub-block", lambda: frobenius_norm(B), np.linalg.norm(want, "fro")),
                                    ("sum of 2*sub-block", lambda: (B * 2).sum(), 2 * want.sum())]
                            if B.rows == B.cols:
                                reds.append(("trace of sub-block", lambda: B.trace(), np.trace(want)))
                            for what, build_, ref_ in reds:
                                try:
                                    got_ = float(build_().evaluate(vals2))
                                except Exception as ex:
                                    got_ = repr(ex)[:80]
                                np_checks += 1
                                if not isinstance(got_, float) or abs(got_ - ref_) > 1e-9 * max(1.0, abs(ref_)):
                                    np_bad += 1
                                    rep.violation({"kind": "numpy", "obligation": "built object evaluates to the NumPy operation on the values",
                                                   "witness": {"op": what, "of": M0.name, "symmetric": bool(base.symmetric), "block": [r0, r1, c0, c1],
                                                               "got": got_, "numpy": float(ref_)}}, concrete=True)
                            for what, obj, ref in (("sub-block", B, want), ("transpose of sub-block", BT, want.T),
                                                   ("sum of transposed sub-block rows", None, None)):
                                if obj is None:
                                    continue
                                got = np_values(obj, vals2)
                                np_checks += 1
                                if got.shape != ref.shape or not np.array_equal(got, ref):
                                    np_bad += 1
                                    rep.violation({"kind": "numpy", "obligation": "built object evaluates to the NumPy operation on the values",
                                                   "witness": {"op": what, "of": M0.name, "symmetric": bool(base.symmetric), "block": [r0, r1, c0, c1],
                                                               "got": got.tolist(), "numpy": ref.tolist()}}, concrete=True)
    ops_hist["sweep:sub-blocks"] = sweep
    # ---- boundary values: every scalar-valued reduction at the origin, at coincident points, on an all-zero block, at huge and tiny entries
    bsweep = 0
    for nsz in range(1, 5):
        xb, yb = VectorVariable("xb", nsz), VectorVariable("yb", nsz)
        Mb = MatrixVariable("Mb", nsz, nsz)
        settings = {"origin": lambda nm, k: 0.0, "coincident": lambda nm, k: 1.5 + k, "zero x, nonzero y": lambda nm, k: 0.0 if nm.startswith("xb") else 2.0 + k,
                    "huge": lambda nm, k: 1e150 * (k + 1), "tiny": lambda nm, k: 1e-170 * (k + 1)}
        for sname, fv in settings.items():
            valsb = {}
            for k in range(nsz):
                valsb[f"xb[{k}]"] = fv("xb", k); valsb[f"yb[{k}]"] = fv("yb", k)
                for k2 in range(nsz):
                    valsb[f"Mb[{k},{k2}]"] = fv("Mb", k + k2)
            X_, Y_ = np.array([valsb[f"xb[{k}]"] for k in range(nsz)]), np.array([valsb[f"yb[{k}]"] for k in range(nsz)])
            Mv = np.array([[valsb[f"Mb[{a},{b}]"] for b in range(nsz)] for a in range(nsz)])
            recipes = [("norm(x)", lambda: vnorm(xb), np.linalg.norm(X_)), ("norm(x - y)", lambda: vnorm(xb - yb), np.linalg.norm(X_ - Y_)),
                       ("norm(x, 1)", lambda: vnorm(xb, 1), np.linalg.norm(X_, 1)), ("x.dot(x)", lambda: xb.dot(xb), X_ @ X_),
                       ("x.sum()", lambda: xb.sum(), X_.sum()), ("frobenius_norm(M)", lambda: frobenius_norm(Mb), np.linalg.norm(Mv, "fro")),
                       ("trace(M)", lambda: Mb.trace(), np.trace(Mv)), ("norm(x[:k])", lambda: vnorm(xb[0:max(1, nsz - 1)]), np.linalg.norm(X_[0:max(1, nsz - 1)])),
                       ("(x - y).dot(x - y)", lambda: (xb - yb).dot(xb - yb), (X_ - Y_) @ (X_ - Y_))]
            for rname, build, ref in recipes:
                with np.errstate(all="ignore"):
                    try:
                        got = float(build().evaluate(valsb))
                    except Exception as ex:
                        got = repr(ex)[:80]
                bsweep += 1
                ok_ = isinstance(got, float) and ((np.isfinite(ref) and np.isfinite(got) and abs(got - ref) <= 1e-9 * max(abs(ref), 1e-300))
                                                   or (got == ref) or (not np.isfinite(ref)))
                if not ok_:
                    np_bad += 1
                    rep.violation({"kind": "numpy", "obligation": "built object evaluates to the NumPy operation on the values (boundary values included)",
                                   "witness": {"op": rname, "size": nsz, "values": sname, "got": got, "numpy": float(ref)}}, concrete=True)
    ops_hist["sweep:boundary-values"] = bsweep
    fails = cases.run(shard=200)
    for i in fails:
        model = cases.model_answer(i, lambda t: "fst " + t)
        rep.violation({"kind": "correspondence", "obligation": "object built by the API (or error class) = model (VecMat.v)",
                       "case": cases.terms[i][:5000], "meta": cases.meta[i], "model": model, "witness": cases.meta[i]}, concrete=True)
    nfails, nund = common.run_classify("VecMat SemI HarnessI", DEFS, common.NUM_TYPE, nums, common.NUM_CHECKER) if nums else ([], [])
    for i in nfails:
        rep.violation({"kind": "numeric", "obligation": "scalar result within the enclosure of the model tree", "case": nums[i][:3000],
                       "witness": nmeta[i]}, concrete=True)
    cov = rep.coverage
    cov["results_kept_across_a_second_evaluation"] = alias_checks
    cov["evaluations"] = len(cases.terms) + len(nums) + np_checks
    cov["distinct_nontrivial"] = cases.nontrivial
    cov["rule"] = ("26 API operations applied to operands obtained from random recipes (views of vectors and matrices incl. transposes, "
                   "symmetric matrices, slices with positive / negative steps, element-wise expressions), with matching and mismatching "
                   "shapes and operand kinds; built object or error class compared exactly with the model; distinct = distinct (model "
                   "call, result) pair; non-trivial = all")
    cov["samples"] = [c[:400] for c in cases.terms[:4]]
    cov["operation_histogram"] = dict(sorted(ops_hist.items()))
    cov["error_results"] = sum(1 for m in cases.meta if m["python"] != "ok")
    cov["operands_outside_serialiser"] = unsup_operands
    cov["results_outside_serialiser"] = unsup_results
    cov["numpy_reference_checks"] = np_checks
    cov["numpy_reference_failures"] = np_bad
    cov["scalar_enclosure_checks"] = len(nums)
    cov["correspondence_failures"] = len(fails) + len(nfails) + np_bad
    cov["traces_validated_against_impl"] = len(cases.terms)
    rep.assumptions += ["array-valued nodes (x ** k and sin(x) on a VectorVariable before .sum()) are covered through their reductions only",
                        "vector identity numbers are ignored when comparing built objects (a view is a new object over shared elements)"]


def replay(rep, path):
    import json
    print(json.dumps(json.load(open(path)), indent=1)[:6000])
    return 0
