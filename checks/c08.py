"""C08 - linear problems are solved to the true LP optimum with the true status.

Proof: Props/C08.v - the extracted data denote the user's objective and feasible set
       (C05), any two matrix forms denoting the same model have the same verdict and
       optimal value, maximise = minimise of the negation with the value flipped back
       and the constant added, the status is linprog's verdict through the generated
       chain, every LP method name routes to the LP wrapper, repeated solves hand over
       what a fresh extraction would (C13).  linprog itself is an oracle.
Tie:   (S) arguments captured at the linprog seam (c with its sign, A_ub, b_ub, A_eq,
       b_eq, bounds, method) must equal the model's; scripted results for the status
       map (exhaustive).
Search (the property's own differential): a reference LP assembled INDEPENDENTLY from
       evaluate() at the origin and the unit points, solved by real linprog with the
       same method; statuses must agree and objectives within 1e-7(1+|ref|); feasible,
       infeasible, unbounded and degenerate models, both orientations, five methods,
       every API writing style, each solved twice."""
from __future__ import annotations

import itertools
import random
import warnings
import numpy as np

import verifkit as vk
import gen
import ser
import stubs
from checks import common
from checks.common import Cases
from checks import c05

LEVEL = "proof"
IMPORTS = "Occ Degree Linear LinearProofs SolveWrap Vars Gen.GenTables"
DEFS = c05.DEFS + """
Definition bnd_eqb (a b : option Q * option Q) : bool := opt_eqb Qeq_bool (fst a) (fst b) && opt_eqb Qeq_bool (snd a) (snd b).
"""
SEAM_CHECKER = ("fun k => match k with (V, obj, mx, cs, (c, aub, bub, aeq, beq), bnds, declared) => "
                "let d := extract_lp V obj mx cs in list_eqb String.eqb (problem_variables (Some obj) (map fst cs)) V && "
                "list_eqb Qeq_bool (linprog_c d) c && qrows_eqb (lp_Aub d) aub && list_eqb Qeq_bool (lp_bub d) bub "
                "&& qrows_eqb (lp_Aeq d) aeq && list_eqb Qeq_bool (lp_beq d) beq && list_eqb bnd_eqb bnds declared end")
SEAM_TYPE = ("list string * expr * bool * list (expr * sense) * (list Q * list (list Q) * list Q * list (list Q) * list Q) * "
             "list (option Q * option Q) * list (option Q * option Q)")
STATUS_CHECKER = ("fun k => match k with (mx, c0, V, r, (st, ob, nvals)) => "
                  "let out := post_linprog gen_lp_chain gen_lp_default mx c0 V r in "
                  "status_eqb (o_status out) st && opt_eqb Qeq_bool (o_objective out) ob && Nat.eqb (List.length (o_values out)) nvals end")
STATUS_TYPE = "bool * Q * list string * mresult * (status * option Q * nat)"
LP_METHODS = ["auto", "linprog", "highs", "highs-ds", "highs-ipm"]


def lin_of(e, V):
    """(row, constant) of an affine expression, from evaluate() only (never from optyx's extraction)."""
    n = len(V)
    zero = {v.name: 0.0 for v in V}
    c0 = float(e.evaluate(zero))
    row = np.zeros(n)
    for j, v in enumerate(V):
        pt = dict(zero); pt[v.name] = 1.0
        row[j] = float(e.evaluate(pt)) - c0
    return row, c0


class RefLP:
    """The user's model as the harness understands it.  Every objective / constraint is read ONCE, by
    evaluate(), at the moment it is handed to the Problem - before any solve can have touched it - and
    kept as (name -> coefficient) so that later changes of the variable list do not matter."""

    def __init__(self):
        self.obj = None
        self.mx = False
        self.rows = []

    @staticmethod
    def _read(e):
        vs = sorted(e.get_variables(), key=lambda v: common.natkey(v.name))
        row, c0 = lin_of(e, vs)
        return {v.name: float(row[i]) for i, v in enumerate(vs)}, c0

    def objective(self, e, mx):
        self.obj, self.mx = self._read(e), mx

    def sense(self, mx):
        self.mx = mx

    def constraint(self, con):
        self.rows.append((self._read(con.expr), con.sense))

    def matrices(self, V):
        idx = {v.name: j for j, v in enumerate(V)}
        def dense(coefs):
            row = np.zeros(len(V))
            for nme, c in coefs.items():
                row[idx[nme]] = c
            return row
        c, c0 = dense(self.obj[0]), self.obj[1]
        Aub, bub, Aeq, beq = [], [], [], []
        for (coefs, k), sense in self.rows:
            row = dense(coefs)
            if sense == "<=":
                Aub.append(row); bub.append(-k)
            elif sense == ">=":
                Aub.append(-row); bub.append(k)
            else:
                Aeq.append(row); beq.append(-k)
        bounds = [(v.lb, v.ub) for v in V]
        return c, c0, (np.array(Aub) if Aub else None), (np.array(bub) if bub else None), \
            (np.array(Aeq) if Aeq else None), (np.array(beq) if beq else None), bounds


def vec_views(x, r):
    """Views covering the whole vector in and out of order, and partial ones."""
    n = x.size
    vs = [x, x[:], x[::-1], x[::-1], x[0:n]]
    if n >= 2:
        vs += [x[0:n - 1], x[1:n], x[::2]]
    return vs


def gen_lp(g: gen.Gen, r, kind):
    """Returns (P, mx, ref, arrays): arrays are the user's NumPy coefficient arrays with pristine copies."""
    from optyx import Problem
    x = g.pool.vectors[0]
    for v in x:
        v.lb, v.ub = None, None
    extra = g.pool.scalars[0]
    extra.lb, extra.ub = 0.0, 5.0
    with_extra = r.random() < 0.5          # without it the vector covers ALL problem variables (O(1) extraction paths)
    ex = (lambda k=1: extra * k) if with_extra else (lambda k=1: 0)
    n = x.size
    arrays = []
    def arr(m):
        k_ = r.random()
        if k_ < 0.7:
            a = np.array([float(r.choice([1, 2, -1, 3, 0.5, -2.5])) + 0.25 * j for j in range(m)])
        elif k_ < 0.82:
            a = np.array([r.choice([1, 2, -1, 3, -2]) + j for j in range(m)], dtype=r.choice([np.int64, np.int32]))
        elif k_ < 0.94:
            a = np.array([r.choice([1, 2, 3, 5]) + j for j in range(m)], dtype=r.choice([np.uint8, np.uint16, np.uint32]))   # unsigned: -a wraps
        else:
            a = np.array([float(r.choice([1, 2, -1, 3])) + 0.5 * j for j in range(m)])[::-1]
        arrays.append((a, a.copy()))
        return a
    style = r.randrange(10)
    if style >= 8:
        # the objective is EXACTLY a weighted sum over a view that skips elements (every other one, a reversed stretch) while the
        # skipped elements occur in the constraints: nothing but `c @ view`, no offset, no other term
        w = r.choice([x[::2], x[1::2] if n >= 2 else x[::2], x[::-1], x[0:n:3] if n >= 3 else x[::2], x[n - 1::-2]])
        obj = r.choice([lambda: arr(w.size) @ w, lambda: w @ arr(w.size)])()
    elif style >= 6:
        # the constant written FIRST ("budget - cost @ x"), as the outermost node when no scalar term follows
        k0 = r.choice([10, 2.5, -4, 100])
        w = x if style == 6 else r.choice(vec_views(x, r))
        obj = r.choice([lambda: k0 - arr(w.size) @ w, lambda: k0 + arr(w.size) @ w, lambda: k0 - w.sum(), lambda: k0 + w.sum(),
                        lambda: k0 - w @ arr(w.size), lambda: gen.Constant(k0) - arr(w.size) @ w, lambda: k0 - 2 * w.sum()])()
        if with_extra:
            obj = obj + ex()
    elif style == 0:
        obj = arr(n) @ x + ex(r.choice([1, -2])) + r.choice([0, 5, -1.5])
    elif style == 1:
        cv = arr(n)
        obj = sum((float(cv[i]) * x[i] for i in range(1, n)), float(cv[0]) * x[0]) + ex() + r.choice([0, 2.5])
    elif style == 2:
        obj = arr(n) @ (x + 1) + (ex() + 2) ** 1
    elif style == 3:
        obj = (2 + gen.Constant(1)) * x.sum() - ex() / 2 + 4
    elif style == 4:
        w = r.choice(vec_views(x, r))
        obj = arr(w.size) @ w + r.choice([0, 3.5]) + ex()
    else:
        w = x[::-1]
        obj = w @ arr(n) - 2 + ex()
    if r.random() < 0.3:
        # a weighted sum over a vector EXPRESSION, sitting where the enclosing expression scales or negates it
        y2 = g.pool.vectors[-1]
        wexp = (x - 1) if y2 is x or y2.size != n else (x + y2)
        obj = r.choice([lambda: obj - arr(n) @ wexp, lambda: 0.5 * (arr(n) @ wexp) + obj, lambda: -(arr(n) @ wexp) + 2 * obj,
                        lambda: 12 - arr(n) @ wexp + obj])()
    if r.random() < 0.3:
        # a binary / integer variable (solved as its relaxation) whose bounds were edited after construction: fixed to a branch,
        # narrowed, or left alone - the relaxation is over the bounds as they stand
        flag = gen.Variable(r.choice(["flag", "b_on", "zz_bin", "A0"]), domain=r.choice(["binary", "binary", "integer"]))
        if flag.lb is None:
            flag.lb, flag.ub = 0.0, 3.0
        how = r.randrange(5)
        if how == 1:
            flag.ub = 0
        elif how == 2:
            flag.lb = 1
        elif how == 3:
            flag.lb, flag.ub = 0.25, 0.75
        elif how == 4:
            flag.lb, flag.ub = 1, 1
        obj = obj + r.choice([2.5, -1.5, 4.0]) * flag
    mx = r.random() < 0.5
    P = Problem()
    ref = RefLP()
    ref.objective(obj, mx)
    (P.maximize if mx else P.minimize)(obj)
    def add(c):
        for one in (c if isinstance(c, list) else [c]):
            ref.constraint(one)
        P.subject_to(c)
    if kind in ("bounded", "degenerate"):
        add(x >= r.choice([0, -1]))
        add(x <= r.choice([3, 4]))
        add(x.sum() + ex() <= 6)
        w = r.choice(vec_views(x, r))
        cw = arr(w.size)
        add(r.choice([lambda: cw @ w <= 7.5, lambda: cw @ w >= -9.25, lambda: (w @ cw) >= -8, lambda: cw @ w + 1 <= 9,
                      lambda: 12 - cw @ (w + 1) <= 40, lambda: 30 - 2 * (cw @ (w - 1)) >= 0,
                      lambda: 20 - cw @ w >= -4, lambda: 9 - w.sum() >= -6, lambda: 1 + cw @ w <= 30]) ())
        if kind == "degenerate":
            add(x.sum() + ex() <= 6)          # duplicated row
            add((x[0] + ex()).eq(2))
    elif kind == "infeasible":
        add(x.sum() >= 5)
        add(x.sum() <= 1)
        add(x >= 0)
    elif kind == "infeasible_bounds":
        x[0].lb, x[0].ub = 2.0, 3.0
        add(x[0] <= 1)
    elif kind == "infeasible_zero_row":
        # a row whose coefficients cancel: 0 >= 1 (false) next to 0 <= 1 (true) in an otherwise bounded model
        add(x >= 0)
        add(x <= 3)
        z = np.zeros(n)
        add(r.choice([lambda: z @ x >= 1, lambda: x[0] - x[0] >= 1, lambda: (x.sum() - x.sum()).eq(2), lambda: z @ x + 3 <= 1])())
        add(z @ x <= 1)
    elif kind == "free_variables_rows_only":
        # NO variable of the model carries a bound: the box is written as rows, and the optimum sits at negative values
        extra.lb, extra.ub = None, None
        add(x >= -2)
        add(x <= 1.5)
        if with_extra:
            add(extra >= -3)
            add(extra <= 2)
        add(x.sum() + ex() >= -50)
    else:  # unbounded: a free direction that improves the objective
        add(x.sum() <= 10 if mx else x.sum() >= -10)
    return P, mx, ref, arrays


def history_op(P, ref, g, r, arrays):
    """One user-level edit between solves; the reference is edited alongside (new pieces are read before any solve)."""
    x = g.pool.vectors[0]
    n = x.size
    def arr(m):
        a = np.array([float(r.choice([1, 2, -1, 3, 0.5])) + 0.5 * j for j in range(m)])
        arrays.append((a, a.copy()))
        return a
    k = r.randrange(6)
    if k == 0:
        w = r.choice(vec_views(x, r))
        c = arr(w.size) @ w >= r.choice([-6.5, -3])
        ref.constraint(c); P.subject_to(c)
        return "subject_to(w@view >= k)"
    if k == 1:
        c = x.sum() <= r.choice([5, 4.5])
        ref.constraint(c); P.subject_to(c)
        return "subject_to(sum <= k)"
    if k == 2:
        obj = P.objective                 # the SAME object, other orientation
        ref.sense(not ref.mx)
        (P.maximize if ref.mx else P.minimize)(obj)
        return "flip sense, same objective object"
    if k == 3:
        w = r.choice(vec_views(x, r))
        obj = arr(w.size) @ w + r.choice([0, 1.5])
        ref.objective(obj, ref.mx)
        (P.maximize if ref.mx else P.minimize)(obj)
        return "new objective"
    if k == 4:
        v = x[r.randrange(n)]
        v.lb, v.ub = r.choice([(0.5, 2.0), (None, 2.5), (-1.0, None), (1.0, 1.0)])
        return "bounds edit"
    cs = [x[i] <= 2.75 for i in range(n)]
    for c in cs:
        ref.constraint(c)
    P.subject_to(cs)
    return "subject_to(list)"


def run(rep: vk.Report):
    vk.proof_stage(rep, "C08")
    rng = common.rng_for(rep.seed, "C08")
    from scipy.optimize import linprog as sp_linprog
    from optyx.solution import SolverStatus
    from optyx.analysis import is_linear
    from optyx import Variable, Problem
    NAME = {SolverStatus.OPTIMAL: "OPTIMAL", SolverStatus.INFEASIBLE: "INFEASIBLE", SolverStatus.UNBOUNDED: "UNBOUNDED",
            SolverStatus.MAX_ITERATIONS: "MAX_ITERATIONS", SolverStatus.FAILED: "FAILED"}
    REF = {0: "OPTIMAL", 1: "MAX_ITERATIONS", 2: "INFEASIBLE", 3: "UNBOUNDED", 4: "FAILED"}
    n = 220 if rep.tier == "quick" else 3000
    seam = Cases("linprog-seam", IMPORTS, SEAM_TYPE, SEAM_CHECKER, defs=DEFS)
    diffs = 0
    solved = 0
    verdicts = {}
    keep = []
    histories = {}
    for i in range(n):
        r = random.Random(rng.random())
        g = gen.Gen(r, profile="poly", pool=gen.Pool(r, with_matrices=False))
        kind = r.choice(["bounded", "bounded", "degenerate", "infeasible", "infeasible_bounds", "infeasible_zero_row", "unbounded",
                         "free_variables_rows_only"])
        P, mx, ref0, arrays = gen_lp(g, r, kind)
        if not (is_linear(P.objective) and all(is_linear(c.expr) for c in P.constraints)):
            continue
        meth = r.choice(LP_METHODS)
        # (S) seam arguments under a stub
        with stubs.Seams() as S, warnings.catch_warnings():
            warnings.simplefilter("ignore")
            P.solve(method=meth)
        call = S.linprog_calls[0]
        Ss = ser.Ser()
        try:
            tobj = Ss.expr(P.objective)
            tcons = [f"({Ss.expr(c.expr)}, {c05.SENSE[c.sense]})" for c in P.constraints]
        except ser.Unsupported:
            continue
        ql = lambda arr: ser.lst(ser.q(float(v)) for v in arr) if arr is not None else "[]"
        qm = lambda M: ser.lst(ql(row) for row in M) if M is not None else "[]"
        oq = lambda b: "None" if b is None else f"(Some {ser.q(float(b))})"
        V = [v.name for v in P.variables]
        seam.add(f"({ser.lst(ser.s(nm) for nm in V)}, {tobj}, {'true' if mx else 'false'}, {ser.lst(tcons)}, "
                 f"({ql(call['c'])}, {qm(call['A_ub'])}, {ql(call['b_ub'])}, {qm(call['A_eq'])}, {ql(call['b_eq'])}), "
                 f"{ser.lst('(' + oq(b[0]) + ', ' + oq(b[1]) + ')' for b in (call['bounds'] or []))}, "
                 f"{ser.lst('(' + oq(v.lb) + ', ' + oq(v.ub) + ')' for v in P.variables)})",
                 {"kind": kind, "method": meth, "maximize": mx}, kinds={kind, meth, "max" if mx else "min"})
        keep.append(P)
        # differential with the independently kept reference: solved twice, then a history of edits, re-solved after each
        def compare(tag, sol):
            nonlocal diffs, solved
            V_now = P.variables
            c, c0, Aub, bub, Aeq, beq, bounds = ref0.matrices(V_now)
            ref_method = "highs" if meth in ("auto", "linprog") else meth
            with warnings.catch_warnings():
                warnings.simplefilter("ignore")
                ref = sp_linprog(c=(-c if ref0.mx else c), A_ub=Aub, b_ub=bub, A_eq=Aeq, b_eq=beq, bounds=bounds, method=ref_method)
            ref_status = "OPTIMAL" if ref.success else REF.get(ref.status, "FAILED")
            ref_obj = None if ref.fun is None else (-float(ref.fun) if ref0.mx else float(ref.fun)) + c0
            solved += 1
            verdicts[NAME[sol.status]] = verdicts.get(NAME[sol.status], 0) + 1
            bad = NAME[sol.status] != ref_status
            if not bad and ref_status == "OPTIMAL":
                bad = sol.objective_value is None or abs(sol.objective_value - ref_obj) > 1e-7 * (1 + abs(ref_obj))
            if bad:
                diffs += 1
                rep.violation({"kind": "differential", "obligation": "same verdict and optimum as the independently assembled LP",
                               "witness": {"objective": repr(P.objective)[:400], "constraints": [repr(cn)[:200] for cn in P.constraints],
                                           "bounds": [(v.name, v.lb, v.ub) for v in P.variables], "maximize": ref0.mx, "method": meth,
                                           "history": list(hist), "at": tag, "optyx": [NAME[sol.status], sol.objective_value],
                                           "reference": [ref_status, ref_obj]}}, concrete=True)
            for a_now, a_orig in arrays:
                if not np.array_equal(a_now, a_orig):
                    diffs += 1
                    rep.violation({"kind": "differential", "obligation": "solving does not modify the user's coefficient arrays (the model stays the one written)",
                                   "witness": {"objective": repr(P.objective)[:300], "history": list(hist), "at": tag,
                                               "array_now": a_now.tolist(), "array_as_written": a_orig.tolist()}}, concrete=True)
                    a_now[:] = a_orig
        hist = []
        with warnings.catch_warnings():
            warnings.simplefilter("ignore")
            compare("solve 1", P.solve(method=meth))
            compare("solve 2", P.solve(method=meth))
            for step in range(r.randint(1, 3)):
                hist.append(history_op(P, ref0, g, r, arrays))
                histories[hist[-1]] = histories.get(hist[-1], 0) + 1
                if not (is_linear(P.objective) and all(is_linear(c.expr) for c in P.constraints)):
                    break
                compare(f"after edit {step + 1}", P.solve(method=meth))
            if P.constraints and r.random() < 0.5 and is_linear(P.objective) and all(is_linear(c.expr) for c in P.constraints):
                # a VARIANT of the model that shares the constraint OBJECTS with the problem just solved (scenario study): same number of
                # columns where possible - one objective-only variable replaced by a new one that sorts elsewhere - or one column more
                cons_objs = list(P.constraints)
                Vp = list(P.variables)
                cvn = set()
                for c_ in cons_objs:
                    cvn |= set(v.name for v in c_.get_variables())
                cand = [v for v in Vp[1:] if v.name not in cvn]
                drop = r.choice(cand) if cand and r.random() < 0.7 else None
                newv = gen.Variable(r.choice(["zz_new", "m_new", Vp[0].name + "_0new"]), lb=0.0, ub=2.0)
                obj2 = 1.5 * newv
                for j_, v in enumerate(Vp):
                    if v is not drop:
                        obj2 = obj2 + float((j_ % 3) + 1) * (0.5 if ref0.mx else 1.0) * v
                P2, ref2 = Problem(), RefLP()
                ref2.objective(obj2, ref0.mx)
                (P2.maximize if ref0.mx else P2.minimize)(obj2)
                for c_ in cons_objs:
                    ref2.constraint(c_)
                    P2.subject_to(c_)
                P, ref0 = P2, ref2
                hist.append("variant sharing the constraint objects" + (" (one column replaced)" if drop is not None else " (one column more)"))
                histories["variant"] = histories.get("variant", 0) + 1
                compare("variant solve 1", P.solve(method=meth))
                compare("variant solve 2", P.solve(method=meth))
    sfails = seam.run(shard=100)
    for i in sfails:
        wit = c05.point_identity_witness(keep[i], keep[i]._lp_cache, rng) if keep[i]._lp_cache is not None else None
        rep.violation({"kind": "correspondence", "obligation": "arguments at the linprog seam = model (extract_lp, linprog_c, current bounds)",
                       "case": seam.terms[i][:5000], "meta": seam.meta[i], "witness": wit}, concrete=wit is not None)
    # status map: exhaustive scripted results
    from optyx import Variable, Problem
    stat = Cases("lp-status", "SolveWrap Gen.GenTables", STATUS_TYPE, STATUS_CHECKER)
    for mx, st, xs, fs, meth in itertools.product([False, True], [0, 1, 2, 3, 4], [True, False], [True, False], LP_METHODS):
        a = Variable("a", lb=0, ub=4); b = Variable("b", lb=0, ub=4)
        P = Problem()
        (P.maximize if mx else P.minimize)(a + 2 * b + 5)
        res = stubs.mres(success=(st == 0), message="m", x=[1.0, 2.0] if xs else None, fun=(3.5 if fs else None), status=st)
        with stubs.Seams(linprog_script=[res]) as S, warnings.catch_warnings():
            warnings.simplefilter("ignore")
            sol = P.solve(method=meth)
        x = "None" if not xs else "(Some [QQ 1 1; QQ 2 1])"
        f = "None" if not fs else "(Some (QQ 7 2))"
        rt = (f"{{| r_success := {'true' if st == 0 else 'false'}; r_kws := []; r_status := {st}%Z; r_x := {x}; r_fun := {f} |}}")
        ob = "None" if sol.objective_value is None else f"(Some {ser.q(sol.objective_value)})"
        stat.add(f"({'true' if mx else 'false'}, QQ 5 1, [\"a\"; \"b\"], {rt}, ({NAME[sol.status]}, {ob}, {len(sol.values)}%nat))",
                 {"status": st, "maximize": mx, "method": meth, "x": xs, "fun": fs}, kinds={str(st), str(mx), meth, str(xs), str(fs)})
    stfails = stat.run()
    for i in stfails:
        rep.violation({"kind": "correspondence", "obligation": "linprog result mapping = model post_linprog", "case": stat.terms[i][:2000],
                       "meta": stat.meta[i], "witness": stat.meta[i]}, concrete=True)
    cov = rep.coverage
    cov["evaluations"] = len(seam.terms) + len(stat.terms) + solved
    cov["distinct_nontrivial"] = seam.nontrivial + stat.nontrivial
    cov["rule"] = ("generated LPs (bounded, degenerate, infeasible by rows, infeasible by bounds, unbounded) written in 4 API styles, both "
                   "orientations, 5 methods: seam arguments compared exactly with the model, every problem solved twice and compared with "
                   "real linprog on a matrix form kept independently (each objective/constraint read once by evaluate() when handed over), then "
                   "edited 1-3 times (constraints added singly / as lists / over permuted views, orientation flipped with the same objective "
                   "object, objective replaced, bounds edited) and re-solved after each edit; user coefficient arrays checked unmodified; status map enumerated exhaustively (200 scripted results)")
    cov["samples"] = [seam.terms[0][:500], stat.terms[7][:300]]
    cov["verdict_histogram"] = verdicts
    cov["history_edits"] = histories
    cov["differential_solves"] = solved
    cov["differential_disagreements"] = diffs
    cov["status_map_cases"] = len(stat.terms)
    cov["correspondence_failures"] = len(sfails) + len(stfails)
    cov["traces_validated_against_impl"] = len(seam.terms) + len(stat.terms)
    rep.assumptions += ["linprog (HiGHS) is an oracle: it returns the verdict and optimum of the LP it is given"]


def replay(rep, path):
    import json
    print(json.dumps(json.load(open(path)), indent=1)[:6000])
    return 0
