"""C10 - constraints mean the relation the user wrote, also inside the solver.

Proof: Props/C10.v (violation = amount by which the stated relation fails;
       satisfied <=> relation within tol; element-wise builders produce one constraint
       per element or reject; reflected comparisons denote the same relation; the
       function handed to SciPy is >= 0 (= 0) exactly on the feasible set and its
       Jacobian is the derivative of that function).
Tie:   (S) operand-kind product (Python / NumPy scalars, expressions, variables,
       vectors, arrays, lists, matrices; both positions; three senses; matching and
       mismatching shapes): resulting sense + tree per element, or the error class,
       must equal the model's; (I) Constraint.evaluate / violation / is_satisfied and
       the fun / jac of the SciPy dicts built by the wrapper must lie in the
       enclosure of the model's denotation with the model's sign."""
from __future__ import annotations

import itertools
import random
import warnings
import numpy as np

import verifkit as vk
import gen
import ser
import stubs
from checks import common
from checks.common import Cases

LEVEL = "proof"
IMPORTS = "Linear SolveWrap Constraint Autodiff Gen.GenTables"
DEFS = """
Inductive pybuild := PBuilt (cs : list (expr * sense)) | PDim | PWrongDim | PInvalid | POtherError.
Definition con_eqb (a b : expr * sense) : bool := expr_eqb (fst a) (fst b) && sense_eqb (snd a) (snd b).
Definition build_match (m : build_result (list (expr * sense))) (p : pybuild) : bool :=
  match m, p with
  | Built a, PBuilt b => list_eqb con_eqb a b
  | DimMismatch, PDim | WrongDim, PWrongDim | InvalidOp, PInvalid => true
  | _, _ => false
  end.
"""
SENSE = {"<=": "Le", ">=": "Ge", "==": "Eq"}
BUILD_CHECKER = ("fun k => match k with (ls, s, r, seen) => build_match (vector_constraint ls s r) seen end")
BUILD_TYPE = "list expr * sense * operand * pybuild"
SCALAR_CHECKER = ("fun k => match k with (lhs, s, rhs, flipped, seen) => "
                  "con_eqb (make_constraint lhs (if flipped then flip s else s) rhs) seen end")
SCALAR_TYPE = "expr * sense * expr * bool * (expr * sense)"


def apply_sense(a, sense, b):
    if sense == "<=":
        return a <= b
    if sense == ">=":
        return a >= b
    return a.eq(b)


def cons_term(S, cs):
    return ser.lst(f"({S.expr(c.expr)}, {SENSE[c.sense]})" for c in cs)


def classify_error(ex):
    n = type(ex).__name__
    return {"DimensionMismatchError": "PDim", "WrongDimensionalityError": "PWrongDim",
            "InvalidOperationError": "PInvalid"}.get(n, "POtherError")


def run(rep: vk.Report):
    vk.proof_stage(rep, "C10", extra_trusted=["Interval library enclosure (SemI.evalI_correct) for the numeric channel"])
    rng = common.rng_for(rep.seed, "C10")
    from optyx import Variable, VectorVariable, MatrixVariable, Constant, Problem
    from optyx.constraints import Constraint
    builds = Cases("vector-constraint", IMPORTS, BUILD_TYPE, BUILD_CHECKER, defs=DEFS)
    scalars = Cases("scalar-constraint", IMPORTS, SCALAR_TYPE, SCALAR_CHECKER, defs=DEFS)
    kinds_hist = {}
    # ---- (S1) scalar left operand x right operand kinds x position x sense
    x = Variable("x"); y = Variable("y")
    lhs_list = [x, x + 2 * y, x ** 2 - 1]
    rhs_list = [("int", 3), ("float", 2.5), ("np.float64", np.float64(1.5)), ("np.int64", np.int64(4)),
                ("0-d array", np.array(2.0)), ("Expression", y * 2), ("Variable", y), ("Constant", Constant(7))]
    for lhs, (kname, rhs), sense, reflected in itertools.product(lhs_list, rhs_list, ["<=", ">=", "=="], [False, True]):
        if reflected and (sense == "==" or kname in ("Expression", "Variable", "Constant")):
            continue
        S = ser.Ser()
        try:
            with warnings.catch_warnings():
                warnings.simplefilter("ignore")
                c = (rhs <= lhs if sense == "<=" else rhs >= lhs) if reflected else apply_sense(lhs, sense, rhs)
        except Exception as ex:
            rep.violation({"kind": "exception", "obligation": "scalar comparison builds a constraint", "rhs_kind": kname,
                           "reflected": reflected, "error": repr(ex)[:300]}, concrete=True)
            continue
        if isinstance(c, np.ndarray):
            c = c.item() if c.size == 1 else c
        if not isinstance(c, Constraint):
            rep.violation({"kind": "type", "obligation": "comparison yields a Constraint", "rhs_kind": kname, "reflected": reflected,
                           "got": type(c).__name__}, concrete=True)
            continue
        rhs_t = S.expr(rhs) if hasattr(rhs, "evaluate") else f"(Const {ser.q(rhs)})"
        scalars.add(f"({S.expr(lhs)}, {SENSE[sense]}, {rhs_t}, {'true' if reflected else 'false'}, ({S.expr(c.expr)}, {SENSE[c.sense]}))",
                    {"rhs_kind": kname, "sense": sense, "reflected": reflected}, kinds={kname, sense, str(reflected), repr(lhs)[:20]})
        kinds_hist[kname] = kinds_hist.get(kname, 0) + 1
    # ---- (S2) vector left operand x right operand kinds x shapes x sense
    for n, sense in itertools.product([1, 2, 3], ["<=", ">=", "=="]):
        v = VectorVariable("v", n); w = VectorVariable("w", n); w2 = VectorVariable("u", n + 1)
        lefts = [("VectorVariable", v), ("VectorExpression", v * 2 + 1), ("slice", VectorVariable("t", n + 2)[1:n + 1])]
        rights = [("int", 3), ("float", 0.5), ("VectorVariable", w), ("VectorExpression", w - 1), ("list", [float(i) for i in range(n)]),
                  ("1-d array", np.arange(n, dtype=float)), ("1-d array(reversed view)", (np.arange(n, dtype=float) * 1.5 + 0.25)[::-1]),
                  ("1-d array(strided view)", (np.arange(2 * n, dtype=float) - 1.5)[::2]), ("1-d array(int dtype)", np.arange(n) - 1),
                  ("list(int)", [i - 1 for i in range(n)]), ("VectorVariable(mismatch)", w2), ("VectorExpression(mismatch)", w2 * 2),
                  ("list(mismatch)", [1.0] * (n + 1)), ("1-d array(mismatch)", np.ones(n + 2)), ("2-d array", np.ones((n, 2))),
                  ("str", "oops"), ("np.float64", np.float64(2.0))]
        for (lname, left), (rname, right) in itertools.product(lefts, rights):
            S = ser.Ser()
            ls = ser.lst(S.expr(e) for e in (left._variables if hasattr(left, "_variables") else left._expressions))
            if isinstance(right, (int, float)) and not isinstance(right, np.floating):
                rt = f"(OScalar {ser.q(right)})"
            elif isinstance(right, np.floating):
                rt = "OOther"         # np.float64 is a float subclass in Python: see below
                rt = f"(OScalar {ser.q(float(right))})"
            elif hasattr(right, "_variables") or hasattr(right, "_expressions"):
                rt = f"(OVector {ser.lst(S.expr(e) for e in (right._variables if hasattr(right, '_variables') else right._expressions))})"
            elif isinstance(right, (list, np.ndarray)):
                arr = np.asarray(right)
                rt = f"(OVector {ser.lst('(Const ' + ser.q(float(a)) + ')' for a in arr)})" if arr.ndim == 1 else f"(ONd {arr.ndim})"
            else:
                rt = "OOther"
            try:
                cs = apply_sense(left, sense, right)
                seen = f"(PBuilt {cons_term(S, cs)})"
            except Exception as ex:
                seen = classify_error(ex)
            builds.add(f"({ls}, {SENSE[sense]}, {rt}, {seen})", {"left": lname, "right": rname, "n": n, "sense": sense, "seen": seen[:80]},
                       kinds={lname, rname, sense, f"n{n}"})
            kinds_hist[rname] = kinds_hist.get(rname, 0) + 1
    # matrices: element-wise, row-major
    M = MatrixVariable("M", 2, 2); N = MatrixVariable("N", 2, 2); N3 = MatrixVariable("K", 2, 3)
    Sy2 = MatrixVariable("S", 2, 2, symmetric=True); Sy3 = MatrixVariable("T", 3, 3, symmetric=True)
    mat_cases = 0
    def flat(m):
        return [m[i, j] for i in range(m.rows) for j in range(m.cols)] if hasattr(m, "rows") and not hasattr(m, "flatten") else list(m.flatten())
    lefts = [("MatrixVariable", M), ("symmetric 2x2", Sy2), ("symmetric 3x3", Sy3), ("transpose view", N3.T), ("non-square", N3),
             ("MatrixExpression", M * 2), ("symmetric.T", Sy3.T)]
    for (lname, left), sense in itertools.product(lefts, ["<=", ">=", "=="]):
        rws, cls = left.rows, left.cols
        asym = np.array([[float(1 + 3 * i - 2 * j + (5 if i > j else 0)) for j in range(cls)] for i in range(rws)])
        big = np.array([[float(1 + 3 * i - 2 * j + (5 if i > j else 0)) for j in range(2 * cls)] for i in range(2 * rws)])
        rights = [("int", 1), ("float", -0.5), ("2-d array", asym), ("2-d array(transposed values)", asym.T.copy() if rws == cls else asym * 2),
                  # the same numbers in other memory layouts: element (i, j) is what counts, not where it sits in memory
                  ("2-d array(Fortran order)", np.asfortranarray(asym)), ("2-d array(transposed view)", asym.T.copy().T if rws != cls else asym.T),
                  ("2-d array(strided view)", big[::2, ::2]), ("2-d array(reversed view)", asym[::-1, ::-1]),
                  ("2-d array(int dtype)", np.arange(rws * cls).reshape(rws, cls) - 2),
                  ("2-d array(mismatch)", np.ones((rws, cls + 1))), ("MatrixVariable(mismatch)", MatrixVariable("Q", rws + 1, cls))]
        if rws == cls == 2:
            rights += [("MatrixVariable", N), ("MatrixExpression", N * 2), ("symmetric MatrixVariable", Sy2)]
        for rname, right in rights:
            S = ser.Ser()
            try:
                ls = ser.lst(S.expr(left[i, j]) for i in range(rws) for j in range(cls))
            except Exception:
                ls = ser.lst(S.expr(e) for e in left.flatten())
            if isinstance(right, (int, float)):
                rt = f"(OScalar {ser.q(right)})"
            elif isinstance(right, np.ndarray):
                rt = (f"(OVector {ser.lst('(Const ' + ser.q(float(a)) + ')' for a in right.flatten())})") if right.shape == (rws, cls) else "ODimMismatch"
            elif isinstance(right, MatrixVariable):
                rt = (f"(OVector {ser.lst(S.expr(right[i, j]) for i in range(right.rows) for j in range(right.cols))})"
                      if (right.rows, right.cols) == (rws, cls) else "ODimMismatch")
            else:
                rt = f"(OVector {ser.lst(S.expr(e) for e in right.flatten())})"
            try:
                cs = apply_sense(left, sense, right)
                seen = f"(PBuilt {cons_term(S, cs)})"
            except Exception as ex:
                seen = classify_error(ex)
            if rt == "ODimMismatch":
                # shape mismatch of two-dimensional operands: the model's operand is the flattening, so state the expectation directly
                if seen != "PDim":
                    rep.violation({"kind": "correspondence", "obligation": "matrix operands of different shapes are rejected with a dimension error",
                                   "witness": {"left": lname, "right": rname, "sense": sense, "seen": seen[:200]}}, concrete=True)
                mat_cases += 1
                continue
            builds.add(f"({ls}, {SENSE[sense]}, {rt}, {seen})", {"left": lname, "right": rname, "sense": sense, "seen": seen[:80]},
                       kinds={"matrix", lname, rname, sense})
            mat_cases += 1
    bfails = builds.run()
    sfails = scalars.run()
    for i in bfails:
        rep.violation({"kind": "correspondence", "obligation": "element-wise constraint builder = model vector_constraint", "case": builds.terms[i][:3000],
                       "meta": builds.meta[i], "witness": builds.meta[i]}, concrete=True)
    for i in sfails:
        rep.violation({"kind": "correspondence", "obligation": "scalar comparison = model make_constraint / flip", "case": scalars.terms[i][:3000],
                       "meta": scalars.meta[i], "witness": scalars.meta[i]}, concrete=True)

    # ---- (I) evaluate / violation / is_satisfied and the SciPy dicts
    n_num = 120 if rep.tier == "quick" else 4000
    nums, nmeta = [], []
    exact_bad = 0
    def sources():
        # focused corpus with parameters first (coefficients that are Parameters, constants on either side ...), then random trees
        for g, e in common.corpus(rng, rep.tier, 0, focus_profile="all", focus_scale=0.35, pool_kwargs={"with_matrices": False}):
            yield g, e
        # variables whose natural order (x2 < x10, v[2] < v[10]) differs from the lexicographic order of their names, under
        # asymmetric weights: any place that sorts by name instead of by the problem's order pairs values with the wrong columns
        from optyx import Variable as _V, VectorVariable as _VV
        for k in range(24 if rep.tier == "quick" else 400):
            r0 = random.Random(rng.random())
            g = gen.Gen(r0, profile="poly")
            if k % 2 == 0:
                vs_ = [_V(nm) for nm in r0.sample(["x1", "x2", "x10", "x11", "x20", "y2", "y10", "y9"], r0.randint(3, 5))]
            else:
                vv = _VV("v", 12)
                vs_ = [vv[j] for j in sorted(r0.sample(range(12), r0.randint(3, 5)))]
                if not any(j.name in ("v[10]", "v[11]") for j in vs_):
                    vs_.append(vv[10])
            lhs_ = None
            for j, t in enumerate(vs_):
                term = (1.0 + 0.75 * j) * t if r0.random() < 0.7 else (0.5 + j) * t * t
                lhs_ = term if lhs_ is None else lhs_ + term
            yield g, lhs_
        for i in range(n_num):
            r0 = random.Random(rng.random())
            g = gen.Gen(r0, profile=r0.choice(["poly", "smooth", "all"]))
            try:
                yield g, g.expr(3)
            except Exception:
                continue

    param_updates = 0
    for g, lhs in sources():
        r = g.rng
        try:
            rhs = (g.expr(2) if r.random() < 0.4 else r.choice([0.5, 1, -2, 3]))
        except Exception:
            rhs = 1
        sense = r.choice(["<=", ">=", "=="])
        c = apply_sense(lhs, sense, rhs)
        vs = sorted(c.get_variables(), key=lambda v: v.name)
        if not vs:
            continue
        names = [v.name for v in vs]
        P = Problem().minimize(sum((v for v in vs[1:]), vs[0]) * 1.0)
        # the constraint under test sits among others (before, after, or alone): each dict must stay paired with ITS constraint
        k_before = r.choice([0, 0, 1])
        k_after = r.choice([0, 1, 2])
        others = [vs[0] * 3 - 7 <= 100, (vs[-1] * vs[-1] + 2).eq(50), sum((v for v in vs[1:]), vs[0]) * 0.5 >= -40]
        for o in others[:k_before]:
            P.subject_to(o)
        P.subject_to(c)
        for o in others[k_before:k_before + k_after]:
            P.subject_to(o)
        with stubs.Seams(minimize_script=[lambda call: stubs.mres(x=call["x0"], fun=0.0)] * 2) as S, warnings.catch_warnings():
            warnings.simplefilter("ignore")
            try:
                P.solve(method="trust-constr")
            except Exception:
                continue
        dct = P._solver_cache["scipy_constraints"][k_before]
        V = [v.name for v in P.variables]
        Ss = ser.Ser()
        te = Ss.expr(c.expr)
        params = common.params_of(c.expr)
        saved = {nme: pp.value for nme, pp in params.items()}
        for rnd in range(3 if params else 2):
            pt = common.pick_point(r, names)
            xarr = np.array([pt[n] for n in V], dtype=float)
            if rnd == 2:
                # every Parameter re-set AFTER the wrapper built its dicts: fun and jac must both follow
                for nme, pp in params.items():
                    if np.ndim(pp.value) == 0:
                        pp.set(float(r.choice([-1.5, 0.25, 2.0, 3.5])) + 0.0625 * r.randrange(8))
                        param_updates += 1
                if r.random() < 0.5:
                    with stubs.Seams(minimize_script=[lambda call: stubs.mres(x=call["x0"], fun=0.0)] * 2), warnings.catch_warnings():
                        warnings.simplefilter("ignore")
                        try:
                            P.solve(method="trust-constr")      # a re-solve on the same Problem
                            dct = P._solver_cache["scipy_constraints"][k_before]
                        except Exception:
                            pass
            ppts = {nme: pp.value for nme, pp in params.items() if np.ndim(pp.value) == 0}
            with np.errstate(all="ignore"):
                try:
                    val = common.fval(c.evaluate(pt)); viol = c.violation(pt); sat = c.is_satisfied(pt, tol=1e-8)
                    fun = common.fval(dct["fun"](xarr)); jac = np.asarray(dct["jac"](xarr), dtype=float)
                except Exception:
                    continue
            if val is None or fun is None or not np.all(np.isfinite(jac)):
                continue
            # exact float facts (max, negation, abs are exact operations)
            want_v = max(0.0, val) if sense == "<=" else max(0.0, -val) if sense == ">=" else abs(val)
            want_t = "eq" if sense == "==" else "ineq"
            want_f = -val if sense == "<=" else val
            if viol != want_v or sat != (want_v <= 1e-8) or dct["type"] != want_t or abs(fun - want_f) > 1e-12 * max(1, abs(val)):
                exact_bad += 1
                rep.violation({"kind": "exact", "obligation": "violation / is_satisfied / dict type and sign follow the model on the observed value",
                               "sense": sense, "value": val, "violation": viol, "satisfied": sat, "dict_type": dct["type"], "fun": fun,
                               "witness": {"constraint": repr(c)[:400], "point": pt}}, concrete=True)
            sign = -1.0 if sense == "<=" else 1.0
            nums.append(f"({te}, \"\", {common.pts_term(pt)}, {common.pts_term(ppts)}, [{ser.q(val)}])")
            nmeta.append({"what": "evaluate", "constraint": repr(c)[:300], "point": pt, "value": val})
            for j, vn in enumerate(V):
                nums.append(f"({te}, {ser.s(vn)}, {common.pts_term(pt)}, {common.pts_term(ppts)}, [{ser.q(sign * float(jac[j]))}])")
                nmeta.append({"what": f"jac[{vn}]", "constraint": repr(c)[:300], "point": pt, "sense": sense, "jac": float(jac[j])})
    # ---- a model written relation by relation (rows of A x <= b with a common sense and right-hand side, look-alike vector
    # reductions, true duplicates): EVERY written relation must be represented among the dicts the solver receives - for each
    # constraint there is a dict of its type whose fun is +/-(lhs - rhs) on the probe points and whose jac is its derivative
    from optyx import VectorVariable as _VVr
    handed = handed_bad = 0
    for trial in range(24 if rep.tier == "quick" else 600):
        r = random.Random(rng.random())
        nrow = r.randint(2, 4)
        xv = _VVr(r.choice(["x", "q", "v"]), r.randint(2, 4))
        nx = xv.size
        fam = r.choice(["rows_common_rhs", "rows_common_rhs", "sums_of_views", "scaled_rows", "with_duplicates", "mixed_sense", "quadratic_forms",
                        "one_object_two_senses", "sparse_in_wide_vector", "sparse_in_wide_vector"])
        if fam == "sparse_in_wide_vector":
            # a 12-vector (x[10], x[11] sort before x[2] as strings) and relations that each touch two or three of its elements, with
            # distinct weights: the relation is over the elements it names, whatever their place in the solver's vector
            xv = _VVr(r.choice(["x", "q"]), 12)
            nx = 12
        A = np.array([[float(r.choice([1, 2, -1, 3, 0.5])) + 0.25 * ((i + j) % 3) for j in range(nx)] for i in range(nrow)])
        rel = []          # (constraint, type, numpy fun, numpy jac)
        if fam in ("rows_common_rhs", "with_duplicates"):
            sense = r.choice(["<=", ">="])
            for i in range(nrow):
                rel.append((apply_sense(A[i] @ xv, sense, 1.0), "ineq", (lambda x, i=i, sg=(-1.0 if sense == "<=" else 1.0): sg * (A[i] @ x - 1.0)),
                            (lambda x, i=i, sg=(-1.0 if sense == "<=" else 1.0): sg * A[i])))
            if fam == "with_duplicates":
                rel.append(rel[0]); rel.append((apply_sense(A[0] @ xv, sense, 1.0),) + rel[0][1:])
        elif fam == "sums_of_views":
            for a_, b_ in [(0, nx), (0, nx - 1), (1, nx)]:
                m = np.zeros(nx); m[a_:b_] = 1.0
                rel.append((xv[a_:b_].sum() <= 2.0, "ineq", (lambda x, m=m: 2.0 - m @ x), (lambda x, m=m: -m)))
            m2 = np.zeros(nx); m2[0:nx:2] = 1.0
            rel.append((xv[0:nx:2].sum() <= 2.0, "ineq", (lambda x, m=m2: 2.0 - m @ x), (lambda x, m=m2: -m)))
        elif fam == "scaled_rows":
            for i in range(nrow):
                rel.append(((A[i] @ xv) * 2.0 >= -3.0, "ineq", (lambda x, i=i: 2.0 * (A[i] @ x) + 3.0), (lambda x, i=i: 2.0 * A[i])))
        elif fam == "sparse_in_wide_vector":
            for _ in range(r.randint(2, 4)):
                idx = sorted(r.sample(range(12), r.choice([2, 2, 3])))
                if r.random() < 0.7 and not any(i_ >= 10 for i_ in idx):
                    idx[-1] = r.choice([10, 11])
                    idx = sorted(set(idx))
                wts = [1.0 + 2.0 * k_ for k_ in range(len(idx))]
                row = np.zeros(12)
                for i_, w_ in zip(idx, wts):
                    row[i_] = w_
                expr_ = sum((w_ * xv[i_] for i_, w_ in list(zip(idx, wts))[1:]), wts[0] * xv[idx[0]])
                sense = r.choice(["<=", ">="])
                sg = -1.0 if sense == "<=" else 1.0
                rel.append((apply_sense(expr_, sense, 4.0), "ineq", (lambda x, row=row, sg=sg: sg * (row @ x - 4.0)), (lambda x, row=row, sg=sg: sg * row)))
        elif fam == "one_object_two_senses":
            # ONE expression object held by constraints of different sense (a range written with the public Constraint class)
            from optyx import Constraint as _Cn
            g_ = A[0] @ xv - 1.0
            for sense in r.sample(["<=", ">=", "=="], r.choice([2, 3])):
                sg = -1.0 if sense == "<=" else 1.0
                rel.append((_Cn(g_, sense), "eq" if sense == "==" else "ineq", (lambda x, sg=sg: sg * (A[0] @ x - 1.0)), (lambda x, sg=sg: sg * A[0])))
        elif fam == "mixed_sense":
            for i in range(nrow):
                sense = ["<=", ">=", "=="][i % 3]
                sg = -1.0 if sense == "<=" else 1.0
                rel.append((apply_sense(A[i] @ xv, sense, 1.0), "eq" if sense == "==" else "ineq", (lambda x, i=i, sg=sg: sg * (A[i] @ x - 1.0)),
                            (lambda x, i=i, sg=sg: sg * A[i])))
        else:
            for i in range(nrow):
                Qi = np.diag(np.abs(A[i]) + 1.0)
                rel.append((xv.dot(Qi @ xv) <= 9.0, "ineq", (lambda x, Qi=Qi: 9.0 - x @ Qi @ x), (lambda x, Qi=Qi: -2.0 * (Qi @ x))))
        def build(extra_obj, as_list):
            Pb = Problem().minimize(xv.dot(xv) + extra_obj if extra_obj is not None else xv.dot(xv))
            if as_list:
                Pb.subject_to([c_ for c_, *_ in rel])
            else:
                for c_, *_ in rel:
                    Pb.subject_to(c_)
            return Pb
        def handover_check(P, tag):
            nonlocal handed, handed_bad
            with stubs.Seams(minimize_script=[lambda call: stubs.mres(x=call["x0"], fun=0.0)] * 2) as S, warnings.catch_warnings():
                warnings.simplefilter("ignore")
                try:
                    P.solve(method=r.choice(["SLSQP", "trust-constr"]))
                except Exception:
                    return
            if not S.minimize_calls:
                return
            dicts = [d_ for d_ in (S.minimize_calls[0]["constraints"] or ()) if isinstance(d_, dict)]
            if not dicts:
                return          # trust-constr may receive constraint objects in another form: only dict hand-overs are compared here
            order = [v.name for v in P.variables]
            perm = [order.index(f"{xv.name}[{j}]") for j in range(nx)]
            pts = [np.array([r.choice(common.NICE) for _ in range(nx)]) for _ in range(3)]
            for ci, (c_, typ, fnp, jnp_) in enumerate(rel):
                handed += 1
                found = False
                for d_ in dicts:
                    if d_.get("type") != typ:
                        continue
                    ok = True
                    for x_ in pts:
                        full = np.zeros(len(order)); full[perm] = x_
                        with np.errstate(all="ignore"):
                            try:
                                fv = float(d_["fun"](full)); jv = np.asarray(d_["jac"](full), dtype=float).ravel()[perm]
                            except Exception:
                                ok = False; break
                        want_f, want_j = float(fnp(x_)), np.asarray(jnp_(x_), dtype=float)
                        if typ == "eq":
                            ok = (abs(fv - want_f) <= 1e-9 * (1 + abs(want_f)) and np.allclose(jv, want_j, rtol=1e-9, atol=1e-9)) or \
                                 (abs(fv + want_f) <= 1e-9 * (1 + abs(want_f)) and np.allclose(jv, -want_j, rtol=1e-9, atol=1e-9))
                        else:
                            ok = abs(fv - want_f) <= 1e-9 * (1 + abs(want_f)) and np.allclose(jv, want_j, rtol=1e-9, atol=1e-9)
                        if not ok:
                            break
                    if ok:
                        found = True
                        break
                if not found:
                    handed_bad += 1
                    rep.violation({"kind": "handover", "obligation": "every written relation is represented among the constraint dicts handed to the solver (fun = +/-(lhs - rhs), jac its derivative)",
                                   "witness": {"problem": tag, "family": fam, "vector": [xv.name, nx], "A": A.tolist(), "constraint_index": ci, "constraint": repr(c_)[:200],
                                               "n_written": len(rel), "n_dicts": len(dicts), "probe_points": [p_.tolist() for p_ in pts]}}, concrete=True)
        as_list = r.random() < 0.5
        handover_check(build(None, as_list), "first problem")
        # the SAME constraint objects in two more problems of one size whose other variable sorts before / after the vector: the
        # relations sit at other positions of the solver's vector
        from optyx import Variable as _Vh
        fr, bk = _Vh("A_front"), _Vh("zz_back")
        handover_check(build((fr - 1.0) ** 2, as_list), "second problem, same constraint objects, one more variable in FRONT")
        handover_check(build((bk - 1.0) ** 2, not as_list), "third problem, same constraint objects, one more variable at the BACK")
    # ---- right-hand sides as users hold them (Python numbers, NumPy scalars of every width, 0-d arrays), probed at points whose
    # distance from the bound is far below single precision: the relation is evaluated in double precision whatever the rhs type
    from optyx import Variable as _Vr
    rhs_probe = rhs_bad = 0
    xr = _Vr("xr")
    yr = _Vr("yr")
    for (rk, rv), sense, refl, two in itertools.product(
            [("float", 1000.0), ("int", 1000), ("np.float64", np.float64(1000)), ("np.float32", np.float32(1000)), ("np.float16", np.float16(100)),
             ("np.int64", np.int64(1000)), ("np.int32", np.int32(1000)), ("0-d float32 array", np.array(1000, dtype=np.float32)),
             ("0-d int array", np.array(1000))], ["<=", ">=", "=="], [False, True], [False, True]):
        lhs_e = xr + yr if two else xr
        try:
            c = apply_sense(rv, {"<=": ">=", ">=": "<=", "==": "=="}[sense], lhs_e) if refl else apply_sense(lhs_e, sense, rv)
        except Exception:
            continue
        if not hasattr(c, "violation"):
            continue                      # the recorded 0-d-array-on-the-left finding (K5) lives in the operand product above
        bound = float(rv)
        for dlt in (1e-5, -1e-5, 3e-7, -2e-9, 0.0, 0.25):
            pt = {"xr": bound + dlt - (0.5 if two else 0.0), "yr": 0.5}
            lv = (pt["xr"] + pt["yr"]) if two else pt["xr"]
            diff = lv - bound
            want_v = max(0.0, diff) if sense == "<=" else max(0.0, -diff) if sense == ">=" else abs(diff)
            rhs_probe += 1
            try:
                got_v, got_s = float(c.violation(pt)), bool(c.is_satisfied(pt, tol=1e-8))
            except Exception as ex:
                got_v, got_s = float("nan"), None
            if not (abs(got_v - want_v) <= 1e-12 * (1 + abs(want_v))) or got_s != (want_v <= 1e-8):
                rhs_bad += 1
                if rhs_bad <= 8:
                    rep.violation({"kind": "exact", "obligation": "violation / is_satisfied of `lhs (sense) rhs` are those of the relation written, in double precision, whatever number type the rhs has",
                                   "witness": {"rhs_type": rk, "rhs": bound, "sense": sense, "rhs_written_on_the_left": refl,
                                               "lhs": "xr + yr" if two else "xr", "point": pt, "violation": got_v, "expected_violation": want_v,
                                               "is_satisfied": got_s}}, concrete=True)
    num_checker = ("fun c => match c with (e, v, pts, ppts, obs) => "
                   "worst (map (num_check (if String.eqb v \"\" then e else grad ln2c ln10c v e) pts ppts) obs) end")
    nfails, nund = common.run_classify(IMPORTS + " SemI HarnessI", "", "expr * string * list (string * Q) * list (string * Q) * list Q",
                                       nums, num_checker) if nums else ([], [])
    for i in nfails:
        rep.violation({"kind": "numeric", "obligation": "constraint value / dict Jacobian within the enclosure of the model's denotation",
                       "case": nums[i][:3000], "witness": nmeta[i]}, concrete=True)
    cov = rep.coverage
    cov["evaluations"] = len(builds.terms) + len(scalars.terms) + len(nums)
    cov["distinct_nontrivial"] = builds.nontrivial + scalars.nontrivial
    cov["exhaustive"] = True
    cov["rule"] = ("exhaustive operand-kind product for scalar, vector (n = 1..3) and matrix left operands (right operand kinds incl. "
                   "mismatching shapes, both positions, three senses): every combination is a distinct case; plus numeric probes of "
                   "evaluate / violation / is_satisfied and of the SciPy dict fun / jac at dyadic points")
    cov["samples"] = [builds.terms[5][:400], scalars.terms[3][:400]] + [n[:300] for n in nums[:1]]
    cov["operand_kind_histogram"] = kinds_hist
    cov["matrix_cases"] = mat_cases
    cov["rhs_number_type_probes"] = rhs_probe
    cov["written_relations_looked_up_among_solver_dicts"] = handed
    cov["written_relations_not_handed_over"] = handed_bad
    cov["rhs_number_type_disagreements"] = rhs_bad
    cov["numeric_probes"] = len(nums)
    cov["parameter_updates_after_build"] = param_updates
    cov["numeric_undecided"] = len(nund)
    cov["correspondence_failures"] = len(bfails) + len(sfails) + len(nfails) + exact_bad
    cov["traces_validated_against_impl"] = len(builds.terms) + len(scalars.terms) + len(nums) - len(nund)
    rep.assumptions += ["matrix operands are compared through their row-major flattening (the element-wise builder is the same fold)"]


def replay(rep, path):
    import json
    print(json.dumps(json.load(open(path)), indent=1)[:6000])
    return 0
