"""C16 - a problem's variables are exactly those it mentions, in deterministic order.

Proof: Props/C16.v (exactness, NoDup, sortedness, shortcut = general path, total
       order => unique sorted list, construction-order independence, bounds alignment).
Tie:   Problem.variables / n_variables / get_bounds of API-built problems must equal
       the model's problem_variables (and its general path) exactly, under two
       different PYTHONHASHSEEDs (fresh interpreters), for adversarial names
       (equal natural keys, leading zeros, digit-only, nested indices), views
       (reversed / stepped slices, rows, columns, diagonals, symmetric), and
       shuffled construction orders.  Model hypotheses (wf, consistent vector
       ids) are evaluated on every case."""
from __future__ import annotations

import json
import os
import random
import subprocess
import sys

import verifkit as vk

LEVEL = "proof"
CHECKER = ("fun c => match c with (o, cs, names, decl, bnds) => "
           "forallb wf (o :: cs) && list_eqb String.eqb (problem_variables (Some o) cs) names "
           "&& list_eqb String.eqb (general_path (Some o) cs) names "
           "&& list_eqb bnd_eqb (map (fun n => lookup_decl decl n) names) bnds end")
DEFS = """
Definition obnd := (option Q * option Q)%type.
Definition oq_eqb (a b : option Q) : bool := opt_eqb Qeq_bool a b.
Definition bnd_eqb (a b : obnd) : bool := oq_eqb (fst a) (fst b) && oq_eqb (snd a) (snd b).
Fixpoint lookup_decl (d : list (string * obnd)) (n : string) : obnd :=
  match d with [] => (None, None) | (k, b) :: r => if String.eqb k n then b else lookup_decl r n end.
"""
ADVERSARIAL = ["x01", "x1", "x001", "x10", "x2", "x02", "a1b2", "a1b10", "a01b2", "a1b02", "12", "007", "7",
               "y", "Y", "y_1", "y1_", "z[3]", "z[03]", "z[12]", "w9w", "w09w", "A[1,2]", "A[1,10]", "A[01,2]", "_t", "t_"]


def worker(seed: int, n: int):
    """Runs in a fresh interpreter: builds problems, observes, prints serialised cases."""
    import numpy as np
    import gen, ser
    from checks import common
    from optyx import Problem, Variable, VectorVariable, MatrixVariable
    from optyx.problem import _try_get_single_vector_source
    rng = common.rng_for(seed, "C16")
    out = []
    for i in range(n):
        r = random.Random(rng.random())
        g = gen.Gen(r, profile=r.choice(["poly", "smooth", "all"]))
        mode = r.random()
        decl = {}
        if mode < 0.3:
            x = g.view()
            obj = r.choice([lambda: x.sum(), lambda: (x ** 2).sum(), lambda: g.coeffs(x.size) @ x, lambda: x.dot(x),
                            lambda: gen.FN["sin"](x).sum() if hasattr(gen.FN["sin"](x), "sum") else x.sum()])()
            cons = [(g.coeffs(x.size) @ x) - 1 for _ in range(r.randint(0, 2))]
            if r.random() < 0.45:
                # a DIFFERENT view whose name coincides with x's (slice names omit the step; row views omit the column slice)
                a_, b_ = g.siblings()
                m_ = r.choice(g.pool.matrices) if g.pool.matrices else None
                if m_ is not None and m_.cols >= 2 and r.random() < 0.4:
                    a_, b_ = m_[0, 0:m_.cols - 1], m_[0, 1:m_.cols]
                x = a_
                obj = r.choice([lambda: a_.sum(), lambda: (a_ ** 2).sum(), lambda: g.coeffs(a_.size) @ a_,
                                # several colliding handles inside ONE expression, in both operand orders
                                lambda: 3 * a_.sum() + 2 * b_.sum(), lambda: 2 * b_.sum() + 3 * a_.sum(),
                                lambda: a_.sum() + g.coeffs(b_.size) @ b_, lambda: (b_ ** 2).sum() + a_.sum()])()
                cons = [r.choice([lambda: b_.sum() - 1, lambda: g.coeffs(b_.size) @ b_ - 2, lambda: (b_ ** 2).sum() - 3, lambda: a_.sum() - 4])()]
            if r.random() < 0.3:
                cons.append(g.expr(2))
            if r.random() < 0.2:
                cons.append(x.sum() + 0 * 1)
        elif mode < 0.6:
            names = r.sample(ADVERSARIAL, r.randint(2, 7))
            vs = []
            for nme in names:
                lb = r.choice([None, 0.0, -1.0, 0.5])
                ub = r.choice([None, 1.0, 10.0, 2.5])
                dom = r.choice(["continuous", "continuous", "integer", "binary"])
                vs.append(Variable(nme, lb=lb, ub=ub, domain=dom))
            r.shuffle(vs)
            terms = [r.choice([1, 2, -1]) * v for v in vs]
            obj = terms[0]
            for t in terms[1:]:
                obj = obj + t if r.random() < 0.7 else t + obj
            cons = [vs[r.randrange(len(vs))] * 2 - 1 for _ in range(r.randint(0, 2))]
        elif i % 11 == 3:
            # every kind of block of a symmetric matrix (principal, off-diagonal square, rectangular) and of its transpose: the
            # variables of `B.sum()` are the distinct entries of the block
            from optyx.core.matrices import frobenius_norm as _frob
            nS = r.choice([3, 4])
            Sm = MatrixVariable(r.choice(["S", "K2", "S10"]), nS, nS, symmetric=True)
            Sm = Sm.T if r.random() < 0.3 else Sm
            r0 = r.randrange(nS - 1); r1 = r.randint(r0 + 1, nS)
            c0 = r.randrange(nS - 1); c1 = r.randint(c0 + 1, nS)
            B = Sm[r0:r1, c0:c1]
            if not hasattr(B, "rows"):
                B = Sm
            obj = r.choice([lambda: B.sum(), lambda: _frob(B) if B.rows * B.cols > 1 else B.sum(), lambda: (B * 2).sum()])()
            cons = [Sm[0, 0] + Sm[nS - 1, nS - 1] - 1] if r.random() < 0.5 else []
            mode = 0.98
        elif i % 11 == 7:
            # vectors whose BASE name carries a number, next to scalars and vectors sharing the alphabetic prefix: natural order puts
            # w2[...] before w10[...], x1 before x2[...] before x10
            base = r.choice(["w", "x", "q"])
            v2, v10 = VectorVariable(f"{base}2", r.randint(1, 3)), VectorVariable(f"{base}10", r.randint(1, 3))
            s1, s3, s11 = Variable(f"{base}1"), Variable(f"{base}3"), Variable(f"{base}11", lb=0.0)
            pieces = [v2.sum(), g.coeffs(v10.size) @ v10, s1 * 2, s3, s11 * 0.5, (v10 ** 2).sum()]
            r.shuffle(pieces)
            obj = pieces[0]
            for t in pieces[1:r.randint(2, len(pieces))]:
                obj = obj + t if r.random() < 0.6 else t + obj
            cons = [v2.sum() + v10.sum() - 1] if r.random() < 0.5 else [s3 - s1]
            mode = 0.97
        elif i % 97 == 5:
            # a deep left spine of terms over pairwise DIFFERENT variables, the variable written on the left: the first one sits
            # at the bottom of the spine and nowhere else (the explicit-stack variable walk is used from depth 400)
            nt = [400, 401, 450, 399][(i // 97) % 4]
            us = [Variable(f"u{j}", lb=(0.0 if j % 7 == 0 else None)) for j in range(nt)]
            obj = us[0] * 3.0
            for u in us[1:]:
                obj = obj + u * 2.0
            cons = [us[5] + us[6] - 1]
            mode = 0.99
        else:
            obj = g.expr(3)
            cons = [g.expr(2) for _ in range(r.randint(0, 3))]
        P = Problem()
        if r.random() < 0.5:
            P.minimize(obj)
            for c in cons:
                P.subject_to(c <= 0)
        else:
            for c in cons:
                P.subject_to(c >= 0)
            P.maximize(obj)
        def observe(tag):
            variables = P.variables
            names = [v.name for v in variables]
            if P.n_variables != len(names):
                names = names + ["<n_variables mismatch>"]
            bounds = P.get_bounds()
            S = ser.Ser()
            try:
                t = S.expr(P.objective)
                tc = [S.expr(c.expr) for c in P.constraints]
            except ser.Unsupported:
                return
            declared = {v.name: (v.lb, v.ub) for v in variables}
            oq = lambda b: "None" if b is None else f"(Some {ser.q(b)})"
            decl_t = ser.lst(f"({ser.s(k)}, ({oq(v[0])}, {oq(v[1])}))" for k, v in sorted(declared.items()))
            bnds_t = ser.lst(f"({oq(lb)}, {oq(ub)})" for lb, ub in bounds)
            case = f"({t}, {ser.lst(tc)}, {ser.lst(ser.s(n) for n in names)}, {decl_t}, {bnds_t})"
            out.append({"case": case, "names": names, "shortcut": _try_get_single_vector_source(P.objective) is not None,
                        "mode": ("view" if mode < 0.3 else "adversarial" if mode < 0.6 else "deep" if mode == 0.99 else "symmetric-block" if mode == 0.98 else "numbered-vectors" if mode == 0.97 else "general") + tag,
                        "binary_bounds_ok": all((v.lb, v.ub) == (0.0, 1.0) for v in variables if v.domain == "binary")})
        observe("")
        # histories: the list has been materialised; now the model is edited and read again
        for step in range(r.randint(0, 2)):
            allv = sorted(P.objective.get_variables(), key=lambda v: v.name)
            k = r.randrange(5)
            try:
                if k == 4:
                    # the problem is SOLVED (whatever route its class takes), then a bound is edited, then the bounds are read again
                    import warnings as _w
                    from optyx.analysis import is_linear as _lin
                    with _w.catch_warnings():
                        _w.simplefilter("ignore")
                        try:
                            if _lin(P.objective) and all(_lin(c_.expr) for c_ in P.constraints):
                                P.solve()
                            else:
                                P.solve(method="SLSQP", maxiter=2)
                        except Exception:
                            pass
                    cont = [v_ for v_ in P.variables if getattr(v_, "domain", "continuous") == "continuous"] or list(P.variables)
                    tv = r.choice(cont)             # (binary variables keep their [0, 1]: a separate observation checks exactly that)
                    if getattr(tv, "domain", "continuous") == "continuous":
                        tv.lb, tv.ub = r.choice([(0.5, 4.0), (None, 1.0), (-2.0, None), (None, None), (0, 0)])
                    tag = "+solve+bound-edit"
                    observe(tag)
                    continue
                if k == 0 and allv:
                    sub = r.sample(allv, max(1, len(allv) // 2))            # objective over a strict subset of what it used before
                    nobj = sub[0] * 2
                    for v in sub[1:]:
                        nobj = nobj + v
                    (P.minimize if r.random() < 0.5 else P.maximize)(nobj)
                    tag = "+subset-objective"
                elif k == 1:
                    (P.minimize if r.random() < 0.5 else P.maximize)(g.expr(2))
                    tag = "+new-objective"
                elif k == 2:
                    P.subject_to(g.expr(2) <= 1)
                    tag = "+constraint"
                else:
                    nv = Variable(r.choice(ADVERSARIAL) + "_n", lb=r.choice([None, 0.0]), ub=r.choice([None, 3.0]))
                    P.subject_to(nv + (allv[0] if allv else 0) >= 0)
                    tag = "+constraint-new-var"
            except Exception:
                break
            observe(tag)
    json.dump(out, sys.stdout)


def run(rep: vk.Report):
    from checks import common
    from checks.common import Cases
    vk.proof_stage(rep, "C16")
    n = 700 if rep.tier == "quick" else 25000
    results = {}
    for hs in ("0", "12345"):
        env = dict(os.environ)
        env["PYTHONHASHSEED"] = hs
        p = subprocess.run([sys.executable, "-m", "checks.c16", "--worker", str(rep.seed), str(n)],
                           capture_output=True, text=True, env=env, cwd=vk.VERIF, timeout=3000)
        if p.returncode != 0:
            raise vk.Broken("worker failed: " + p.stderr[-2000:])
        results[hs] = json.loads(p.stdout)
    cases = Cases("vars", "Occ Vars", "expr * list expr * list string * list (string * obnd) * list obnd", CHECKER, defs=DEFS)
    metas = []
    for hs, lst in results.items():
        for m in lst:
            cases.add(m["case"], dict(m, hashseed=hs, case=None))
            metas.append(m)
    fails = cases.run()
    # hash-seed determinism, directly on the implementation's own outputs
    a, b = results["0"], results["12345"]
    seed_diffs = [i for i in range(min(len(a), len(b))) if a[i]["names"] != b[i]["names"]]
    for i in seed_diffs[:10]:
        rep.violation({"kind": "determinism", "obligation": "variable order independent of PYTHONHASHSEED",
                       "names_seed0": a[i]["names"], "names_seed12345": b[i]["names"], "case": a[i]["case"][:3000]}, concrete=True)
    for i in fails:
        m = metas[i]
        model = cases.model_answer(i, lambda t: "match " + t + " with (o, cs, _, _, _) => problem_variables (Some o) cs end")
        rep.violation({"kind": "correspondence", "obligation": "Problem.variables/get_bounds = model (Vars.v)",
                       "case": m["case"][:5000], "implementation_names": m["names"], "model": model,
                       "witness": {"names": m["names"], "mode": m["mode"]}}, concrete=True)
    bad_bin = [m for m in metas if not m["binary_bounds_ok"]]
    for m in bad_bin[:5]:
        rep.violation({"kind": "bounds", "obligation": "binary variables carry bounds [0,1]", "case": m["case"][:2000]}, concrete=True)
    cov = rep.coverage
    cov["evaluations"] = len(cases.terms)
    cov["distinct_nontrivial"] = cases.nontrivial
    cov["rule"] = ("problems built through the API in three modes (single vector view incl. reversed/stepped slices, rows, columns, "
                   "diagonals; scalar variables with adversarial names in shuffled order; general expressions), observed in two fresh "
                   "interpreters with PYTHONHASHSEED 0 and 12345; distinct = distinct serialised case, non-trivial = >= 2 node kinds")
    cov["samples"] = [c[:400] for c in cases.terms[:3]]
    cov["mode_histogram"] = {k: sum(1 for m in metas if m["mode"] == k) for k in ("view", "adversarial", "general")}
    cov["shortcut_taken"] = sum(1 for m in metas if m["shortcut"])
    cov["hashseed_differences"] = len(seed_diffs)
    cov["correspondence_failures"] = len(fails)
    cov["traces_validated_against_impl"] = len(cases.terms)
    rep.assumptions += ["ASCII names (digit runs as matched by \\d on ASCII)", "two Variable objects with one name are the same variable (optyx compares by name)"]


def replay(rep, path):
    print(json.dumps(json.load(open(path)), indent=1)[:6000])
    return 0


if __name__ == "__main__":
    if len(sys.argv) >= 4 and sys.argv[1] == "--worker":
        worker(int(sys.argv[2]), int(sys.argv[3]))
