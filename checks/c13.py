"""C13 - editing a model invalidates everything derived from the old model.

Proof: Props/C13.v (cache_inv holds in every reachable state of the ProblemSM.v
       state machine; every solve observes what a fresh problem would; bounds are
       read at solve time) - by induction over arbitrary operation sequences.
Tie:   operation sequences over a 15-letter alphabet (2 objectives x 2 senses,
       linear / non-linear constraint, constraint list, bound edits, reads, solves
       with auto / SLSQP / trust-constr / linprog / highs) run against the real
       Problem with scripted stubs at the SciPy seams; after EVERY step the four
       cache flags (+ 'hess_fn' present) and, for solves, the arguments that reach
       the seam (route, method, bounds, x0, Hessian flag, which objective with which
       sign, which constraints, LP matrices) must equal the model's.  All sequences
       up to length 3 exhaustively, longer ones sampled.
Search: real solves of the live problem vs a freshly built problem with the current state."""
from __future__ import annotations

import itertools
import random
import warnings
import numpy as np

import verifkit as vk
import ser
import stubs
from checks import common
from checks.common import Cases

LEVEL = "proof"
IMPORTS = "Linear Vars SolveWrap ProblemSM Gen.GenTables"
DEFS = """
Definition flags_of (s : pstate) : list bool :=
  [match vars_c s with Some _ => true | None => false end;
   match solver_c s with Some _ => true | None => false end;
   match ProblemSM.lp_c s with Some _ => true | None => false end;
   match lin_c s with Some _ => true | None => false end;
   match solver_c s with Some c => sc_hess c | None => false end].
Fixpoint trace (s : pstate) (st : bstore) (ops : list op) : list (list bool * obs) :=
  match ops with
  | [] => []
  | o :: r => let '(s1, ob) := step bounds_methods hessian_methods st s o in
              (flags_of s1, ob) :: trace s1 (store_step st o) r
  end.
Fixpoint list_match {A B} (f : A -> B -> bool) (l1 : list A) (l2 : list B) : bool :=
  match l1, l2 with
  | [], [] => true
  | a :: r1, b :: r2 => f a b && list_match f r1 r2
  | _, _ => false
  end.
Definition qclose (a b : Q) : bool := Qle_bool (Qabs (a - b)) (QQ 1 1000000000).
Definition bnd_eqb (a b : bnd) : bool := opt_eqb Qeq_bool (fst a) (fst b) && opt_eqb Qeq_bool (snd a) (snd b).
Definition qrows_eqb (a b : list (list Q)) : bool := list_eqb (list_eqb Qeq_bool) a b.
Definition con_eqb (a b : expr * sense) : bool := expr_eqb (fst a) (fst b) && sense_eqb (snd a) (snd b).
(* what the harness saw at a step *)
Inductive pyobs :=
| PNone | PVars (V : list string) | PNoObjective | PNonLinear
| PLinprog (c : list Q) (aub : list (list Q)) (bub : list Q) (aeq : list (list Q)) (beq : list Q) (bounds : list bnd) (c0 : Q) (mx : bool) (m : string)
| PMinimize (m : string) (V : list string) (obj : nat) (neg : bool) (cidx : list nat) (bounds : option (list bnd)) (hess : bool) (x0 : list Q).
Definition obs_match (objs : list expr) (cs : list (expr * sense)) (o : obs) (p : pyobs) : bool :=
  match o, p with
  | ONone, PNone => true
  | OVars V, PVars V' => list_eqb String.eqb V V'
  | ONoObjective, PNoObjective => true
  | ONonLinear, PNonLinear => true
  | OLinprog c aub bub aeq beq bs c0 mx m, PLinprog c' aub' bub' aeq' beq' bs' c0' mx' m' =>
      list_eqb Qeq_bool c c' && qrows_eqb aub aub' && list_eqb Qeq_bool bub bub' && qrows_eqb aeq aeq'
      && list_eqb Qeq_bool beq beq' && list_eqb bnd_eqb bs bs' && Qeq_bool c0 c0' && Bool.eqb mx mx'
      && String.eqb (match m with Some s => s | None => "highs" end) m'
  | OMinimize m V obj neg cns bs h x0, PMinimize m' V' oi neg' ci bs' h' x0' =>
      String.eqb m m' && list_eqb String.eqb V V' && expr_eqb obj (nth oi objs (Const (QQ 0 1))) && Bool.eqb neg neg'
      && list_eqb con_eqb cns (map (fun i => nth i cs (Const (QQ 0 1), Le)) ci)
      && opt_eqb (list_eqb bnd_eqb) bs bs' && Bool.eqb h h' && list_eqb qclose x0 x0'
  | _, _ => false
  end.
"""
CHECKER = ("fun k => match k with (objs, cs, st0, ops, seen) => "
           "list_match (fun a b => list_eqb Bool.eqb (fst a) (fst b) && obs_match objs cs (snd a) (snd b)) "
           "(trace init st0 ops) seen end")
CASE_TYPE = "list expr * list (expr * sense) * bstore * list op * list (list bool * pyobs)"
SENSE = {"<=": "Le", ">=": "Ge", "==": "Eq"}
PROBE = {"x": 0.75, "y": 1.25, "a": 0.5, "z": -0.25}
FEAS = {"x": 1.0, "y": 1.5, "a": 0.0, "z": 0.0}      # satisfies every candidate constraint: the scripted answer must not trigger the SLSQP retry


def feasible_answer(P):
    def answer(call):
        xs = np.array([FEAS[v.name] for v in P.variables], dtype=float)
        return stubs.mres(x=xs, fun=float(call["fun"](xs)))
    return answer


class World:
    """One fresh set of variables, candidate objectives and constraints."""

    # 0: x boxed, y free (LPs over objs[0] are unbounded);  1: both boxed (LPs bounded in both orientations);
    # 2: no bounds at all (the first solve is box-free, boxes appear only through later edits)
    ST0 = ['[("x", (Some (QQ 0 1), Some (QQ 4 1)))]',
           '[("x", (Some (QQ 0 1), Some (QQ 4 1))); ("y", (Some (QQ (-1) 1), Some (QQ 3 1)))]',
           '[]',
           '[("x", (None, Some (QQ 4 1)))]']         # 3: ONE finite bound in the whole model: removing it leaves every variable free

    def __init__(self, variant=0):
        from optyx import Variable
        self.variant = variant
        if variant == 0:
            self.x = Variable("x", lb=0.0, ub=4.0)
            self.y = Variable("y")
        elif variant == 1:
            self.x = Variable("x", lb=0.0, ub=4.0)
            self.y = Variable("y", lb=-1.0, ub=3.0)
        elif variant == 3:
            self.x = Variable("x", ub=4.0)
            self.y = Variable("y")
        else:
            self.x = Variable("x")
            self.y = Variable("y")
        x, y = self.x, self.y
        # two more variables, one sorting before x and one after y: objectives over DIFFERENT variable sets of the same size
        # ([a, y] -> [y, z] shifts y's column), and a constraint that introduces a variable
        self.a, self.z = Variable("a"), Variable("z")
        a, z = self.a, self.z
        self.objs = [x + 2 * y, x ** 2 + y ** 2, (a - 3) ** 2 + y ** 2, y ** 2 + (z + 2) ** 2, 2 * a + y, (y - 1) ** 2 + 4, 3 * y + 1]
        from optyx.core import functions as _F
        self.cons = [x + y >= 1, x ** 2 + y <= 3, x >= 0.5, y <= 2, z + x >= 0.125, y >= 1.125,
                     _F.exp(x * 0.5) + y <= 8]              # 6: NON-polynomial (its degree is "none", not a number above 1)
        self.ser = ser.Ser()
        self.obj_terms = [self.ser.expr(o) for o in self.objs]
        self.con_terms = [f"({self.ser.expr(c.expr)}, {SENSE[c.sense]})" for c in self.cons]


LETTERS = ["min0", "min1", "max0", "max1", "min2", "min3", "max3", "min4", "min5", "max6", "subj0", "subj1", "subjL", "subjLz", "subj5", "subjBad",
           "subjE", "subjLk", "listAppend",
           "minBad", "maxBad", "ubx", "lby", "ubxN", "uby", "uba0", "lbz0", "read",
           "s:auto", "s:SLSQP", "s:trust-constr", "s:L-BFGS-B", "s:Nelder-Mead", "s:Powell", "s:linprog", "s:highs-ds"]
REJECTED = {"subjBad", "minBad", "maxBad"}           # rejected calls: the model's ORejected (state, store and flags unchanged)
NO_MODEL_OP = {"listAppend"}        # the caller appends to THEIR list after having passed it to subject_to: nothing about the problem changes


def op_term(w: World, L: str, toggles):
    if L in REJECTED:
        return "ORejected"
    if L.startswith("min"):
        return f"(OMin {w.obj_terms[int(L[3])]})"
    if L.startswith("max"):
        return f"(OMax {w.obj_terms[int(L[3])]})"
    if L == "subj0":
        return f"(OSubj {w.con_terms[0]})"
    if L == "subj1":
        return f"(OSubj {w.con_terms[1]})"
    if L in ("subjL", "subjLk"):
        return f"(OSubjList [{w.con_terms[2]}; {w.con_terms[3]}])"
    if L == "subjE":
        return f"(OSubj {w.con_terms[6]})"
    if L == "subjLz":
        return f"(OSubjList [{w.con_terms[4]}; {w.con_terms[3]}])"      # the NEW variable comes first, a known one last
    if L == "subj5":
        return f"(OSubj {w.con_terms[5]})"
    if L == "ubx":
        return f'(OSetUb "x" (Some {ser.q(toggles["ubx"])}))'
    if L == "lby":
        return f'(OSetLb "y" (Some {ser.q(toggles["lby"])}))'
    if L == "ubxN":
        return '(OSetUb "x" None)'
    if L == "uba0":
        return '(OSetUb "a" (Some (QQ 0 1)))'          # a bound that is exactly 0 (written as the int 0)
    if L == "lbz0":
        return '(OSetLb "z" (Some (QQ 0 1)))'
    if L == "uby":
        return f'(OSetUb "y" (Some {ser.q(toggles["uby"])}))'
    if L == "read":
        return "OReadVars"
    if L in REJECTED:
        return "ORejected"
    return f"(OSolve {ser.s(L[2:])})"


def bnd_t(b):
    def one(v):
        return "None" if v is None or not np.isfinite(v) else f"(Some {ser.q(float(v))})"
    return f"({one(b[0])}, {one(b[1])})"


class Runner:
    """Executes letters on one live Problem; bound-edit values alternate so that repeated edits change something."""
    UB, LB, UBY = [2.0, 1.0, 3.0], [-1.0, -2.0, 0.0], [2.5, 2.0, 3.5]      # every value keeps the scripted answer FEAS inside the box

    def __init__(self, variant):
        from optyx import Problem
        self.w = World(variant)
        self.P = Problem()
        self.nub = self.nlb = self.nuby = 0
        self.bad_list = None

    def toggles(self):
        return {"ubx": self.UB[self.nub % 3], "lby": self.LB[self.nlb % 3], "uby": self.UBY[self.nuby % 3]}

    def edit(self, L):
        """Non-solve letters.  Returns False for solve letters."""
        w, P, t = self.w, self.P, self.toggles()
        if L.startswith("min") and L[3:].isdigit():
            P.minimize(w.objs[int(L[3])])
        elif L.startswith("max") and L[3:].isdigit():
            P.maximize(w.objs[int(L[3])])
        elif L == "subj0":
            P.subject_to(w.cons[0])
        elif L == "subj1":
            P.subject_to(w.cons[1])
        elif L == "subjL":
            P.subject_to([w.cons[2], w.cons[3]])
        elif L == "subjLz":
            P.subject_to([w.cons[4], w.cons[3]])
        elif L == "subjE":
            P.subject_to(w.cons[6])
        elif L == "subjLk":
            self.kept = [w.cons[2], w.cons[3]]          # the caller keeps the list object
            P.subject_to(self.kept)
        elif L == "listAppend":
            if getattr(self, "kept", None) is not None:
                n0 = len(P.constraints)
                self.kept.append(w.cons[1])
                if len(P.constraints) != n0:
                    self.bad_list = ("the problem adopted the caller's list object: appending to that list after subject_to(list) "
                                     "silently added a constraint to the problem (no cache was invalidated)")
        elif L == "subj5":
            P.subject_to(w.cons[5])
        elif L == "subjBad":
            from optyx.core.errors import ConstraintError
            n0 = len(P.constraints)
            try:
                P.subject_to([w.cons[0], "not a constraint"])
                self.bad_list = "accepted"
            except (ConstraintError, TypeError, ValueError):
                if len(P.constraints) != n0:
                    self.bad_list = f"rejected, but {len(P.constraints) - n0} constraint(s) of the list were kept"
        elif L in ("minBad", "maxBad"):
            # a rejected objective (not an expression): nothing about the problem - objective, ORIENTATION, caches - may change
            before = (P.objective, P.sense)
            try:
                (P.minimize if L == "minBad" else P.maximize)("x + 2*y")
                self.bad_list = f"{L}: a string was accepted as objective"
            except Exception:
                if (P.objective, P.sense) != before and not (before[0] is None):
                    self.bad_list = f"{L}: rejected, but objective / sense changed from {before[1]!r} to {P.sense!r}"
        elif L == "ubx":
            w.x.ub = t["ubx"]; self.nub += 1
        elif L == "lby":
            w.y.lb = t["lby"]; self.nlb += 1
        elif L == "ubxN":
            w.x.ub = None
        elif L == "uba0":
            w.a.ub = 0
        elif L == "lbz0":
            w.z.lb = -0.0
        elif L == "uby":
            w.y.ub = t["uby"]; self.nuby += 1
        elif L == "read":
            P.variables
        else:
            return False
        return True

    def fresh(self):
        """A new Problem stating the live problem's current model."""
        from optyx import Problem
        F = Problem()
        if self.P.objective is not None:
            (F.maximize if self.P.sense == "maximize" else F.minimize)(self.P.objective)
        for c in self.P.constraints:
            F.subject_to(c)
        return F


def seam_snapshot(S, P, w):
    """What reached SciPy, reduced to comparable numbers (callables probed at PROBE)."""
    if S.linprog_calls:
        c = S.linprog_calls[0]
        tl = lambda a: None if a is None else np.asarray(a, dtype=float).tolist()
        return {"route": "linprog", "c": tl(c["c"]), "A_ub": tl(c["A_ub"]), "b_ub": tl(c["b_ub"]), "A_eq": tl(c["A_eq"]), "b_eq": tl(c["b_eq"]),
                "bounds": [list(b) for b in (c["bounds"] or [])], "method": c["method"]}
    if S.minimize_calls:
        c = S.minimize_calls[0]
        V = [v.name for v in P.variables]
        probe = np.array([PROBE[n] for n in V])
        def hess_at(h):
            # the Hessian callable is CALLED: a stale one (other variable list, other objective) shows as a wrong shape / other numbers
            if h is None:
                return None
            try:
                hv = np.asarray(h(probe), dtype=float)
                return {"shape": list(hv.shape), "values": np.round(hv, 9).tolist()}
            except Exception as ex:
                return {"raised": type(ex).__name__}
        out = {"route": "minimize", "method": c["method"], "V": V, "fun": float(c["fun"](probe)),
               "jac": None if c["jac"] is None else np.asarray(c["jac"](probe), dtype=float).tolist(),
               "hess": hess_at(c["hess"]), "bounds": None if c["bounds"] is None else [list(b) for b in c["bounds"]],
               "x0": np.asarray(c["x0"], dtype=float).tolist(),
               "constraints": [[d["type"], float(d["fun"](probe)), np.asarray(d["jac"](probe), dtype=float).tolist()] for d in (c["constraints"] or [])]}
        return out
    return {"route": "none"}


def run_sequence(seq, variant=0):
    """Execute the letters on a fresh Problem; returns (case term, per-step python observations)."""
    from optyx.core.errors import NonLinearError, NoObjectiveError
    R = Runner(variant)
    w, P = R.w, R.P
    seen = []
    pyseen = []
    op_terms = []
    for L in seq:
        if L in NO_MODEL_OP:
            R.edit(L)
            continue
        op_terms.append(op_term(w, L, R.toggles()))
        po = "PNone"
        feasible = feasible_answer(P)
        with stubs.Seams(minimize_script=[feasible, feasible]) as S, warnings.catch_warnings():
            warnings.simplefilter("ignore")
            if L == "read":
                po = f"(PVars {ser.lst(ser.s(v.name) for v in P.variables)})"
            elif not R.edit(L):
                try:
                    sol = P.solve(method=L[2:])
                except NonLinearError:
                    po = "PNonLinear"
                except NoObjectiveError:
                    po = "PNoObjective"
                except Exception as ex:
                    po = "PNone"                  # no model observation looks like this: the tie breaks and the witness search takes over
                    pyseen.append({"letter": L, "raised": repr(ex)[:200]})
                else:
                    if S.linprog_calls:
                        c = S.linprog_calls[0]
                        d = P._lp_cache
                        ql = lambda arr: ser.lst(ser.q(float(v)) for v in arr) if arr is not None else "[]"
                        qm = lambda M: ser.lst(ql(r) for r in M) if M is not None else "[]"
                        # orientation as it reached linprog: c equals the model's c negated for maximise; read it from the call, not from the cache
                        po = (f"(PLinprog {ql(c['c'])} {qm(c['A_ub'])} {ql(c['b_ub'])} {qm(c['A_eq'])} {ql(c['b_eq'])} "
                              f"{ser.lst(bnd_t(b) for b in (c['bounds'] or []))} {ser.q(float(getattr(d, 'c0', 0.0)))} "
                              f"{'true' if d.sense == 'max' else 'false'} {ser.s(c['method'])})")
                    elif S.minimize_calls:
                        c = S.minimize_calls[0]
                        V = [v.name for v in P.variables]
                        probe = np.array([PROBE[n] for n in V])
                        fv = float(c["fun"](probe))
                        cand = [float(o.evaluate(PROBE)) for o in w.objs]
                        oi, neg = None, None
                        for i, cv in enumerate(cand):
                            if abs(fv - cv) < 1e-12:
                                oi, neg = i, False
                            elif abs(fv + cv) < 1e-12:
                                oi, neg = i, True
                        ci = []
                        for dct in c["constraints"] or []:
                            val = float(dct["fun"](probe))
                            hit = None
                            for i, con in enumerate(w.cons):
                                ev = float(con.expr.evaluate(PROBE))
                                want = -ev if con.sense == "<=" else ev
                                typ = "eq" if con.sense == "==" else "ineq"
                                if abs(val - want) < 1e-12 and dct["type"] == typ:
                                    hit = i
                            ci.append(99 if hit is None else hit)
                        bs = "None" if c["bounds"] is None else f"(Some {ser.lst(bnd_t(b) for b in c['bounds'])})"
                        po = (f"(PMinimize {ser.s(c['method'])} {ser.lst(ser.s(v) for v in V)} {99 if oi is None else oi}%nat "
                              f"{'true' if neg else 'false'} {ser.lst(str(i) + '%nat' for i in ci)} {bs} "
                              f"{'true' if c['hess'] is not None else 'false'} {ser.lst(ser.q(float(v)) for v in c['x0'])})")
                    else:
                        po = "PNone"
        fl = [P._variables is not None, P._solver_cache is not None, P._lp_cache is not None,
              P._is_linear_cache is not None, bool(P._solver_cache and "hess_fn" in P._solver_cache)]
        seen.append(f"({ser.lst('true' if b else 'false' for b in fl)}, {po})")
        pyseen.append({"letter": L, "flags": fl, "obs": po[:200]})
    case = f"({ser.lst(w.obj_terms)}, {ser.lst(w.con_terms)}, {World.ST0[variant]}, {ser.lst(op_terms)}, {ser.lst(seen)})"
    if R.bad_list:
        pyseen.append({"letter": "subjBad", "problem": R.bad_list})
    return case, pyseen


def seam_vs_fresh(seq, variant=0):
    """Concrete history on which a solve of the live problem hands SciPy something else than a freshly built problem
    stating the same model would (stubs at the seams: no solver involved)."""
    R = Runner(variant)
    for k, L in enumerate(seq):
        with warnings.catch_warnings():
            warnings.simplefilter("ignore")
            try:
                if R.edit(L):
                    continue
                def attempt(Pr):
                    fa = feasible_answer(Pr)
                    try:
                        with stubs.Seams(minimize_script=[fa, fa]) as S:
                            Pr.solve(method=L[2:])
                        return seam_snapshot(S, Pr, R.w)
                    except Exception as ex:
                        return {"route": "raised", "error": type(ex).__name__ + ": " + str(ex)[:120]}
                live = attempt(R.P)
                fresh = attempt(R.fresh())
                if live.get("route") == "raised" and fresh.get("route") == "raised" and live["error"].split(":")[0] == fresh["error"].split(":")[0]:
                    continue              # both reject the request the same way (no objective, non-linear model for an LP method ...)
            except Exception:
                continue
        if live != fresh:
            diff = {key: [live.get(key), fresh.get(key)] for key in set(live) | set(fresh) if live.get(key) != fresh.get(key)}
            return {"world": variant, "sequence": list(seq[:k + 1]), "at": L, "handed_to_scipy_live_vs_fresh": diff}
    return None


def real_vs_fresh(seq, variant=0):
    """The property's own oracle: live problem vs fresh problem built from the current state (real SciPy)."""
    R = Runner(variant)
    for k, L in enumerate(seq):
        with warnings.catch_warnings():
            warnings.simplefilter("ignore")
            try:
                if R.edit(L):
                    continue
                live = R.P.solve(method=L[2:])
                fresh = R.fresh().solve(method=L[2:])
            except Exception:
                continue
        def close(a_, b_):
            return a_ == b_ or (a_ != a_ and b_ != b_) or abs(a_ - b_) <= 1e-6 * max(1.0, abs(b_))      # equal, both NaN, or close
        same = live.status == fresh.status and set(live.values) == set(fresh.values) and all(
            close(live.values[k2], fresh.values[k2]) for k2 in fresh.values)
        if same and live.objective_value is not None and fresh.objective_value is not None:
            same = close(live.objective_value, fresh.objective_value)
        if not same:
            return {"world": variant, "sequence": list(seq[:k + 1]), "at": L, "live": [live.status.value, live.values, live.objective_value],
                    "fresh": [fresh.status.value, fresh.values, fresh.objective_value]}
    return None


def run(rep: vk.Report):
    vk.proof_stage(rep, "C13")
    rng = common.rng_for(rep.seed, "C13")
    seqs = []
    maxlen = 3 if rep.tier == "quick" else 4
    for n in range(1, maxlen + 1):
        seqs += list(itertools.product(LETTERS, repeat=n))
    if rep.tier == "quick":
        # keep quick within budget: all of length <= 2, a third of length 3, sampled longer ones
        short = [s for s in seqs if len(s) <= 2]
        three = [s for s in seqs if len(s) == 3]
        rng.shuffle(three)
        seqs = short + three[:1300]
    # the shape every staleness bug needs - state, SOLVE, edit, SOLVE - for every edit and every pair of solve methods,
    # from a linear, a non-linear and a different-variable-set starting objective
    edits = [L for L in LETTERS if not L.startswith("s:")]
    solves = [L for L in LETTERS if L.startswith("s:")]
    forced_world = {}
    bound_edits = {"ubx", "lby", "ubxN", "uby", "uba0", "lbz0"}
    core_solves = ["s:auto", "s:SLSQP", "s:trust-constr", "s:linprog"]
    setups = [(("min0",), solves), (("max1",), solves), (("min3",), solves),
              # the same with a CONSTRAINT in place before the first solve (compiled constraint callables exist when the edit comes)
              (("min2", "subj5"), core_solves), (("min0", "subj0"), core_solves), (("max1", "subjL"), core_solves), (("min3", "subj5", "subjLz"), core_solves)]
    for setup, sv in setups:
        for sa, ed, sb in itertools.product(sv, edits, sv):
            if ed in bound_edits:
                for wv in range(4):                      # a bound edit between two solves: in every world (what "all free" means differs)
                    forced_world[len(seqs)] = wv
                    seqs.append(setup + (sa, ed, sb))
            else:
                seqs.append(setup + (sa, ed, sb))
    # an objective edit between two LP-capable solves, in the world where every LP over the candidate objectives is BOUNDED in both
    # orientations (in the others the re-solve is unbounded and reports no objective value to compare)
    lp_solves = ["s:auto", "s:linprog", "s:highs-ds"]
    for setup in (("min0",), ("max1",), ("min4",), ("max6",), ("min0", "subjL")):
        for sa, ed, sb in itertools.product(lp_solves, [L for L in edits if L[:3] in ("min", "max")], lp_solves):
            forced_world[len(seqs)] = 1
            seqs.append(setup + (sa, ed, sb))
    # state, SOLVE, edit, EDIT, SOLVE: two consecutive structural edits with nothing read in between (what the second edit may
    # rely on - the variable list, a cache - was already dropped by the first), for every pair of objective / constraint edits
    structural = [L for L in edits if L[:3] in ("min", "max", "sub") or L in ("read", "listAppend")]
    for setup, sv in [(("min3",), ["s:trust-constr", "s:SLSQP"]), (("min2", "subj5"), ["s:trust-constr", "s:auto"]), (("max1",), ["s:auto"])]:
        for sa in sv:
            pairs2 = list(itertools.product(structural, structural))
            if rep.tier == "quick":
                rng.shuffle(pairs2)
                pairs2 = pairs2[:len(pairs2) // 2]
            for e1, e2 in pairs2:
                seqs.append(setup + (sa, e1, e2, sa))
    n_long = 400 if rep.tier == "quick" else 20000
    for _ in range(n_long):
        seqs.append(tuple(rng.choice(LETTERS) for _ in range(rng.randint(4, 8))))
    cases = Cases("histories", IMPORTS, CASE_TYPE, CHECKER, defs=DEFS)
    bad_reports = 0
    for k, s in enumerate(seqs):
        variant = forced_world.get(k, k % 4)
        case, pyseen = run_sequence(s, variant)
        for st_ in pyseen:
            if st_.get("letter") == "subjBad" and "problem" in st_ and bad_reports < 3:
                bad_reports += 1
                rep.violation({"kind": "atomicity", "obligation": "a rejected subject_to(list) / minimize / maximize call leaves the problem as it was",
                               "witness": {"sequence": list(s), "world": variant, "problem": st_["problem"]}}, concrete=True)
        cases.add(case, {"sequence": list(s), "world": variant, "steps": pyseen}, kinds=set(s) | {f"len{len(s)}", f"world{variant}"})
    fails = cases.run(shard=250)
    # A broken tie is not yet a violation: look, among the failing histories (shortest first), for one on which the live problem
    # demonstrably hands the solver something else than a fresh problem stating the same model (or returns another answer).
    found = 0
    tried_w = 0
    seen_kinds = set()
    by_len = sorted(fails, key=lambda i: len(cases.meta[i]["sequence"]))
    if len(by_len) > 800:
        # the tie is broken almost everywhere (e.g. a cache moved): the shortest histories alone say little - take the 300 shortest
        # and an even spread over the rest, histories with at least two solves first (staleness needs solve ... edit ... solve)
        rest = by_len[300:]
        rest.sort(key=lambda i: (-min(2, sum(1 for L in cases.meta[i]["sequence"] if L.startswith("s:"))), len(cases.meta[i]["sequence"])))
        two = [i for i in rest if sum(1 for L in cases.meta[i]["sequence"] if L.startswith("s:")) >= 2]
        step_ = max(1, len(two) // 1500)
        by_len = by_len[:300] + two[::step_][:1500] + rest[:200]
    # replay order: histories in which a solve FOLLOWS another solve come first (staleness needs solve ... edit ... solve), shortest first
    nsolves = lambda i: sum(1 for L in cases.meta[i]["sequence"] if L.startswith("s:"))
    by_len = sorted(dict.fromkeys(by_len), key=lambda i: (0 if nsolves(i) >= 2 else 1, len(cases.meta[i]["sequence"])))
    for i in by_len[:2000]:
        if found >= 12:
            break
        seq, variant = cases.meta[i]["sequence"], cases.meta[i]["world"]
        tried_w += 1
        wit = seam_vs_fresh(seq, variant) or (real_vs_fresh(seq, variant) if tried_w <= 600 else None)
        if wit is None:
            continue
        kind_key = (wit.get("at"), tuple(sorted((wit.get("handed_to_scipy_live_vs_fresh") or {"values": 0}).keys())), tuple(wit["sequence"][-3:]))
        if kind_key in seen_kinds:
            continue
        seen_kinds.add(kind_key)
        found += 1
        model = cases.model_answer(i, lambda t: "match " + t + " with (_, _, st0, ops, _) => trace init st0 ops end")
        rep.violation({"kind": "correspondence", "obligation": "every solve observes what a fresh problem stating the current model would (ProblemSM.v)",
                       "sequence": seq, "world": variant, "implementation_steps": cases.meta[i]["steps"], "model": model, "witness": wit}, concrete=True)
    if fails and not found:
        i = min(fails, key=lambda i: len(cases.meta[i]["sequence"]))
        model = cases.model_answer(i, lambda t: "match " + t + " with (_, _, st0, ops, _) => trace init st0 ops end")
        rep.violation({"kind": "correspondence", "obligation": "per-step cache flags and seam arguments = model (ProblemSM.v)",
                       "failing_histories": len(fails), "shortest": cases.meta[i]["sequence"], "world": cases.meta[i]["world"],
                       "implementation_steps": cases.meta[i]["steps"], "model": model, "witness": None,
                       "search": f"{tried_w} failing histories replayed against fresh problems (seam arguments and real solves): no difference found"},
                      concrete=False)
    # independent sampled search with real solvers
    searched = 0
    for s in rng.sample(seqs, min(len(seqs), 90 if rep.tier == "quick" else 3000)):
        if any(L.startswith("s:") for L in s):
            searched += 1
            wit = real_vs_fresh(list(s), searched % 4)
            if wit:
                rep.violation({"kind": "real-solver", "obligation": "solve = fresh problem solve", "witness": wit}, concrete=True)
    cov = rep.coverage
    cov["evaluations"] = len(cases.terms)
    cov["distinct_nontrivial"] = cases.nontrivial
    cov["exhaustive"] = rep.tier != "quick"
    cov["rule"] = (f"operation sequences over a {len(LETTERS)}-letter alphabet: all of length <= 2"
                   + (", 1100 of length 3," if rep.tier == "quick" else ", all of length 3 and 4,")
                   + " all sequences (objective, solve, edit, solve) over 3 starting objectives x 6 x 19 x 6, plus sampled sequences of length 4-8; distinct = distinct sequence, non-trivial = at least two different letters")
    cov["samples"] = [m["sequence"] for m in cases.meta[300:303]] + [cases.terms[40][:600]]
    cov["alphabet"] = LETTERS
    cov["length_histogram"] = {str(n): sum(1 for m in cases.meta if len(m["sequence"]) == n) for n in range(1, 9)}
    cov["real_solver_fresh_comparisons"] = searched
    cov["correspondence_failures"] = len(fails)
    cov["traces_validated_against_impl"] = len(cases.terms)
    rep.assumptions += ["SciPy replaced by scripted stubs at the two seams for the exact tie; determinism of the real solvers for the search"]


def replay(rep, path):
    import json
    print(json.dumps(json.load(open(path)), indent=1)[:6000])
    return 0
