"""C04 - degree and linearity classification never under-reports.

Proof: Props/C04.v (degree_sound, is_linear_sound, ... over the Degree.v model).
Tie:   every entry point of the implementation (compute_degree, Expression.degree
       read twice, the explicit-stack traversal forced from outside, is_linear,
       is_quadratic) must return exactly what the model's [degree] returns, on
       API-built expressions incl. the corner stream and deep chains.
Search when the tie breaks: finite differences of order d+1 of the implementation's
own evaluate() along a rational line refute "polynomial of degree <= d"."""
from __future__ import annotations

import random
import numpy as np

import verifkit as vk
import gen
import ser
from checks import common

repr = common.safe_repr          # deep chains: the library's recursive __repr__ must not crash the report
from checks.common import Cases

LEVEL = "proof"

CHECKER = ("fun c => match c with (e, ds, lin, quad) => "
           "forallb (fun d => opt_eqb Nat.eqb (degree e) d) ds && Bool.eqb (is_linear e) lin "
           "&& Bool.eqb (is_quadratic e) quad end")
# expressions holding NumPy-typed constants: optyx (soundly) answers None for them where the model, which does not distinguish a
# NumPy 2 from a Python 2, computes a degree - accepted; any finite answer must still be the model's
LENIENT_CHECKER = ("fun c => match c with (e, ds, lin, quad) => "
                   "forallb (fun d => match d with None => true | Some _ => opt_eqb Nat.eqb (degree e) d end) ds "
                   "&& implb lin (is_linear e) && implb quad (is_quadratic e) end")
CHAIN_CHECKER = ("fun c => match c with (a, o, ts, ds, lin) => "
                 "forallb (fun d => opt_eqb Nat.eqb (degree (chain a o ts)) d) ds "
                 "&& Bool.eqb (is_linear (chain a o ts)) lin end")


def observe(e):
    """All entry points of the implementation for one expression."""
    import optyx.analysis as A
    obs = []
    obs.append(A.compute_degree(e))
    obs.append(e.degree)
    obs.append(e.degree)                      # second read goes through the cached sentinel
    obs.append(A._compute_degree_iterative(e))
    old = A._RECURSION_THRESHOLD
    try:
        A._RECURSION_THRESHOLD = 0            # force the explicit-stack traversal
        obs.append(A.compute_degree(e))
    finally:
        A._RECURSION_THRESHOLD = old
    return obs, bool(A.is_linear(e)), bool(A.is_quadratic(e))


def preclassify(e):
    """A user exploring a model bottom-up: every sub-expression is asked for its degree / linearity BEFORE the whole is."""
    import optyx.analysis as A
    from optyx.core.expressions import BinaryOp, UnaryOp
    order, stack = [], [e]
    while stack and len(order) < 200:
        t = stack.pop()
        order.append(t)
        if isinstance(t, BinaryOp):
            stack += [t.left, t.right]
        elif isinstance(t, UnaryOp):
            stack.append(t.operand)
    for t in reversed(order[1:]):
        try:
            t.degree
            A.is_linear(t)
        except Exception:
            pass


def malformed(obs):
    """A reported degree must be None or a natural number."""
    return [d for d in obs if d is not None and not (isinstance(d, (int, np.integer)) and not isinstance(d, bool) and d >= 0)]


def corner(g: gen.Gen):
    """Corner stream named by the property: vector nodes holding non-polynomial
    elements, non-integer / negative / zero vector powers, constant sub-expressions."""
    r = g.rng
    from optyx import Constant
    from optyx.core.vectors import VectorPowerSum, LinearCombination, DotProduct, VectorExpression
    from optyx.core.matrices import quadratic_form
    x = g.view()
    k = r.randrange(11)
    if k >= 9:
        # a hand-assembled vector whose elements have DIFFERENT degrees / kinds, in every order: the degree of the node is decided by
        # the worst element wherever it stands
        vs_ = g.pool.all_scalar_vars()
        elems = [r.choice(vs_) * 2 + 1, r.choice(vs_) ** 2, r.choice(vs_) ** 3, gen.FN["sin"](r.choice(vs_)), r.choice(vs_) ** 0.5,
                 r.choice(vs_) * r.choice(vs_), Constant(2.0) * 1, r.choice(vs_) ** -1]
        chosen = r.sample(elems, r.randint(2, 4))
        w = VectorExpression(chosen)
        y_ = VectorExpression([r.choice(vs_) for _ in chosen])
        return r.choice([lambda: g.coeffs(w.size) @ w, lambda: w.dot(y_), lambda: y_.dot(w), lambda: w.sum() + g.leaf(),
                         lambda: quadratic_form(w, g.matrix(w.size))])()
    NEAR = [1.0 + 2.0 ** -20, 2.0 + 2.0 ** -18, 3.0 - 2.0 ** -21, 1.0 - 2.0 ** -22, 2.0 ** -19, 2.0 - 2.0 ** -30]   # almost natural numbers, not natural
    if k == 0:
        return VectorPowerSum(x, r.choice([0.5, -1, -2, 1.5, 0, 1, 2, 3, 2.5] + NEAR))
    if k == 1:
        return (x ** r.choice([0.5, -1, 0, 1, 2, 3] + NEAR)).sum() + g.leaf()
    if k == 2:
        w = gen.FN[r.choice(gen.UNARY_VEC)](x + 0)
        return g.coeffs(w.size) @ w
    if k == 3:
        w = x * x if r.random() < 0.5 else x * 2 + 1
        return g.coeffs(w.size) @ w + g.leaf()
    if k == 4:
        w = gen.FN[r.choice(gen.UNARY_VEC)](x + 0) if r.random() < 0.5 else x + 1
        return w.dot(g.vec(w.size, 0))
    if k == 5:
        w = gen.FN["sin"](x + 0) if r.random() < 0.5 else 2 * x - 1
        return quadratic_form(w, g.matrix(w.size))
    if k == 6:
        return (Constant(g.const()) + g.const()) * g.expr(2) + Constant(3) ** r.choice([0, 1, 2])
    if k == 7:
        return g.expr(2) ** r.choice([0, 1, 2, 3, 0.5, -1, 2.0, 1.0, 1.0 + 2.0 ** -20, 2.0 - 2.0 ** -25]) / r.choice([1, 2, 0.5])
    return g.expr(2) * g.leaf()


def finite_difference_refutes(e, d, rng) -> dict | None:
    """Try to exhibit that e is NOT a polynomial of degree <= d: the (d+1)-th
    finite difference along a random line must vanish for such a polynomial."""
    from math import comb
    vs = sorted(e.get_variables(), key=lambda v: v.name)
    if not vs:
        return None
    for attempt in range(60):
        # lines through positive points first; then lines with bases and directions of BOTH signs, so that kinks of functions like
        # |x - y| = ((x - y)**2)**0.5 (piecewise polynomial of low degree) fall inside the sampled stretch
        if attempt < 20:
            base = {v.name: rng.choice([0.5, 1.0, 1.5, 2.0, 3.0]) for v in vs}
            direction = {v.name: rng.choice([0.25, 0.5, 1.0]) for v in vs}
        else:
            base = {v.name: rng.choice([-2.0, -1.25, -0.5, 0.25, 0.75, 1.5]) for v in vs}
            direction = {v.name: rng.choice([-1.0, -0.5, 0.5, 0.75, 1.0, 1.25]) for v in vs}
        vals = []
        try:
            with np.errstate(all="ignore"):
                for j in range(d + 2):
                    pt = {n: base[n] + j * direction[n] for n in base}
                    vals.append(float(e.evaluate(pt)))
        except Exception:
            continue
        if not all(np.isfinite(vals)):
            continue
        fd = sum((-1) ** (d + 1 - j) * comb(d + 1, j) * vals[j] for j in range(d + 2))
        scale = max(1.0, max(abs(v) for v in vals))
        if abs(fd) > 1e-6 * scale * 2 ** (d + 1):
            return {"base": base, "direction": direction, "values": vals, "finite_difference": fd, "order": d + 1}
    # a polynomial is defined (and real) at EVERY point: a finite degree for something that has no real value at a point with
    # negative coordinates (x ** 1.000001, sqrt, log ...) is refuted by that point alone
    for attempt in range(12):
        pt = {v.name: rng.choice([-2.0, -1.25, -0.5, -3.0]) for v in vs}
        try:
            with np.errstate(all="ignore"):
                val = e.evaluate(pt)
            bad = isinstance(val, complex) or not np.all(np.isfinite(np.asarray(val, dtype=float)))
        except (ZeroDivisionError, ValueError, TypeError, OverflowError, FloatingPointError):
            bad = True
        if bad:
            return {"point_without_a_real_value": pt, "claimed_degree": d}
    return None


def run(rep: vk.Report):
    ok = vk.proof_stage(rep, "C04")
    n_main, n_corner, n_deep = (500, 400, 14) if rep.tier == "quick" else (20000, 20000, 60)
    rng = common.rng_for(rep.seed, "C04")
    cases = Cases("degree", "Degree", "expr * list (option nat) * bool * bool", CHECKER)
    lenient = Cases("degree-numpy-typed", "Degree", "expr * list (option nat) * bool * bool", LENIENT_CHECKER)
    lenient_exprs = []
    pre_count = [0]
    vars_first = [0]
    exprs = []
    unsupported = 0
    hits = {}
    def sources():
        for f in ("poly", "all"):
            for g, e in common.corpus(rng, rep.tier, 0, focus_profile=f):
                yield g, e, "focused"
        # NumPy scalar types and 0-d arrays as exponents / factors / offsets
        for g, e in common.corpus(rng, rep.tier, 120, focus_profile="all", gen_flags={"numpy_scalars": True}, depths=(2, 3),
                                  want=["i64", "arr(", "f32", "f16"]):
            yield g, e, "numpy-typed"
        for i in range(n_main + n_corner):
            g = gen.Gen(random.Random(rng.random()), profile=rng.choice(["poly", "poly", "smooth", "all"]))
            try:
                e = corner(g) if i >= n_main else g.expr(rng.choice([2, 3, 4]))
            except Exception:
                continue
            yield g, e, ("corner" if i >= n_main else "main")

    for g, e, stream in sources():
        try:
            S = ser.Ser()
            t = S.expr(e)
        except ser.Unsupported:
            unsupported += 1
            continue
        if rng.random() < 0.4:
            preclassify(e)
            pre_count[0] += 1
        if rng.random() < 0.5:
            # a user who looks at the model's VARIABLES before asking for its class (read-only calls must not change the answer)
            try:
                e.get_variables()
                from optyx import Problem as _P
                _ = _P().minimize(e).variables
                vars_first[0] += 1
            except Exception:
                pass
        obs, lin, quad = observe(e)
        if malformed(obs):
            rep.violation({"kind": "correspondence", "obligation": "a reported degree is None or a natural number",
                           "expr": t[:3000], "observations": [repr(d) for d in obs], "is_linear": lin, "is_quadratic": quad,
                           "witness": {"expr": repr(e)[:500], "degrees": [repr(d) for d in obs]}}, concrete=True)
            continue
        for k, v in g.hits.items():
            hits[k] = hits.get(k, 0) + v
        if common.has_numpy_constant(e):
            lenient.add(f"({t}, {ser.lst(ser.opt_nat(d) for d in obs)}, {str(lin).lower()}, {str(quad).lower()})",
                        {"obs": obs, "lin": lin, "quad": quad, "stream": stream})
            lenient_exprs.append(e)
            continue
        cases.add(f"({t}, {ser.lst(ser.opt_nat(d) for d in obs)}, {str(lin).lower()}, {str(quad).lower()})",
                  {"obs": obs, "lin": lin, "quad": quad, "stream": stream})
        exprs.append(e)
    fails = cases.run()
    lfails = lenient.run() if lenient.terms else []

    # deep chains: built term by term in Python, rebuilt by the model from the term list
    deep = Cases("degree-deep", "Degree", "nat * bop * list expr * list (option nat) * bool", CHAIN_CHECKER,
                 defs=common.CHAIN_DEFS)
    deep_exprs = []
    sizes = [399, 400, 401, 900] + ([5000] if rep.tier == "quick" else [5000, 20000])
    import sys
    for j in range(n_deep):
        g = gen.Gen(random.Random(rng.random()), profile="smooth")
        n = sizes[j % len(sizes)]
        op = rng.choice(["+", "+", "-", "*", "/"])
        kind = rng.choice(["lin", "var", "sq", "vec", "fn:sin", "lin", "var"])
        assoc = rng.choice(["left", "left", "balanced"])
        terms = common.chain_terms(g, n, kind)
        e = common.build_chain(terms, op, assoc)
        try:
            obs, lin, quad = observe(e)
        except RecursionError as ex:
            rep.violation({"kind": "recursion", "n": n, "op": op, "assoc": assoc, "base": kind, "error": repr(ex)}, concrete=True)
            continue
        S = ser.Ser()
        ts = ser.lst(S.expr(t) for t in terms)
        if malformed(obs):
            rep.violation({"kind": "correspondence", "obligation": "a reported degree is None or a natural number",
                           "chain": {"n": n, "op": op, "assoc": assoc, "base": kind}, "observations": [repr(d) for d in obs],
                           "is_linear": lin, "witness": {"n": n, "op": op, "assoc": assoc, "base": kind, "first_terms": [repr(t)[:80] for t in terms[:3]],
                                                          "degrees": [repr(d) for d in obs], "is_linear": lin}}, concrete=True)
            continue
        deep.add(f"({common.ASSOC[assoc]}%nat, {ser.BOPS[op]}, {ts}, {ser.lst(ser.opt_nat(d) for d in obs)}, {str(lin).lower()})",
                 {"n": n, "op": op, "assoc": assoc, "base": kind, "obs": obs}, kinds={f"chain:{op}", f"assoc:{assoc}", f"base:{kind}", f"n:{n}"})
        deep_exprs.append(e)
    deep_fails = deep.run(shard=2)

    # ---- churn: models over vector EXPRESSION operands are built, classified and DROPPED by the thousand (a sweep, a
    # rolling horizon), so that addresses are reused; the degree of each is known by construction
    import gc
    from optyx import VectorVariable
    churn = churn_bad = 0
    first_seen = {}
    for k in range(3000 if rep.tier == "quick" else 60000):
        nvec = 2 + k % 4
        xv = VectorVariable(f"c{k % 7}", nvec)
        cvec = np.arange(1, nvec + 1, dtype=float)
        kind_ = k % 6
        if kind_ == 0:
            w, want = xv * 2 + 1, 1
        elif kind_ == 1:
            w, want = (xv - 1) ** 2, 2
        elif kind_ == 2:
            w, want = 1 / (xv + 5), None
        elif kind_ == 3:
            w, want = (xv + 0) ** 3, 3
        elif kind_ == 4:
            w, want = gen.FN["sin"](xv + 0), None
        else:
            w, want = xv * xv, 2
        form = k % 3
        if form == 0:
            e_, want_e = cvec @ w, want
        elif form == 1:
            e_, want_e = w.dot(xv), (None if want is None else max(2, want + 1))
        else:
            e_, want_e = w.sum(), want
        import optyx.analysis as A_
        got = A_.compute_degree(e_)
        lin_ = bool(A_.is_linear(e_))
        churn += 1
        # reference: what the very same recipe reported the FIRST time it was built in this process (checked against the model's
        # degree through the main stream); every later, freshly built copy must report the same
        key_ = (kind_, form, nvec)
        if key_ not in first_seen:
            first_seen[key_] = (got, lin_)
            if got is not None and want_e is not None and got < want_e:
                pass
            continue
        want_e = first_seen[key_][0]
        if got != want_e or lin_ != first_seen[key_][1]:
            churn_bad += 1
            if churn_bad <= 5:
                rep.violation({"kind": "correspondence", "obligation": "degree of a freshly built model does not depend on the models built and dropped before it",
                               "witness": {"model_number": k, "operand": ["2x+1", "(x-1)^2", "1/(x+5)", "(x+0)^3", "sin(x)", "x*x"][kind_],
                                           "reduction": ["c @ w", "w . x", "sum(w)"][form], "size": nvec, "reported_degree": got,
                                           "degree_reported_for_the_first_copy": want_e, "is_linear": lin_}}, concrete=True)
        del e_, w, xv
        if k % 500 == 499:
            gc.collect()
    # ---- adjudicate
    for idx, (cs, es) in ([(i, (cases, exprs)) for i in fails] + [(i, (lenient, lenient_exprs)) for i in lfails]
                          + [(i, (deep, deep_exprs)) for i in deep_fails]):
        e = es[idx]
        meta = cs.meta[idx]
        model = cs.model_answer(idx, lambda term: "let c := " + term + " in " +
                                ("degree (fst (fst (fst c)))" if cs is not deep else
                                 "match c with (a, o, ts, _, _) => degree (chain a o ts) end")) if cs is not deep or meta["n"] <= 900 else "<deep>"
        finite = [d for d in meta["obs"] if d is not None]
        witness = None
        for d in sorted(set(finite)):
            witness = finite_difference_refutes(e, d, rng)
            if witness:
                witness["reported_degree"] = d
                break
        # the verdicts are claims of their own: "linear" says the function is affine, "quadratic" that its third differences vanish
        if witness is None and meta.get("lin") is True:
            witness = finite_difference_refutes(e, 1, rng)
            if witness:
                witness["claim"] = "is_linear() answered True"
        if witness is None and meta.get("quad") is True:
            witness = finite_difference_refutes(e, 2, rng)
            if witness:
                witness["claim"] = "is_quadratic() answered True"
        rep.violation({"kind": "correspondence", "obligation": "implementation degree = model degree (Degree.v)",
                       "case": cs.terms[idx][:4000], "implementation": meta, "model": model,
                       "witness": witness, "expr_repr": repr(e)[:500]}, concrete=witness is not None)

    cov = rep.coverage
    cov["evaluations"] = len(cases.terms) + len(deep.terms) + len(lenient.terms)
    cov["numpy_typed_constant_cases"] = len(lenient.terms)
    cov["classified_bottom_up_first"] = pre_count[0]
    cov["variables_read_before_classification"] = vars_first[0]
    cov["churn_models_built_and_dropped"] = churn
    cov["churn_disagreements"] = churn_bad
    cov["distinct_nontrivial"] = cases.nontrivial + deep.nontrivial
    cov["rule"] = ("API-built expressions from the seeded generator (profiles poly/smooth/all), a corner stream "
                   "(vector nodes over non-polynomial elements, non-natural vector powers, constant-valued factors) "
                   "and deep accumulation chains; distinct = distinct serialised case, non-trivial = at least two node kinds")
    cov["samples"] = [c[:300] for c in cases.terms[:3]] + [f"deep chain {m}" for m in deep.meta[:2]]
    cov["node_kind_histogram"] = dict(sorted(cases.hist.items()))
    cov["deep_chains"] = [dict(m, obs=str(m["obs"])) for m in deep.meta]
    cov["generator_hits"] = dict(sorted(hits.items()))
    cov["unsupported_by_serialiser"] = unsupported
    cov["correspondence_failures"] = len(fails) + len(deep_fails) + len(lfails)
    cov["traces_validated_against_impl"] = cov["evaluations"]
    cov["finite_degree_cases"] = sum(1 for m in cases.meta if m["obs"][0] is not None)
    cov["linear_cases"] = sum(1 for m in cases.meta if m["lin"])
    rep.assumptions += ["wf: KVar operands hold Var nodes (API guarantee, checked by the serialiser's kind tags)",
                        "array-valued constants/parameters are outside the model (counted as unsupported)"]


def replay(rep, path):
    import json
    print(json.dumps(json.load(open(path)), indent=1)[:6000])
    return 0
