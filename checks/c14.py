"""C14 - independent models do not interfere through process-wide caches.

Proof: Props/C14.v (an LRU of ANY capacity is transparent for every call sequence
       provided the memoised function respects the cache's key equality; the compile,
       gradient and degree keys do - a bare Parameter root, whose closure reads one
       particular object, is kept out of the compile cache; hence the answers for a
       model after any prefix of other models equal those from an empty cache).
Tie:   (S) hit / miss / bypass sequences observed through cache_info() on adversarial
       call sequences (same object twice, equal-named Variable / Parameter objects,
       permuted variable lists, more keys than the generated capacity) must equal the
       LRU model's; (property's own oracle) observations on a model M after a prefix
       of other models reusing M's variable and parameter NAMES with different values,
       bounds and structure - beyond both cache capacities - must equal those in a
       fresh interpreter exactly."""
from __future__ import annotations

import json
import os
import random
import subprocess
import sys
import warnings

import verifkit as vk

LEVEL = "proof"
IMPORTS = "Caches Gen.GenTables"
DEFS = """
Definition trace_hits {K} (keqb : K -> K -> bool) (cap : nat) (ks : list K) : list bool :=
  snd (fst (calls K unit keqb (fun _ => tt) cap [] ks)).
"""
CHECKER = ("fun k => match k with (which, ck, gk, dk, seen) => "
           "list_eqb Bool.eqb (match which with "
           "| O => trace_hits compile_key_eqb cap_compile ck "
           "| S O => trace_hits gradient_key_eqb cap_gradient gk "
           "| _ => trace_hits degree_key_eqb cap_degree dk end) seen end")
CASE_TYPE = "nat * list compile_key * list gradient_key * list degree_key * list bool"


def rootkey(e, ids):
    import ser
    from optyx.core.expressions import Variable
    from optyx.core.parameters import Parameter
    if isinstance(e, Parameter):
        return f"(RParam {ser.s(e.name)})"
    if isinstance(e, Variable):
        return f"(RVar {ser.s(e.name)})"
    ids.setdefault(id(e), len(ids) + 1)
    return f"(RNode {ids[id(e)]})"


class NoIntrospection(Exception):
    pass


def hit_sequences(rng, big):
    """Returns (cases, bypass_violations).  Raises NoIntrospection when a cache no longer exposes
    cache_info()/cache_clear() (the hit/miss tie cannot be observed; the interference search still runs)."""
    import optyx.core.compiler as _C
    import optyx.core.autodiff as _AD
    import optyx.analysis as _AN
    for mod, nm in ((_C, "_compile_cached"), (_AD, "_gradient_cached"), (_AN, "_compute_degree_cached")):
        f = getattr(mod, nm, None)
        if f is None or not hasattr(f, "cache_info") or not hasattr(f, "cache_clear"):
            raise NoIntrospection(f"{mod.__name__}.{nm} is not a functools.lru_cache any more")
    return _hit_sequences(rng, big)


def _hit_sequences(rng, big):
    import numpy as np
    import ser
    import optyx.core.compiler as C
    import optyx.core.autodiff as AD
    import optyx.analysis as AN
    from optyx import Variable, Parameter, Constant
    cases, bad = [], []
    keep = []
    for rnd in range(6 if not big else 40):
        r = random.Random(rng.random())
        x1, x2, y = Variable("x"), Variable("x"), Variable("y")
        p1, p2 = Parameter("p", 2.0), Parameter("p", 7.0)
        es = [x1 + y, x1 * 2, (x1 + y) * 3, x1 ** 2 - y]
        keep += [x1, x2, y, p1, p2] + es
        roots = [x1, x2, y, p1, p2] + es
        Vs = [[x1, y], [y, x1], [x2, y], [x1, y, Variable("z")]]
        # ---- compile cache
        C._compile_cached.cache_clear()
        ids = {}
        ck, seen = [], []
        n_calls = 30 if rnd else 1100 + r.randint(1, 40)     # first round: overflow the capacity
        pool_roots = roots if rnd else roots + [Constant(float(i)) + x1 for i in range(1060)]
        keep += pool_roots
        for _ in range(n_calls):
            e = r.choice(pool_roots if rnd else pool_roots[-1060:] if r.random() < 0.9 else roots)
            V = r.choice(Vs)
            before = C._compile_cached.cache_info()
            C.compile_expression(e, V)
            after = C._compile_cached.cache_info()
            dh, dm = after.hits - before.hits, after.misses - before.misses
            from optyx.core.parameters import Parameter as _P
            if isinstance(e, _P):
                if (dh, dm) != (0, 0):
                    bad.append({"what": "bare Parameter root went through the compile cache", "delta": [dh, dm]})
                continue
            ck.append(f"({rootkey(e, ids)}, {ser.lst(ser.s(v.name) for v in V)})")
            seen.append("true" if (dh, dm) == (1, 0) else "false" if (dh, dm) == (0, 1) else "<bad>")
        cases.append((f"(0%nat, {ser.lst(ck)}, [], [], {ser.lst(seen)})", {"cache": "compile", "calls": len(ck), "round": rnd}))
        # ---- gradient cache: leaf roots only (one lookup per call)
        AD._gradient_cached.cache_clear()
        ids = {}
        gk, seen = [], []
        leaves = [x1, x2, y, p1, p2, Constant(1.0), Constant(1.0)]
        keep += leaves
        for _ in range(40):
            e, w = r.choice(leaves), r.choice([x1, x2, y])
            before = AD._gradient_cached.cache_info()
            AD.gradient(e, w)
            after = AD._gradient_cached.cache_info()
            dh, dm = after.hits - before.hits, after.misses - before.misses
            gk.append(f"({rootkey(e, ids)}, {ser.s(w.name)})")
            seen.append("true" if (dh, dm) == (1, 0) else "false" if (dh, dm) == (0, 1) else "<bad>")
        cases.append((f"(1%nat, [], {ser.lst(gk)}, [], {ser.lst(seen)})", {"cache": "gradient", "calls": len(gk), "round": rnd}))
        # ---- degree cache
        AN._compute_degree_cached.cache_clear()
        ids = {}
        dk, seen = [], []
        for _ in range(40):
            e = r.choice(roots)
            before = AN._compute_degree_cached.cache_info()
            AN.compute_degree(e)
            after = AN._compute_degree_cached.cache_info()
            dh, dm = after.hits - before.hits, after.misses - before.misses
            ids2 = {}
            rk = rootkey(e, ids)
            ids.setdefault(("id", id(e)), len(ids) + 1000)
            dk.append(f"({ids[('id', id(e))]}%N, {rk})")
            seen.append("true" if (dh, dm) == (1, 0) else "false" if (dh, dm) == (0, 1) else "<bad>")
        cases.append((f"(2%nat, [], [], {ser.lst(dk)}, {ser.lst(seen)})", {"cache": "degree", "calls": len(dk), "round": rnd}))
    return cases, bad


def model(r, M=False):
    """A model over the deliberately common names x, y, x[i], p.  M=True: the model under
    observation (fixed); otherwise a random other model reusing the same names with different
    values, bounds and structure."""
    import numpy as np
    from optyx import Variable, VectorVariable, Parameter
    from optyx.core import functions as F
    if M:
        x = Variable("x", lb=0.0, ub=4.0)
        y = Variable("y", lb=-1.0, ub=3.0)
        v = VectorVariable("x", 3, lb=0.0, ub=2.0)
        p = Parameter("p", 3.0)
        e1 = p * x ** 2 + F.sin(y) * x + v.dot(v)
        e2 = 2 * x + 3 * y + np.array([1.0, 2.0, 3.0]) @ v + 1.5
        e3 = p * x + y * y                     # d/dx is the bare Parameter
        from optyx import MatrixVariable
        A = MatrixVariable("A", 2, 3)
        # views whose NAMES other models reuse for other elements: a row slice ("A[0,:]" whatever the columns) and a reversed vector
        e4 = A[0, 1:3].sum() * 2 + np.array([1.0, 2.0, 3.0]) @ v[::-1] + A[1, 0:2].dot(A[1, 1:3])
        wM = VectorVariable("w", 3)
        e6 = p * x * y + x * x + y * y         # the mixed SECOND derivative is the bare Parameter
        return dict(x=x, y=y, v=v, p=p, A=A, e1=e1, e2=e2, e3=e3, e4=e4, e6=e6, w_a=wM, w_b=wM)
    x = Variable("x", lb=r.choice([None, -5.0, 1.0]), ub=r.choice([None, 9.0]))
    y = Variable("y")
    v = VectorVariable("x", r.choice([2, 3, 3, 4]))
    p = Parameter("p", r.choice([-1.0, 0.5, 11.0, 7.0]))
    e1 = r.choice([p * x ** 2 + F.sin(y) * x + v.dot(v), p * x + y, x * y + p, F.cos(x) + p * v.sum(), v.dot(v) + p * x * y])
    e2 = r.choice([2 * x + 3 * y + v.sum() + 1.5, x - y + 2.0 * v[0], 5 * x + y])
    e3 = r.choice([p * x + y * y, p * x + y ** 3, p * y + x * x])
    from optyx import MatrixVariable
    A = MatrixVariable("A", 2, 3)
    w = v if v.size == 3 else VectorVariable("x", 3)
    e4 = r.choice([A[0, 0:2].sum() * 2 + np.array([1.0, 2.0, 3.0]) @ w[0:3] + A[1, 0:2].dot(A[1, 0:2]),
                   A[0, 0:2].sum() + np.array([3.0, 1.0, 2.0]) @ w[:] + A[1, 1:3].sum(),
                   A[0, :].sum() + w.sum()])
    # other models may DECLARE a vector twice (two objects, equal names) and mix the two declarations
    w_a, w_b = VectorVariable("w", 3), VectorVariable("w", 3)
    e6 = r.choice([p * x * y + x * x + y * y, x * y * p + 2 * x * x + y * y, p * x * y + x ** 2 + y ** 2, p * (x * y) + x * x + y * y])
    return dict(x=x, y=y, v=v, p=p, A=A, e1=e1, e2=e2, e3=e3, e4=e4, e6=e6, w_a=w_a, w_b=(w_b if r.random() < 0.7 else w_a))


def dump(e):
    """Structure of a built tree INCLUDING the Python type of every constant (2 and 2.0 are different constants to NumPy's
    integer arithmetic): what a model builds must not depend on what earlier models built."""
    from optyx.core.expressions import Constant, BinaryOp, UnaryOp
    out, stack = [], [e]
    while stack and len(out) < 400:
        t = stack.pop()
        if isinstance(t, Constant):
            out.append(f"Constant[{type(t.value).__name__}:{t.value!r}]")
        elif isinstance(t, BinaryOp):
            out.append("Bin" + t.op)
            stack += [t.right, t.left]
        elif isinstance(t, UnaryOp):
            out.append("Un" + t.op)
            stack.append(t.operand)
        else:
            out.append(type(t).__name__ + ":" + repr(t)[:60])
    return out


def entries(Md, solve=True):
    """Every public entry point that goes through a process-wide cache, on one model."""
    import numpy as np
    import optyx.core.autodiff as AD
    import optyx.core.compiler as C
    import optyx.analysis as AN
    from optyx import Problem
    x, y, v, p = Md["x"], Md["y"], Md["v"], Md["p"]
    V = [x, y] + list(v)
    V2 = [x, y]
    pt = np.array([0.5, 1.25, 0.75, 1.5, 0.25, 0.5][:len(V)])
    pt2 = np.array([0.5, 1.25])
    out = {}
    out["value"] = [float(C.compile_expression(Md["e1"], V)(pt)), float(C.compile_expression(Md["e2"], V)(pt)),
                    float(C.compile_expression(p, V)(pt)), float(C.compile_expression(x, V)(pt)),
                    float(C.compile_expression(Md["e3"], V2)(pt2))]
    out["grad"] = [float(t) for t in C.compile_gradient(Md["e1"], V)(pt)] + [float(t) for t in AD.compile_jacobian([Md["e2"]], V)(pt).reshape(-1)]
    out["jac_param_entry"] = [float(t) for t in AD.compile_jacobian([Md["e3"]], V2)(pt2).reshape(-1)] + \
                             [float(t) for t in AD.compile_jacobian([Md["e3"], Md["e1"]], V)(pt).reshape(-1)]
    out["hess"] = [float(t) for t in AD.compile_hessian(Md["e3"], V2)(pt2).reshape(-1)] + \
                  [float(t) for t in AD.compile_hessian(Md["e1"], V)(pt).reshape(-1)]
    out["hess_param_entry"] = [float(t) for t in AD.compile_hessian(Md["e6"], V2)(pt2).reshape(-1)] + \
                              [float(t) for t in AD.compile_hessian(Md["e6"], [y, x])(pt2).reshape(-1)]
    # a Parameter whose NAME coincides with a decision variable's (a price "x" next to a quantity "x" is legal): its bare occurrence
    # as a derivative entry reads THIS model's parameter
    from optyx import Parameter as _Pn
    qn = _Pn("x", float(p.value) + 0.5)
    e7 = qn * y + x * x
    out["param_named_like_a_variable"] = [float(t) for t in AD.compile_jacobian([e7], V2)(pt2).reshape(-1)] + \
                                         [float(t) for t in C.compile_gradient(e7, V2)(pt2)] + [float(C.compile_expression(qn, V2)(pt2))]
    out["dparam"] = float(C.compile_expression(AD.gradient(p * x, x), V)(pt))
    A = Md["A"]
    V4 = [A[i, j] for i in range(2) for j in range(3)] + [t for t in Md["e4"].get_variables() if not t.name.startswith("A[")]
    V4 = sorted({t.name: t for t in V4}.values(), key=lambda t: t.name)
    pt4 = np.array([0.25 + 0.5 * k for k in range(len(V4))])
    out["views"] = [float(C.compile_expression(Md["e4"], V4)(pt4)), float(Md["e4"].evaluate({t.name: pt4[k] for k, t in enumerate(V4)}))] + \
                   [float(t) for t in C.compile_gradient(Md["e4"], V4)(pt4)]
    out["tree_dump"] = [dump(Md[k_]) for k_ in ("e1", "e2", "e3", "e6")]
    out["int_point"] = [float(C.compile_expression(Md["e1"], V)(np.array([2, 1, 1, 2, 0, 1][:len(V)], dtype=np.int64)))]
    out["grad_tree"] = [repr(AD.gradient(Md["e3"], w))[:200] for w in (x, y)]
    wa, wb = Md["w_a"], Md["w_b"]
    e5 = wa[0] * 3 + wa.dot(wa) + wa[1] * wa[2]
    ptw = {"w[0]": 0.5, "w[1]": -1.25, "w[2]": 2.0}
    out["grad_wrt_other_declaration"] = [float(AD.gradient(e5, wb[k]).evaluate(ptw)) for k in range(3)] + \
                                        [float(t) for t in C.compile_gradient(e5, list(wb))(np.array([0.5, -1.25, 2.0]))]
    out["degree"] = [AN.compute_degree(Md["e1"]), AN.compute_degree(Md["e2"]), bool(AN.is_linear(Md["e2"])), AN.compute_degree(Md["e3"]),
                     bool(AN.is_quadratic(Md["e3"]))]
    if solve:
        with warnings.catch_warnings():
            warnings.simplefilter("ignore")
            s1 = Problem().minimize(Md["e1"]).subject_to(x + y >= 1).solve(method="SLSQP")
            import stubs as _stubs
            with _stubs.Seams(passthrough=True) as S_lp:
                s2 = Problem().maximize(Md["e2"]).subject_to(v.sum() <= 4).subject_to(x <= 3).subject_to(y <= 3).solve()
            # what reached linprog besides the matrices: method and every option (a process-wide default must not drift)
            out["lp_call_options"] = [[c_["method"], sorted((k_, repr(v_)) for k_, v_ in c_["kw"].items())] for c_ in S_lp.linprog_calls]
            s3 = Problem().minimize(Md["e3"] + x * x).subject_to(x + y >= 1).solve(method="SLSQP")
        out["nlp"] = [s1.status.value, s1.objective_value, sorted(s1.values.items())]
        out["lp"] = [s2.status.value, s2.objective_value, sorted(s2.values.items())]
        out["nlp_param"] = [s3.status.value, s3.objective_value, sorted(s3.values.items())]
        with warnings.catch_warnings():
            warnings.simplefilter("ignore")
            s4 = Problem().minimize(Md["e6"]).subject_to(x + y >= 1).solve(method="trust-constr")
        out["nlp_param_hessian"] = [s4.status.value, round(s4.objective_value, 6), [(k_, round(v_, 5)) for k_, v_ in sorted(s4.values.items())]]
    return out


def observe_M():
    import optyx.analysis as AN
    from optyx import Variable
    out = entries(model(None, M=True))
    # freshly allocated models after whatever the prefix left behind: the degree of a NEW object
    # must not be answered from an entry of a dead one (address reuse)
    x = Variable("x")
    degs = []
    for j in range(400):
        e = (x - j) ** 2 + 1
        degs.append((AN.compute_degree(e), bool(AN.is_linear(e))))
    out["fresh_degrees"] = sorted(set(degs), key=repr)
    # DEEP (loop-built, 450 terms) models of M, freshly allocated after whatever the prefix built, analysed and dropped: a sum of
    # squares, a linear sum and a non-polynomial sum - their classes and an LP / NLP solve
    import gc
    from optyx import VectorVariable, Problem
    from optyx.core import functions as F
    deep_obs = []
    for kind_ in ("squares", "linear", "exp", "squares"):
        gc.collect()
        zv = VectorVariable("dz", 4, lb=-3.0, ub=3.0)
        acc = None
        for k_ in range(450):
            t = {"squares": (zv[k_ % 4] - 0.25 * (k_ % 5)) ** 2, "linear": (1.0 + k_ % 3) * zv[k_ % 4] - 0.5,
                 "exp": F.exp(zv[k_ % 4] * 0.01) + zv[(k_ + 1) % 4]}[kind_]
            acc = t if acc is None else acc + t
        deep_obs.append([kind_, AN.compute_degree(acc), bool(AN.is_linear(acc)), bool(AN.is_quadratic(acc))])
        if kind_ != "exp":
            with warnings.catch_warnings():
                warnings.simplefilter("ignore")
                sd = Problem().minimize(acc).solve()
            deep_obs[-1] += [sd.status.value, None if sd.objective_value is None else round(sd.objective_value, 5)]
        del acc, zv
    out["deep_models"] = deep_obs
    return out


def prefix(seed, k_compile, k_grad):
    """Other models reusing M's names with different values, bounds and structure, pushed through
    every entry point - more of them than any cache holds - and then dropped."""
    import gc
    import numpy as np
    import optyx.core.autodiff as AD
    import optyx.core.compiler as C
    import optyx.analysis as AN
    from optyx import Variable, VectorVariable, Parameter, Problem, Constant
    from optyx.core import functions as F
    r = random.Random(seed)
    keep = []
    n = 0
    with warnings.catch_warnings():
        warnings.simplefilter("ignore")
        # LPs of other sizes (a tiny one first, a wider one later) and the float / int twins of the constants M uses
        t1 = Variable("t1", lb=0.0, ub=2.0)
        Problem().minimize(t1).subject_to(t1 >= 1).solve()
        wide = VectorVariable("wide", 30, lb=0.0, ub=1.0)
        Problem().maximize(wide.sum()).subject_to(np.arange(1.0, 31.0) @ wide <= 40).solve()
        # deep (loop-built) models of other classes, analysed, solved and DROPPED: their addresses become available again
        import gc as _gc
        for rep_ in range(3):
            zq = VectorVariable("dz", 4, lb=0.0, ub=2.0)
            acc = None
            for k_ in range(450 + rep_):
                t = (1.0 + (k_ % 3)) * zq[k_ % 4] + 0.5 if rep_ != 1 else F.sin(zq[k_ % 4]) + zq[(k_ + 1) % 4] ** 2
                acc = t if acc is None else acc + t
            AN.compute_degree(acc)
            AN.is_linear(acc)
            if rep_ != 1:
                Problem().minimize(acc).solve()
            del acc, zq
            _gc.collect()
        xx, yy = Variable("x"), Variable("y")
        keep.append(2.0 * xx + 3.0 * yy + 1.0 + xx ** 2.0 + (-1.0) * yy + 0 * xx + 1 * yy + 3 * xx ** 2)
        for i in range(max(3, k_compile // 12)):
            entries(model(r), solve=(i % 23 == 0))
            n += 1
        for i in range(k_compile):
            x = Variable("x", lb=r.choice([None, -5.0, 1.0]), ub=r.choice([None, 9.0]))
            y = Variable("y")
            p = Parameter("p", r.choice([-1.0, 0.5, 11.0]))
            v = VectorVariable("x", r.choice([2, 3, 4]))
            e = r.choice([p * x + y, x * y + p, F.cos(x) + p * v.sum(), (x + i) ** 2, p, x, v.dot(v) + p])
            V = r.choice([[x, y] + list(v), [y, x] + list(v)[::-1]])
            f = C.compile_expression(e, V)
            f(np.ones(len(V)))
            keep.append((e, f))
        for i in range(k_grad):
            x, y = Variable("x"), Variable("y")
            p = Parameter("p", float(i % 7))
            e = r.choice([p * x, x * y, Constant(float(i)) * x + p, x, p])
            keep.append(AD.gradient(e, r.choice([x, y])))
        # degree cache: many short-lived linear models, a re-query loop on one kept model, then
        # everything is released so that addresses can be reused by the observed models
        x = Variable("x")
        kept = 2 * x + 1
        for i in range(k_grad):
            e = 2 * x + float(i)
            AN.compute_degree(e)
            AN.is_linear(e)
            if i % 3 == 0:
                AN.compute_degree(kept)
            del e
    n += len(keep)
    del keep
    gc.collect()
    return n


def worker(mode, seed, k_compile, k_grad):
    if mode == "prefix":
        prefix(seed, k_compile, k_grad)
    json.dump(observe_M(), sys.stdout)


def run(rep: vk.Report):
    from checks import common
    from checks.common import Cases
    vk.proof_stage(rep, "C14")
    rng = common.rng_for(rep.seed, "C14")
    big = rep.tier != "quick"
    try:
        raw, bad = hit_sequences(rng, big)
    except NoIntrospection as ex:
        raw, bad = [], []
        rep.violation({"kind": "correspondence", "obligation": "the three process-wide caches are functools.lru_cache objects whose hit/miss "
                       "behaviour can be compared with the LRU model (Caches.v)", "error": str(ex)}, concrete=False)
    cases = Cases("lru", IMPORTS, CASE_TYPE, CHECKER, defs=DEFS)
    for term, meta in raw:
        cases.add(term, meta, kinds={meta["cache"], f"round{meta['round']}", f"calls{meta['calls']}"})
    fails = cases.run(shard=3) if raw else []
    for b in bad[:5]:
        rep.violation(dict(b, kind="bypass", obligation="a bare Parameter root is not served from the name-keyed compile cache"), concrete=True)
    for i in fails:
        rep.violation({"kind": "correspondence", "obligation": "hit / miss sequence = LRU model with Python's key equality", "meta": cases.meta[i],
                       "case": cases.terms[i][:3000], "witness": None}, concrete=False)
    # ---- interference: fresh interpreter vs after a prefix, exact equality
    env = dict(os.environ)
    runs = []
    configs = [(1, 60, 60), (2, 1100, 4200)] if not big else [(s, 1100, 4200) for s in range(1, 13)] + [(99, 3000, 9000)]
    base = subprocess.run([sys.executable, "-m", "checks.c14", "--worker", "fresh", "0", "0", "0"], capture_output=True, text=True,
                          env=env, cwd=vk.VERIF, timeout=1200)
    if base.returncode != 0:
        raise vk.Broken("fresh worker failed: " + base.stderr[-1500:])
    fresh = json.loads(base.stdout)
    interference = 0
    for seed, kc, kg in configs:
        p = subprocess.run([sys.executable, "-m", "checks.c14", "--worker", "prefix", str(seed), str(kc), str(kg)], capture_output=True,
                           text=True, env=env, cwd=vk.VERIF, timeout=3000)
        if p.returncode != 0:
            raise vk.Broken("prefix worker failed: " + p.stderr[-1500:])
        after = json.loads(p.stdout)
        runs.append({"prefix_seed": seed, "compiles": kc, "gradients": kg})
        if after != fresh:
            interference += 1
            diff = {k: [fresh[k], after[k]] for k in fresh if fresh[k] != after.get(k)}
            rep.violation({"kind": "interference", "obligation": "observations on M after a prefix of other models = observations in a fresh process",
                           "witness": {"prefix_seed": seed, "compiles": kc, "gradients": kg, "differences": diff}}, concrete=True)
    cov = rep.coverage
    cov["evaluations"] = sum(m["calls"] for m in cases.meta) + len(runs) + 1
    cov["distinct_nontrivial"] = cases.nontrivial + len(runs)
    cov["rule"] = ("cache_info() deltas on adversarial call sequences for the three process-wide caches (incl. a sequence overflowing the "
                   "generated compile capacity) compared with the LRU model; plus whole-process comparisons: observations on a model "
                   "after prefixes of up to 1100 compilations and 4200 gradient calls of name-sharing models vs a fresh interpreter")
    cov["samples"] = [dict(m) for m in cases.meta[:3]] + runs[:2]
    cov["cache_call_sequences"] = len(cases.terms)
    cov["interference_runs"] = runs
    cov["interference_differences"] = interference
    cov["fresh_observation"] = fresh
    cov["correspondence_failures"] = len(fails) + len(bad)
    cov["traces_validated_against_impl"] = len(cases.terms) + len(runs)
    rep.assumptions += ["CPython: an lru_cache entry keeps its key objects alive, so id() of a cached node cannot be reused (outside the model)",
                        "determinism of the solvers for the whole-process comparison"]


def replay(rep, path):
    print(json.dumps(json.load(open(path)), indent=1)[:6000])
    return 0


if __name__ == "__main__":
    if len(sys.argv) >= 6 and sys.argv[1] == "--worker":
        worker(sys.argv[2], int(sys.argv[3]), int(sys.argv[4]), int(sys.argv[5]))
