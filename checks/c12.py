"""C12 - parameter updates are honoured by every later evaluation and solve.

Proof: Props/C12.v (evaluation under the valuation in force = evaluation of the fresh
       model with constants; last update wins over any history; one closure built
       without reading any parameter serves every later valuation; gradients under
       the valuation in force = gradients of the fresh constant model; a model with a
       parameter is never classified linear, so no LP data / constant Jacobian is
       ever taken from a parameter value).
Tie:   histories set(p, v) ... over expressions with parameters as coefficients,
       right-hand sides, exponents and inside second derivatives: callables compiled
       BEFORE the updates (value, gradient, Jacobian, Hessian, SciPy constraint
       dicts captured at the seam), cached derivative trees and fresh compilations
       are observed after every update and must lie in the interval enclosure of the
       model tree under the CURRENT valuation.
Search: real solves of the live model vs a freshly built model with Constant(current
       value), after every update."""
from __future__ import annotations

import itertools
import random
import warnings
import numpy as np

import verifkit as vk
import gen
import ser
import stubs
from checks import common

LEVEL = "proof"
IMPORTS = "Autodiff Gen.GenTables SemI HarnessI"
NUM_CHECKER = ("fun c => match c with (e, which, pts, ppts, obs) => "
               "let t := match which with "
               "| (Some v, None) => grad ln2c ln10c v e "
               "| (Some v, Some w) => grad ln2c ln10c w (grad ln2c ln10c v e) "
               "| _ => e end in worst (map (num_check t pts ppts) obs) end")
NUM_TYPE = "expr * (option string * option string) * list (string * Q) * list (string * Q) * list Q"
VALUES = [0.5, 2.0, 3.0, 1.5, -1.0, 0.25, 4.0, 1.0, 0.0]


def param_expr(g: gen.Gen, r):
    from optyx.core import functions as F
    p, q = g.pool.params
    x = g.pool.vectors[0]
    a, b = g.pool.scalars[0], g.pool.scalars[1]
    k = r.randrange(8)
    if k == 0:
        return p * a ** 2 + q * b + p * q
    if k == 1:
        return (a + 1.5) ** p + b * q
    if k == 2:
        return F.exp(p * a * 0.5) + q * (x ** 2).sum()
    if k == 3:
        return p * x.dot(x) + (a - q) ** 2
    if k == 4:
        return F.sin(p * a) * b + q
    if k == 5:
        return (a * b + 2) / (q + 3) + p * x.sum()
    if k == 6:
        return p * a * b + q * a ** 3
    return g.expr(3) * p + q


def fresh_with_constants(e):
    """Rebuild the tree with every Parameter replaced by Constant(current value) (iterative-free: trees are shallow)."""
    from optyx.core.expressions import Constant, Variable, BinaryOp, UnaryOp
    from optyx.core.parameters import Parameter
    from optyx.core import vectors as V, matrices as M
    if isinstance(e, Parameter):
        return Constant(float(e.value))
    if isinstance(e, (Constant, Variable)):
        return e
    if isinstance(e, BinaryOp):
        return BinaryOp(fresh_with_constants(e.left), fresh_with_constants(e.right), e.op)
    if isinstance(e, UnaryOp):
        return UnaryOp(fresh_with_constants(e.operand), e.op)
    if isinstance(e, V.VectorExpressionSum):
        return V.VectorExpressionSum(V.VectorExpression([fresh_with_constants(t) for t in e.expression._expressions]))
    if isinstance(e, V.LinearCombination) and hasattr(e.vector, "_expressions"):
        return V.LinearCombination(e.coefficients, V.VectorExpression([fresh_with_constants(t) for t in e.vector._expressions]))
    return e   # vector nodes over plain variables hold no parameters


def value_kinds(rep):
    """Every way a user may hold a parameter value - Python numbers, NumPy scalars, 0-d and 1-d arrays of integer or floating
    dtype, two parameters created from one array, VectorParameter - initialised with one kind and updated with another: what is
    observed afterwards is computed from the value LAST PASSED TO set(), against closed forms in NumPy."""
    import optyx.core.compiler as C
    from optyx import Parameter, Variable, Problem
    checked = bad = 0
    x = Variable("x", lb=-10.0, ub=10.0)
    at = 2.0
    def report(what, got, want, detail):
        nonlocal bad
        bad += 1
        if bad <= 12:
            rep.violation({"kind": "value-kinds", "obligation": "after set(v) every observation is computed from v",
                           "witness": dict(detail, what=what, got=np.asarray(got, dtype=float).tolist(), expected=np.asarray(want, dtype=float).tolist())},
                          concrete=True)
    inits = {"py-int": 3, "py-float": 3.0, "np.int64": np.int64(3), "np.float32": np.float32(3.0), "0-d int array": np.array(3),
             "0-d float array": np.array(3.0), "np.int32": np.int32(3)}
    updates = {"py-float": 2.5, "np.float64": np.float64(2.5), "0-d float array": np.array(2.5), "np.float32": np.float32(0.75),
               "py-int": 4, "np.int64": np.int64(4), "0-d negative": np.array(-1.25)}
    for (ik, iv), (uk, uv) in itertools.product(inits.items(), updates.items()):
        p = Parameter("t", value=iv)
        e = (x - p) ** 2 + p * x
        f = C.compile_expression(e, [x])
        gf = C.compile_gradient(e, [x])
        P = Problem().minimize((x - p) ** 2)
        with warnings.catch_warnings():
            warnings.simplefilter("ignore")
            P.solve()
            p.set(uv)
            u = float(uv)
            obs = {"evaluate": e.evaluate({"x": at}), "compiled before the update": f(np.array([at])),
                   "gradient compiled before the update": np.asarray(gf(np.array([at]))).reshape(-1)[0],
                   "re-solve": P.solve().values["x"]}
        want = {"evaluate": (at - u) ** 2 + u * at, "compiled before the update": (at - u) ** 2 + u * at,
                "gradient compiled before the update": 2 * (at - u) + u, "re-solve": u}
        for k in obs:
            checked += 1
            tol = 1e-4 if k == "re-solve" else 1e-9
            if abs(float(np.asarray(obs[k]).reshape(-1)[0]) - want[k]) > tol * max(1.0, abs(want[k])):
                report(k, obs[k], want[k], {"created_with": ik, "updated_with": uk, "value_passed_to_set": u})
    # two parameters created from ONE array object; only one of them is updated
    for base in (np.array(3.0), np.array([1.0, 2.0, 3.0]), np.array([1, 2, 3])):
        lo, hi = Parameter("lo", value=base), Parameter("hi", value=base)
        gap = hi * x - lo
        fn = C.compile_expression(gap, [x])
        new = np.asarray(base, dtype=float) * 2.5 + 0.25
        hi.set(new)
        want = new * at - np.asarray(base, dtype=float)
        for k, got in (("evaluate", gap.evaluate({"x": at})), ("compiled before the update", fn(np.array([at])))):
            checked += 1
            if not np.allclose(np.asarray(got, dtype=float), want, rtol=1e-12, atol=0):
                report(k, got, want, {"two_parameters_created_from_one_array": base.tolist(), "updated": "hi only", "value_passed_to_set": new.tolist()})
    # 1-d array parameters: integer dtype at creation, fractional update (and the other way round)
    for iv, uv in (([1, 2, 3], [0.5, 1.5, 2.5]), (np.array([1, 2, 3]), np.array([0.25, -1.5, 2.75])), ([1.5, 2.5, 3.5], [1, 2, 3]),
                   (np.array([1.0, 2.0, 3.0], dtype=np.float32), [0.1, 0.2, 0.3])):
        w = Parameter("w", value=iv)
        e = w * x + 1.0
        fn = C.compile_expression(e, [x])
        w.set(uv)
        want = np.asarray(uv, dtype=float) * at + 1.0
        for k, got in (("evaluate", e.evaluate({"x": at})), ("compiled before the update", fn(np.array([at])))):
            checked += 1
            if not np.allclose(np.asarray(got, dtype=float), want, rtol=1e-6, atol=0):
                report(k, got, want, {"created_with": repr(iv), "value_passed_to_set": np.asarray(uv, dtype=float).tolist()})
    # VectorParameter
    try:
        from optyx.core.parameters import VectorParameter
        vp = VectorParameter("c", 3, values=[1, 2, 3])
        e = vp[0] * x + vp[2] * x * x - vp[1]
        fn = C.compile_expression(e, [x])
        for uv in ([0.5, 1.5, 2.5], np.array([2, 4, 6]), np.array([-0.75, 0.0, 1.25])):
            vp.set(uv)
            u = np.asarray(uv, dtype=float)
            want = u[0] * at + u[2] * at * at - u[1]
            for k, got in (("evaluate", e.evaluate({"x": at})), ("compiled before the update", fn(np.array([at])))):
                checked += 1
                if abs(float(np.asarray(got).reshape(-1)[0]) - want) > 1e-9 * max(1.0, abs(want)):
                    report(k, got, want, {"VectorParameter": True, "value_passed_to_set": u.tolist()})
    except ImportError:
        pass
    return checked, bad


def run(rep: vk.Report):
    vk.proof_stage(rep, "C12", extra_trusted=["Interval library enclosure (SemI.evalI_correct) for the numeric channel"])
    rng = common.rng_for(rep.seed, "C12")
    import optyx.core.autodiff as AD
    import optyx.core.compiler as C
    from optyx import Problem
    from optyx.problem import _variable_order_key
    n = 70 if rep.tier == "quick" else 2500
    nums, nmeta = [], []
    solves = diffs = 0
    lin_bad = 0
    def sources():
        # every focused item that mentions a Parameter: as a factor of each reduction kind, as offset, as exponent, as base
        for g, e in common.corpus(rng, rep.tier, 0, focus_profile="all", pool_kwargs={"with_matrices": False},
                                  want=["p*", "f-p", "f**p", "(param)"]):
            yield g, e, False
        for _ in range(n):
            r0 = random.Random(rng.random())
            g = gen.Gen(r0, profile="all", pool=gen.Pool(r0, with_params=True, with_matrices=False))
            try:
                yield g, param_expr(g, r0), True
            except Exception:
                continue

    for i, (g, e, well_posed) in enumerate(sources()):
        r = g.rng
        try:
            Ss = ser.Ser()
            te = Ss.expr(e)
        except Exception:
            continue
        params = common.params_of(e)
        if not params:
            continue
        if e.is_linear() or e.degree is not None:
            lin_bad += 1
            rep.violation({"kind": "classification", "obligation": "an expression mentioning a parameter is never classified polynomial",
                           "witness": {"expr": repr(e)[:300], "degree": e.degree}}, concrete=True)
        V = sorted(e.get_variables(), key=_variable_order_key)
        if not V or len(V) > 5:
            continue
        names = [v.name for v in V]
        # everything compiled / derived BEFORE any update (the process-wide caches keep whatever earlier models - with their own
        # equal-named Parameters - left in them)
        f = C.compile_expression(e, V)
        # the explicit-stack builders (used for deep trees) forced from outside, also BEFORE any update
        oc, oa = C._RECURSION_THRESHOLD, AD._RECURSION_THRESHOLD
        try:
            C._RECURSION_THRESHOLD = 0
            AD._RECURSION_THRESHOLD = 0
            with common.uncached(C, "_compile_cached"):
                f_it = C.compile_expression(e, V)
                gtrees_it = [AD.gradient(e, v) for v in V]
                jf_it = AD.compile_jacobian([e], V)
        except Exception:
            f_it, gtrees_it, jf_it = None, None, None
        finally:
            C._RECURSION_THRESHOLD, AD._RECURSION_THRESHOLD = oc, oa
        gf = C.compile_gradient(e, V)
        jf = AD.compile_jacobian([e], V)
        hf = AD.compile_hessian(e, V) if len(V) <= 3 else None
        gtrees = [AD.gradient(e, v) for v in V]
        P = Problem().minimize(e)
        P.subject_to(sum((v for v in V[1:]), V[0]) * list(params.values())[0] <= 10)
        with stubs.Seams(minimize_script=[lambda call: stubs.mres(x=call["x0"], fun=0.0)] * 2) as S, warnings.catch_warnings():
            warnings.simplefilter("ignore")
            try:
                P.solve(method="trust-constr")
                seam = S.minimize_calls[0]
            except Exception:
                seam = None
        history = []
        for step in range(3):
            pname = r.choice(sorted(params))
            val = r.choice(VALUES)
            params[pname].set(val)
            history.append((pname, val))
            ppts = {nm: float(p.value) for nm, p in params.items()}
            pt = common.pick_point(r, names)
            x = np.array([pt[nm] for nm in names], dtype=float)
            with np.errstate(all="ignore"), warnings.catch_warnings():
                warnings.simplefilter("ignore")
                try:
                    obs_val = [common.fval(e.evaluate(pt)), common.fval(f(x)), common.fval(C.compile_expression(e, V)(x))]
                    if seam is not None:
                        obs_val.append(common.fval(seam["fun"](x)))
                    if f_it is not None:
                        obs_val.append(common.fval(f_it(x)))
                    G = np.asarray(gf(x), dtype=float).reshape(-1)
                    J = np.asarray(jf(x), dtype=float).reshape(-1)
                    SJ = np.asarray(seam["jac"](x), dtype=float).reshape(-1) if seam is not None and seam["jac"] is not None else None
                    GT = [common.fval(t.evaluate(pt)) for t in gtrees]
                    GTI = [common.fval(t.evaluate(pt)) for t in gtrees_it] if gtrees_it is not None else None
                    JI = np.asarray(jf_it(x), dtype=float).reshape(-1) if jf_it is not None else None
                    H = np.asarray(hf(x), dtype=float) if hf is not None else None
                except Exception:
                    continue
            meta = {"expr": repr(e)[:300], "history": list(history), "point": pt, "params": ppts}
            if all(v is not None for v in obs_val):
                nums.append(f"({te}, (None, None), {common.pts_term(pt)}, {common.pts_term(ppts)}, {ser.lst(ser.q(v) for v in obs_val)})")
                nmeta.append(dict(meta, what="value: evaluate / compiled-before / compiled-after / seam fun", values=obs_val))
            for j, nm in enumerate(names):
                obs = [float(G[j]), float(J[j])] + ([float(SJ[j])] if SJ is not None else []) + ([GT[j]] if GT[j] is not None else [])
                obs += ([GTI[j]] if GTI is not None and GTI[j] is not None else []) + ([float(JI[j])] if JI is not None else [])
                if all(np.isfinite(obs)):
                    nums.append(f"({te}, (Some {ser.s(nm)}, None), {common.pts_term(pt)}, {common.pts_term(ppts)}, {ser.lst(ser.q(v) for v in obs)})")
                    nmeta.append(dict(meta, what=f"d/d{nm}: compile_gradient / compile_jacobian / seam jac / cached tree", values=obs))
            if H is not None and np.all(np.isfinite(H)):
                for a_ in range(len(names)):
                    for b_ in range(len(names)):
                        nums.append(f"({te}, (Some {ser.s(names[a_])}, Some {ser.s(names[b_])}), {common.pts_term(pt)}, {common.pts_term(ppts)}, [{ser.q(float(H[a_, b_]))}])")
                        nmeta.append(dict(meta, what=f"hess[{names[a_]},{names[b_]}]", values=[float(H[a_, b_])]))
            # the property's own oracle with real solvers: live model vs fresh model with constants
            # (only for the curated, well-posed families: on an arbitrary tree - a pole inside the box, an unbounded direction -
            #  two rounding-different callables may legitimately end in different verdicts)
            if step == 2 and well_posed and i % (3 if rep.tier == "quick" else 1) == 0:
                for v in V:
                    v.lb, v.ub = -1.0, 3.0          # keeps a + 1.5 > 0: no pole or complex power inside the box
                F = Problem().minimize(fresh_with_constants(e))
                F.subject_to(sum((v for v in V[1:]), V[0]) * float(list(params.values())[0].value) <= 10)
                for meth in ["SLSQP", "trust-constr"]:
                    with warnings.catch_warnings():
                        warnings.simplefilter("ignore")
                        try:
                            a_sol, b_sol = P.solve(method=meth), F.solve(method=meth)
                        except Exception:
                            continue
                    solves += 1
                    # same verdict and the same optimal VALUE (two rounding-different but equivalent callables may drive a local solver
                    # to slightly different points of a flat or non-smooth valley; a stale parameter changes the value)
                    same = a_sol.status == b_sol.status
                    if same and a_sol.values and b_sol.values:
                        with np.errstate(all="ignore"):
                            fa, fb = common.fval(F.objective.evaluate(a_sol.values)), common.fval(F.objective.evaluate(b_sol.values))
                        pts_close = all(abs(a_sol.values[k] - b_sol.values[k]) <= 1e-5 * max(1.0, abs(b_sol.values[k])) for k in b_sol.values)
                        same = pts_close or (fa is not None and fb is not None and abs(fa - fb) <= 1e-5 * max(1.0, abs(fb)))
                    if not same and b_sol.values:
                        diffs += 1
                        rep.violation({"kind": "real-solver", "obligation": "solve after updates = solve of the fresh constant model",
                                       "witness": dict(meta, method=meth, live=[a_sol.status.value, a_sol.values],
                                                       fresh=[b_sol.status.value, b_sol.values])}, concrete=True)
    # ---- what reaches SciPy after updates = what a FRESH problem written with the current values as constants hands over:
    # the start point, the objective / gradient and EVERY constraint (also those that mention parameters only), compared at the seam
    from optyx import Variable as _Vs, Parameter as _Ps
    seam_cmp = seam_bad = 0
    def seam_of(Pr, meth, probe_it=True):
        with stubs.Seams(minimize_script=[lambda call: stubs.mres(x=call["x0"], fun=0.0)] * 2) as S_, warnings.catch_warnings():
            warnings.simplefilter("ignore")
            try:
                sol_ = Pr.solve(method=meth)
            except Exception as ex:
                return {"raised": type(ex).__name__}
        if not S_.minimize_calls:
            return {"route": "no minimize call"}
        if not probe_it:
            return None              # the first build is left untouched: nothing is asked of its callables before the update
        c_ = S_.minimize_calls[0]
        x0_ = np.asarray(c_["x0"], dtype=float)
        probe = np.array([0.75 + 0.5 * k_ for k_ in range(len(x0_))])
        with np.errstate(all="ignore"):
            cons_ = []
            for d_ in (c_["constraints"] or ()):
                if isinstance(d_, dict):
                    # first AT THE POINT THE SOLVER RETURNED (the scripted answer is the start point; the wrapper's own scan has just been
                    # there), then at the probe point
                    at_ret = round(float(d_["fun"](x0_.copy())), 9)
                    cons_.append([d_["type"], at_ret, round(float(d_["fun"](probe)), 9), np.round(np.asarray(d_["jac"](probe), dtype=float).reshape(-1), 9).tolist()])
            # the verdict for the scripted answer x = x0 is the wrapper's own feasibility scan under the CURRENT parameter values
            return {"x0": np.round(x0_, 12).tolist(), "fun": round(float(c_["fun"](probe)), 9), "status_for_scripted_answer": sol_.status.value,
                    "jac": None if c_["jac"] is None else np.round(np.asarray(c_["jac"](probe), dtype=float), 9).tolist(),
                    "constraints": sorted(cons_, key=repr)}
    for trial in range(12 if rep.tier == "quick" else 200):
        r = random.Random(rng.random())
        xs, ys = _Vs("xs", lb=-4.0, ub=6.0), _Vs("ys", lb=-4.0, ub=6.0)
        d_, cap, kq = _Ps("d", 3.0), _Ps("cap", 5.0), _Ps("kq", 2.0)
        fam = trial % 4
        if fam == 0:
            obj = (xs - d_) ** 2 + (ys - 1) ** 2
            cons = [xs <= cap, d_ <= cap, kq * xs + ys <= 10]
        elif fam == 1:
            obj = (xs ** 2 - 1) ** 2 + d_ * xs + ys ** 2          # double well: the start point matters
            cons = [xs + ys <= cap]
        elif fam == 2:
            obj = kq * xs ** 2 + xs * ys + ys ** 2 - d_ * xs
            cons = [cap >= d_, (xs - ys).eq(d_ - cap), d_ * 1.0 >= 0.5]
        else:
            obj = (xs - d_) ** 2 + kq * (ys - cap) ** 2
            cons = [d_ - cap <= 0, xs >= d_ - 10]
        P = Problem().minimize(obj).subject_to(cons)
        meth = r.choice(["SLSQP", "SLSQP", "trust-constr", "L-BFGS-B"] if fam != 1 else ["SLSQP", "L-BFGS-B"])
        if meth == "L-BFGS-B":
            P = Problem().minimize(obj)
            cons = []
        seam_of(P, meth, probe_it=False)                   # first build
        updates = [("d", 8.0), ("cap", 2.0), ("d", 1.0), ("kq", -1.5), ("cap", 9.0), ("d", -0.3)]
        r.shuffle(updates)
        hist_ = []
        for nm_, val_ in updates[:r.randint(1, 4)]:
            {"d": d_, "cap": cap, "kq": kq}[nm_].set(val_)
            hist_.append((nm_, val_))
            live = seam_of(P, meth)
            F = Problem().minimize(fresh_with_constants(obj))
            for c_ in cons:
                F.subject_to(type(c_)(fresh_with_constants(c_.expr), c_.sense))
            fresh = seam_of(F, meth)
            seam_cmp += 1
            if live != fresh:
                seam_bad += 1
                rep.violation({"kind": "seam", "obligation": "after Parameter updates the problem hands SciPy what a fresh problem with the current values as constants hands over",
                               "witness": {"family": fam, "method": meth, "updates": hist_, "objective": repr(obj)[:200], "constraints": [repr(c_)[:120] for c_ in cons],
                                           "differences": {k_: [live.get(k_), fresh.get(k_)] for k_ in set(live) | set(fresh) if live.get(k_) != fresh.get(k_)}}},
                              concrete=True)
    kinds_checked, kinds_bad = value_kinds(rep)
    nfails, nund = common.run_classify(IMPORTS, "", NUM_TYPE, nums, NUM_CHECKER) if nums else ([], [])
    for i in nfails:
        if common.sanitised_overflow(IMPORTS, "", nums[i], "match c with (e, which, pts, ppts, _) => enclosure (match which with "
                                     "| (Some v, None) => grad ln2c ln10c v e | (Some v, Some w) => grad ln2c ln10c w (grad ln2c ln10c v e) | _ => e end) pts ppts end",
                                     nmeta[i].get("values", [])):
            continue              # the true derivative exceeds binary64: the sanitised +-1e16 is the documented answer there
        rep.violation({"kind": "numeric", "obligation": "observation after updates within the enclosure of the model under the current valuation",
                       "case": nums[i][:3000], "witness": nmeta[i]}, concrete=True)
    cov = rep.coverage
    cov["seam_comparisons_live_vs_fresh_constant_model_after_updates"] = seam_cmp
    cov["seam_disagreements"] = seam_bad
    cov["evaluations"] = len(nums) + solves
    cov["distinct_nontrivial"] = len(set(nums))
    cov["rule"] = ("expressions with parameters as coefficients, offsets, exponents and inside products; everything compiled before a 3-step "
                   "history of updates (value, gradient, Jacobian, Hessian, SciPy seam callables, cached derivative trees) plus fresh "
                   "compilations, observed after every update at a dyadic point and checked by interval enclosure under the current "
                   "valuation; plus live-vs-fresh real solves")
    cov["samples"] = [x_[:400] for x_ in nums[:3]]
    cov["value_kind_observations"] = kinds_checked
    cov["value_kind_disagreements"] = kinds_bad
    cov["observations"] = len(nums)
    cov["undecided"] = len(nund)
    cov["real_solver_comparisons"] = solves
    cov["real_solver_differences"] = diffs
    cov["correspondence_failures"] = len(nfails) + lin_bad
    cov["traces_validated_against_impl"] = len(nums) - len(nund)
    rep.assumptions += ["array-valued parameters (VectorParameter elements are scalar Parameters; MatrixParameter yields plain arrays) are outside the model",
                        "determinism of the real solvers for the live-vs-fresh search"]


def replay(rep, path):
    import json
    print(json.dumps(json.load(open(path)), indent=1)[:6000])
    return 0
