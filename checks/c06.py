"""C06 - a solution reported OPTIMAL is feasible.

Proof: Props/C06.v - for EVERY answer the solver could return (and every retry
       answer), the wrapper model reports OPTIMAL only if the reported point passed
       the feasibility scan over declared bounds and all constraint functions;
       linprog: OPTIMAL iff result.success.  The status chains and the accepted-exit
       condition are the ones GENERATED from the source on this run.
Tie:   exhaustive scripted-stub product at the SciPy seams (methods x success x
       message classes x returned points x retry answers): status, objective, values,
       number of oracle calls, and which arguments were handed over must equal the
       model's prediction.
Search: real SciPy on feasible / infeasible / bound-infeasible problems, all methods:
       any OPTIMAL whose max violation exceeds the tolerance is a concrete failure."""
from __future__ import annotations

import itertools
import re
import warnings
import numpy as np

import verifkit as vk
import ser
import stubs
from checks import common
from checks.common import Cases

LEVEL = "proof"
IMPORTS = "Vars SolveWrap Gen.GenTables"
DEFS = """
Definition oq_eqb (a b : option Q) : bool := opt_eqb Qeq_bool a b.
Definition vals_eqb (a b : list (string * Q)) : bool :=
  list_eqb (fun p q => String.eqb (fst p) (fst q) && Qeq_bool (snd p) (snd q)) a b.
Definition cv_tbl (x1 : list Q) (c1 : list (ctype * Q)) (c2 : list (ctype * Q)) (x : list Q) : list (ctype * Q) :=
  if list_eqb Qeq_bool x x1 then c1 else c2.
"""
CHECKER = ("fun k => match k with (m, mx, V, bnds, (x1, c1, c2), r1, r2, (st, ob, vals, calls), (bflag, jflag, hflag)) => "
           "let out := post_minimize gen_accepted gen_status_chain gen_status_default m mx V gen_atol_default gen_rtol bnds (cv_tbl x1 c1 c2) r1 r2 in "
           "status_eqb (o_status out) st && oq_eqb (o_objective out) ob && vals_eqb (o_values out) vals && Nat.eqb (o_calls out) calls "
           "&& Bool.eqb (match bounds_arg bounds_methods m bnds with Some _ => true | None => false end) bflag "
           "&& Bool.eqb (use_gradient derivative_free_methods m) jflag "
           "&& Bool.eqb (use_hessian hessian_methods m true) hflag end")
CASE_TYPE = ("string * bool * list string * list (option Q * option Q) * (list Q * list (ctype * Q) * list (ctype * Q)) * "
             "mresult * mresult * (status * option Q * list (string * Q) * nat) * (bool * bool * bool)")

MESSAGES = ["Optimization terminated successfully", "Iteration limit reached: maximum number of iterations exceeded",
            "Positive directional derivative for linesearch", "Inequality constraints incompatible",
            "The problem is infeasible", "Desired error not necessarily achieved due to precision loss."]
METHODS = ["SLSQP", "trust-constr", "L-BFGS-B", "BFGS", "Nelder-Mead", "COBYLA", "TNC", "Powell", "Newton-CG", "CG"]
POINTS = [(0.5, 0.5), (0.0, 0.0), (1.0, 0.5), (-1.0, -1.0), (5.0, 5.0), (0.5000000625, 0.5), (2.0, 2.0)]


def probed_keywords():
    txt = open(vk.COQ + "/Optyx/Gen/GenTables.v").read()
    return sorted(set(re.findall(r'CMsg "([^"]+)"', txt)))


def mres_term(r, kws):
    msg = r.message.lower()
    present = [k for k in kws if k in msg]
    x = "None" if r.x is None else f"(Some {ser.lst(ser.q(float(v)) for v in r.x)})"
    f = "None" if r.fun is None else f"(Some {ser.q(float(r.fun))})"
    return (f"{{| r_success := {'true' if r.success else 'false'}; r_kws := {ser.lst(ser.s(k) for k in present)}; "
            f"r_status := {int(getattr(r, 'status', 0))}%Z; r_x := {x}; r_fun := {f} |}}")


def problems():
    from optyx import Variable, Problem
    x = Variable("x", lb=0, ub=4)
    y = Variable("y")
    P1 = Problem().minimize(x ** 2 + y ** 2).subject_to(x + y >= 1).subject_to((x - y).eq(0)).subject_to(x <= 2)
    a = Variable("a", lb=-1, ub=1)
    b = Variable("b", ub=3)
    P2 = Problem().maximize(-(a - 1) ** 2 - b ** 2)
    return [("P1", P1), ("P2", P2)]


def bounds_term(vs):
    oq = lambda v: "None" if v is None else f"(Some {ser.q(v)})"
    return ser.lst(f"({oq(v.lb)}, {oq(v.ub)})" for v in vs)


def cvals_term(P, x):
    cons = P._solver_cache["scipy_constraints"]
    out = []
    for c in cons:
        v = float(c["fun"](np.asarray(x, dtype=float)))
        out.append(f"({'Ineq' if c['type'] == 'ineq' else 'EqC'}, {ser.q(v)})")
    return ser.lst(out)


def real_solver_search(rep, rng, n):
    """Property's own oracle on real SciPy: OPTIMAL => feasible within tolerance."""
    from optyx import Variable, VectorVariable, Problem
    from optyx.solution import SolverStatus
    found = 0
    tried = 0
    methods = ["auto", "SLSQP", "trust-constr", "L-BFGS-B", "BFGS", "Nelder-Mead", "COBYLA", "TNC", "Powell", "CG", "linprog", "highs", "highs-ds"]
    for i in range(n):
        kinds = ["feasible", "infeasible", "bounds", "lp_infeasible", "bound_only", "lp_zero_row", "nlp_zero_row", "lp_eq_infeasible",
                 "bound_and_looser_row", "objective_swap", "lp_strided_views", "upper_bound_zero", "diverging", "one_expression_two_senses",
                 "lp_box_only_zero_cost", "lp_ge_row_resolve", "param_in_constraint_update", "lp_bound_edit_resolve"]
        kind = kinds[i % len(kinds)]
        x = VectorVariable(f"s{i}", rng.randint(1, 3), lb=rng.choice([None, 0, -1]), ub=rng.choice([None, 2, 5]))
        P = Problem()
        quad = (x ** 2).sum() + rng.choice([0, 1, -2]) * x.sum()
        lin = x.sum() * rng.choice([1, -1, 2])
        if kind == "feasible":
            P.minimize(quad).subject_to(x.sum() >= 0.5)
        elif kind == "infeasible":
            P.minimize(quad).subject_to(x[0] >= 1).subject_to(x[0] <= 0)
        elif kind == "bounds":
            x[0].lb, x[0].ub = 0.0, 1.0
            P.minimize((x[0] + 5) ** 2 + quad)
        elif kind == "lp_infeasible":
            P.minimize(lin).subject_to(x.sum() >= 3).subject_to(x.sum() <= 1)
        elif kind == "lp_zero_row":
            # coefficients cancel: the row reads 0 >= 1; nothing but the constant decides it
            z = np.zeros(x.size)
            bad = rng.choice([lambda: z @ x >= 1, lambda: x[0] - x[0] >= 1, lambda: (x.sum() - x.sum()).eq(2), lambda: z @ x + 3 <= 1])()
            for v in x:
                v.lb, v.ub = 0.0, 4.0
            P.minimize(lin).subject_to(x.sum() <= 3).subject_to(bad)
        elif kind == "nlp_zero_row":
            for v in x:
                v.lb, v.ub = 0.0, 4.0
            P.minimize(quad).subject_to(x[0] * 0 >= 1)
        elif kind == "lp_eq_infeasible":
            for v in x:
                v.lb, v.ub = 0.0, 1.0
            P.maximize(lin).subject_to(x.sum().eq(5))
        elif kind == "bound_and_looser_row":
            # a declared bound AND a single-variable constraint that is looser on the same side: the declared bound still binds
            x[0].lb, x[0].ub = 2.0, None
            P.minimize((x[0] + 5) ** 2 + quad).subject_to(x[0] >= 0)
            if x.size > 1:
                x[1].lb, x[1].ub = None, -1.0
                P.subject_to(x[1] <= 3)
        elif kind == "lp_strided_views":
            # transportation-style LP whose rows run over STRIDED views (matrix columns, every other element): demands on columns,
            # capacities on rows; written with .sum() / c @ view over the views
            from optyx import MatrixVariable as _MV, VectorVariable as _VVv
            A_ = _MV(f"T{i}", 2, 3, lb=0.0, ub=20.0)
            P.minimize(np.array([1.0, 2.0, 3.0]) @ A_[0, :] + np.array([2.0, 1.0, 2.5]) @ A_[1, :])
            for j_, dmd in enumerate([5.0, 7.0, 3.0]):
                P.subject_to(A_[:, j_].sum() >= dmd)
            P.subject_to(A_[0, :].sum() <= 9).subject_to(A_[1, :].sum() <= 8)
            yv = _VVv(f"e{i}", 6, lb=0.0, ub=10.0)
            P.subject_to(yv[::2].sum() >= 6).subject_to(yv[1::2].sum() >= 6).subject_to(np.array([1.0, 2.0, 3.0]) @ yv[::2] <= 40)
            P.subject_to(A_[0, 0] + yv.sum() <= 60)
        elif kind == "diverging":
            # a free variable, an objective unbounded along it, constraints the constraint-blind methods never see: wherever such a
            # method stops (or diverges to inf), OPTIMAL requires the constraints to hold there
            for v in x:
                v.lb, v.ub = None, None
            sgn = -1 if (i // len(kinds)) % 2 == 0 else 1
            P.minimize(x.sum() * sgn).subject_to(x.sum() >= 3).subject_to(x.sum() <= 1)
        elif kind == "one_expression_two_senses":
            # ONE expression object held by two constraints of different sense (a range lo <= g <= hi written with the public
            # Constraint class): each relation is enforced and scanned on its own
            from optyx import Constraint as _C
            for v in x:
                v.lb, v.ub = None, 6.0
            g = x.sum() - 1.0
            h = g * 1.0
            pair = [(">=", "<="), ("<=", ">="), ("==", "<="), (">=", "==")][(i // len(kinds)) % 4]
            P.minimize(((x - 3) ** 2).sum()).subject_to(_C(g, pair[0])).subject_to(_C(g, pair[1]))
            if (i // len(kinds)) % 2:
                P.subject_to([_C(h, "<="), _C(h, ">=")])
        elif kind == "lp_box_only_zero_cost":
            # a linear objective, NO constraints, only a box that excludes 0 - and a variable whose cost coefficient is exactly 0
            # (a zero entry, 0 * y, or cancelling terms): it still has to sit inside its bounds
            from optyx import VectorVariable as _VVb
            xb = _VVb(f"b{i}", 3, lb=rng.choice([1.0, 0.5]), ub=4.0)
            form = (i // len(kinds)) % 4
            costs = [lambda: np.array([2.0, 0.0, -1.0]) @ xb, lambda: 2 * xb[0] + 0 * xb[1] - xb[2], lambda: xb[0] + xb[1] - xb[1] - xb[2],
                     lambda: np.array([0.0, 0.0, 0.0]) @ xb + xb[2]][form]()
            if form % 2:
                xb[1].lb, xb[1].ub = -3.0, -1.0
            (P.maximize if (i // len(kinds)) % 3 == 1 else P.minimize)(costs)
        elif kind == "lp_ge_row_resolve":
            # an LP whose >= row is written with the user's own float64 array, solved, edited, solved again: the relation stays the one
            # written (feasibility is recomputed from numbers kept APART from the arrays handed to the library)
            from optyx import VectorVariable as _VVg
            xg = _VVg(f"g{i}", 3, lb=0.0, ub=10.0)
            a_user = np.array([2.0, 1.0, 3.0]); a_ref = a_user.copy()
            c_user = np.array([1.0, 2.0, 1.5])
            P.minimize(c_user @ xg).subject_to(a_user @ xg >= 6.0)
            special = ("ge_row", xg, a_ref, 6.0)
        elif kind == "lp_bound_edit_resolve":
            # an LP solved, the box of a variable edited (two-sided before and after; tightened, moved, or made empty against a row),
            # and the same problem solved again: OPTIMAL means inside the box AS IT STANDS
            for v in x:
                v.lb, v.ub = 0.0, 10.0
            P.maximize(x.sum() * 1.0).subject_to(x.sum() <= 25)
            special = ("bound_edit", None, None, None)
        elif kind == "param_in_constraint_update":
            # a Parameter inside a compound sub-expression of a constraint, updated between two solves of the same problem
            from optyx import Parameter as _Pp
            cap = _Pp(f"cap{i}", 10.0)
            for v in x:
                v.lb, v.ub = 0.0, 20.0
            P.maximize(x.sum() - 0.01 * (x ** 2).sum()).subject_to(x.sum() <= 0.8 * cap)
            special = ("param", cap, None, None)
        elif kind == "upper_bound_zero":
            # a bound that is exactly 0 is a bound
            x[0].lb, x[0].ub = None, 0
            P.minimize((x[0] - 3) ** 2 + quad)
            if x.size > 1:
                x[1].lb, x[1].ub = 0.0, 0.0
        elif kind == "objective_swap":
            # solved once, then the objective is replaced by one over ANOTHER variable set of the same size
            # ([s, t, u] -> [r, s, t]: every position shifts), constraints unchanged
            from optyx import Variable as _V
            rr, ss, tt, uu = _V(f"r{i}"), _V(f"s{i}_"), _V(f"t{i}"), _V(f"u{i}")
            P.minimize((ss - 2) ** 2 + (tt - 2) ** 2 + (uu - 1) ** 2).subject_to(ss <= 1).subject_to(ss + tt <= 3)
            swap_to = (rr + 1) ** 2 + (ss - 2) ** 2 + (tt - 4) ** 2
            orig_obj = P.objective
        else:
            x[0].lb = 0.0
            P.minimize((x[0] + 5) ** 2)
        for m in methods:
            tried += 1
            try:
                with warnings.catch_warnings():
                    warnings.simplefilter("ignore")
                    if kind == "objective_swap":
                        P.minimize(orig_obj)
                    if kind == "param_in_constraint_update":
                        special[1].set(10.0)
                    if kind == "lp_bound_edit_resolve":
                        x[0].lb, x[0].ub = 0.0, 10.0
                    s = P.solve(method=m)
                    if kind == "lp_ge_row_resolve":
                        P.subject_to(special[1][0] <= 9.0)        # an edit that drops the LP cache: the rows are extracted again
                        s = P.solve(method=m)
                    if kind == "param_in_constraint_update":
                        special[1].set(5.0)                        # x.sum() <= 4 from now on
                        s = P.solve(method=m)
                    if kind == "lp_bound_edit_resolve":
                        x[0].lb, x[0].ub = [(1.0, 3.0), (0.0, 2.5), (4.0, 6.0), (0.5, 1.5)][(i // len(kinds)) % 4]
                        s = P.solve(method=m)                      # (the original box is put back before the next method's first solve)
                    if kind == "objective_swap":
                        P.minimize(swap_to)
                        s = P.solve(method=m)          # the solve that matters: after the replacement
            except Exception:
                continue
            if s.status != SolverStatus.OPTIMAL or not s.values:
                continue
            viol = 0.0
            for c in P.constraints:          # recomputed from evaluate(), not from the library's own violation()
                val = float(c.expr.evaluate(s.values))
                viol = max(viol, val if c.sense == "<=" else -val if c.sense == ">=" else abs(val))
            for v in P.variables:
                val = s.values[v.name]
                if v.lb is not None:
                    viol = max(viol, v.lb - val)
                if v.ub is not None:
                    viol = max(viol, val - v.ub)
            if kind == "lp_ge_row_resolve":
                xs_ = np.array([s.values[v.name] for v in special[1]])
                viol = max(viol, special[3] - float(special[2] @ xs_))       # the row AS WRITTEN (reference copy of the user's array)
            if viol > 1e-5:
                found += 1
                rep.violation({"kind": "real-solver", "obligation": "OPTIMAL implies feasible", "problem_kind": kind, "method": m,
                               "values": s.values, "max_violation": viol, "constraints": [repr(c)[:200] for c in P.constraints],
                               "bounds": [(v.name, v.lb, v.ub) for v in P.variables]}, concrete=True)
    return tried, found


def run(rep: vk.Report):
    vk.proof_stage(rep, "C06")
    rng = common.rng_for(rep.seed, "C06")
    kws = probed_keywords()
    cases = Cases("post_minimize", IMPORTS, CASE_TYPE, CHECKER, defs=DEFS)
    from optyx.solution import SolverStatus
    NAME = {SolverStatus.OPTIMAL: "OPTIMAL", SolverStatus.INFEASIBLE: "INFEASIBLE", SolverStatus.UNBOUNDED: "UNBOUNDED",
            SolverStatus.MAX_ITERATIONS: "MAX_ITERATIONS", SolverStatus.FAILED: "FAILED"}
    r2_classes = [stubs.mres(True, MESSAGES[0], x=[0.5, 0.5], fun=0.5), stubs.mres(True, MESSAGES[0], x=[0.0, 0.0], fun=0.0),
                  stubs.mres(False, MESSAGES[4], x=[1.0, 1.0], fun=2.0)]
    hist = {}
    for pname, P in problems():
        V = P.variables
        mx = P.sense == "maximize"
        for m, succ, msg, pt in itertools.product(METHODS, [True, False], MESSAGES, POINTS):
            for r2 in (r2_classes if (m == "SLSQP" and pname == "P1") else r2_classes[:1]):
                r1 = stubs.mres(succ, msg, x=list(pt), fun=float(pt[0] ** 2 + pt[1] ** 2) * (-1 if mx else 1))
                with stubs.Seams(minimize_script=[r1, r2]) as S, warnings.catch_warnings():
                    warnings.simplefilter("ignore")
                    try:
                        sol = P.solve(method=m)
                    except Exception as ex:
                        rep.violation({"kind": "exception", "obligation": "wrapper total on scripted answers", "method": m,
                                       "message": msg, "error": repr(ex)[:300]}, concrete=True)
                        continue
                call0 = S.minimize_calls[0]
                cv1 = cvals_term(P, pt)
                cv2 = cvals_term(P, r2.x)
                obs = (f"({NAME[sol.status]}, {'None' if sol.objective_value is None else '(Some ' + ser.q(sol.objective_value) + ')'}, "
                       f"{ser.lst('(' + ser.s(k) + ', ' + ser.q(v) + ')' for k, v in sol.values.items())}, {len(S.minimize_calls)}%nat)")
                flags = (f"({'true' if call0['bounds'] is not None else 'false'}, {'true' if call0['jac'] is not None else 'false'}, "
                         f"{'true' if call0['hess'] is not None else 'false'})")
                term = (f"({ser.s(m)}, {'true' if mx else 'false'}, {ser.lst(ser.s(v.name) for v in V)}, {bounds_term(V)}, "
                        f"({ser.lst(ser.q(v) for v in pt)}, {cv1}, {cv2}), {mres_term(r1, kws)}, {mres_term(r2, kws)}, {obs}, {flags})")
                cases.add(term, {"problem": pname, "method": m, "success": succ, "message": msg, "point": pt,
                                 "status": NAME[sol.status], "calls": len(S.minimize_calls)},
                          kinds={pname, m, msg[:12], str(pt), str(succ)})
                hist[NAME[sol.status]] = hist.get(NAME[sol.status], 0) + 1
    fails = cases.run(shard=400)
    for i in fails[:40]:
        model = cases.model_answer(i, lambda t: "match " + t + " with (m, mx, V, bnds, (x1, c1, c2), r1, r2, _, _) => "
                                   "post_minimize gen_accepted gen_status_chain gen_status_default m mx V gen_atol_default gen_rtol bnds (cv_tbl x1 c1 c2) r1 r2 end")
        meta = cases.meta[i]
        # concrete iff the implementation said OPTIMAL for a point that violates something
        concrete = False
        if meta["status"] == "OPTIMAL":
            P = dict(problems())[meta["problem"]]
            pt = dict(zip([v.name for v in P.variables], meta["point"]))
            viol = max([c.violation(pt) for c in P.constraints] + [0.0] +
                       [v.lb - pt[v.name] for v in P.variables if v.lb is not None] +
                       [pt[v.name] - v.ub for v in P.variables if v.ub is not None])
            concrete = viol > 1e-5 and meta["calls"] == 1
            meta = dict(meta, max_violation_at_reported_point=viol)
        rep.violation({"kind": "correspondence", "obligation": "wrapper outcome = model post_minimize (SolveWrap.v)",
                       "case": cases.terms[i][:4000], "meta": meta, "model": model,
                       "witness": meta if concrete else None}, concrete=concrete)
    tried, found = real_solver_search(rep, rng, 72 if rep.tier == "quick" else 720)
    cov = rep.coverage
    cov["evaluations"] = len(cases.terms) + tried
    cov["distinct_nontrivial"] = cases.nontrivial
    cov["exhaustive"] = True
    cov["rule"] = ("exhaustive product at the minimize seam: 2 problems x 10 methods x success T/F x 6 message classes x 7 returned "
                   "points (x 3 retry answers for SLSQP); every stubbed solve is one case; all are distinct and non-trivial "
                   "(different scripted answer); plus real-solver search on feasible/infeasible/bound-infeasible problems")
    cov["samples"] = [c[:500] for c in cases.terms[:2]]
    cov["status_histogram"] = hist
    cov["probed_keywords"] = kws
    cov["real_solver_runs"] = tried
    cov["real_solver_violations"] = found
    cov["correspondence_failures"] = len(fails)
    cov["traces_validated_against_impl"] = len(cases.terms)
    rep.assumptions += ["SciPy is an oracle: theorems hold for every answer; a NaN point returned with success=True is outside the rational model",
                        "tolerance atol=tol or 1e-6, rtol=1e-6 as in the source (generated)"]


def replay(rep, path):
    import json
    print(json.dumps(json.load(open(path)), indent=1)[:6000])
    return 0
