"""C02 - the symbolic gradient is the true partial derivative.

Proof: Props/C02.v (grad_correct over Coquelicot's is_derive, simplifier lemmas,
       syntactic zero for absent variables, iterative = recursive).
Tie:   (S) the derivative TREE returned by gradient() - default path and the
       explicit-stack path forced from outside - must equal the model's tree
       exactly; (I) the float obtained by evaluating the returned tree must lie
       in the interval enclosure of the real denotation of the model's tree.
Search when the tie breaks: central differences of the implementation's own
       evaluate() against the value of its derivative tree at regular points."""
from __future__ import annotations

import random
import numpy as np

import verifkit as vk
import gen
import ser
from checks import common
from checks.common import Cases

LEVEL = "proof"
IMPORTS = "Autodiff Gen.GenTables"
TREE_CHECKER = ("fun c => match c with (e, v, th, g) => expr_eqb (gradient ln2c ln10c v th e) g end")
NUM_DEFS = ""


def central_difference_witness(e, w, gexpr, rng):
    """Concrete failing input: a regular point where the derivative tree's value
    differs from a central difference quotient of the expression itself."""
    vs = sorted(e.get_variables() | {w}, key=lambda v: v.name)
    names = [v.name for v in vs]
    for _ in range(30):
        pt = common.pick_point(rng, names)
        try:
            with np.errstate(all="ignore"):
                g = common.fval(gexpr.evaluate(pt))
                h = 2.0 ** -12
                up = dict(pt); up[w.name] += h
                dn = dict(pt); dn[w.name] -= h
                f1, f0, fm = (common.fval(e.evaluate(up)), common.fval(e.evaluate(pt)), common.fval(e.evaluate(dn)))
        except Exception:
            continue
        if None in (g, f1, f0, fm):
            continue
        cd = (f1 - fm) / (2 * h)
        # second difference bounds the truncation error of the quotient
        curv = abs(f1 - 2 * f0 + fm) / (h * h)
        if curv > 1e3:
            continue
        tol = 1e-4 * max(1.0, abs(cd)) + 10 * curv * h
        if abs(cd - g) > tol:
            return {"point": pt, "wrt": w.name, "derivative_tree_value": g, "central_difference": cd, "tolerance": tol}
    return None


def run(rep: vk.Report):
    vk.proof_stage(rep, "C02", extra_trusted=["Interval library enclosure (SemI.evalI_correct) for the numeric channel"])
    n_expr = 150 if rep.tier == "quick" else 8000
    rng = common.rng_for(rep.seed, "C02")
    import optyx.core.autodiff as AD
    from optyx import Variable
    trees = Cases("grad-tree", IMPORTS, "expr * string * nat * expr", TREE_CHECKER)
    nums = []
    num_meta = []
    keep = []
    unsupported = 0
    errors = {}
    hits = {}
    simp_hits = {"zero": 0, "one": 0, "const": 0}
    param_updates = 0
    for g, e in common.corpus(rng, rep.tier, n_expr, errors=errors):
        for k, v in g.hits.items():
            hits[k] = hits.get(k, 0) + v
        vs = sorted(e.get_variables(), key=lambda v: v.name)
        wrts = rng.sample(vs, min(3, len(vs))) + [Variable("zz_absent")]
        params = common.params_of(e)
        for w in wrts:
            for forced in (False, True):
                S = ser.Ser()
                old = AD._RECURSION_THRESHOLD
                try:
                    if forced:
                        AD._RECURSION_THRESHOLD = 0
                    te = S.expr(e)
                    gr = AD.gradient(e, w)
                    tg = S.expr(gr)
                except ser.Unsupported:
                    unsupported += 1
                    continue
                except Exception as ex:
                    key = ("forced:" if forced else "default:") + type(ex).__name__
                    errors[key] = errors.get(key, 0) + 1
                    rep.violation({"kind": "exception", "obligation": "gradient() is total on API-built expressions",
                                   "path": "iterative" if forced else "default", "expr": te[:3000], "wrt": w.name,
                                   "error": repr(ex)[:500]}, concrete=True)
                    continue
                finally:
                    AD._RECURSION_THRESHOLD = old
                trees.add(f"({te}, {ser.s(w.name)}, {0 if forced else 400}%nat, {tg})",
                          {"wrt": w.name, "forced": forced})
                keep.append((e, w, gr))
                if tg == "(Const (QQ (0) 1))":
                    simp_hits["zero"] += 1
                elif tg == "(Const (QQ (1) 1))":
                    simp_hits["one"] += 1
                elif tg.startswith("(Const"):
                    simp_hits["const"] += 1
                if forced:
                    continue
                # numeric observations of the returned tree at up to 2 points
                names = sorted({v.name for v in e.get_variables()} | {w.name})
                obs_added = 0
                for _ in range(4):
                    if obs_added >= 2:
                        break
                    pt = common.pick_point(rng, names)
                    try:
                        with np.errstate(all="ignore"):
                            val = common.fval(gr.evaluate(pt))
                            base = common.fval(e.evaluate(pt))
                    except Exception:
                        val = None
                        base = None
                    if val is None or base is None:
                        continue
                    ppts = {n: p.value for n, p in params.items()}
                    nums.append(f"({te}, {ser.s(w.name)}, {common.pts_term(pt)}, {common.pts_term(ppts)}, [{ser.q(val)}])")
                    num_meta.append({"wrt": w.name, "point": pt, "value": val, "idx": len(keep) - 1})
                    obs_added += 1
                # Parameters re-set AFTER differentiation: the tree already returned, and a fresh gradient() call (which may be served
                # from the derivative cache), must both follow the new values
                scal = {n: p for n, p in params.items() if np.ndim(p.value) == 0}
                if scal and obs_added:
                    saved_p = {n: p.value for n, p in scal.items()}
                    for n, p in scal.items():
                        p.set(float(rng.choice([-1.5, 0.25, 2.0, 3.5, 0.0, 1.0])) + 0.0625 * rng.randrange(8))
                    param_updates += 1
                    pt = common.pick_point(rng, names)
                    try:
                        with np.errstate(all="ignore"):
                            v1 = common.fval(gr.evaluate(pt))
                            v2 = common.fval(AD.gradient(e, w).evaluate(pt))
                            base = common.fval(e.evaluate(pt))
                    except Exception:
                        v1 = v2 = base = None
                    if None not in (v1, v2, base):
                        ppts = {n: p.value for n, p in scal.items()}
                        nums.append(f"({te}, {ser.s(w.name)}, {common.pts_term(pt)}, {common.pts_term(ppts)}, [{ser.q(v1)}; {ser.q(v2)}])")
                        num_meta.append({"wrt": w.name, "point": pt, "value": [v1, v2], "idx": len(keep) - 1, "after_parameter_update": ppts})
                    for n, p in scal.items():
                        p.set(saved_p[n])
    tree_fails = trees.run()
    num_checker = ("fun c => match c with (e, v, pts, ppts, obs) => "
                   "worst (map (num_check (grad ln2c ln10c v e) pts ppts) obs) end")
    # ---- derivatives of formulas AS WRITTEN (independent NumPy function, finite differences), the same object under two orders
    wd_checked, wd_bad = common.written_derivatives(rep, rng, 2 if rep.tier == "quick" else 40, "sym", "C02")
    num_fails, num_und = common.run_classify(IMPORTS + " SemI HarnessI", "", "expr * string * list (string * Q) * list (string * Q) * list Q",
                                             nums, num_checker) if nums else ([], [])

    for i in tree_fails:
        e, w, gr = keep[i]
        wit = central_difference_witness(e, w, gr, rng)
        model = trees.model_answer(i, lambda t: "match " + t + " with (e, v, th, _) => gradient ln2c ln10c v th e end")
        rep.violation({"kind": "correspondence", "obligation": "gradient tree = model (Autodiff.v grad)",
                       "case": trees.terms[i][:5000], "meta": trees.meta[i], "model": model, "witness": wit},
                      concrete=wit is not None)
    for i in num_fails:
        m = num_meta[i]
        e, w, gr = keep[m["idx"]]
        wit = central_difference_witness(e, w, gr, rng)
        if wit is None and m.get("after_parameter_update"):
            wit = {"history": "gradient() called, then Parameter.set(), then the derivative evaluated", "parameters_now": m["after_parameter_update"],
                   "point": m["point"], "wrt": m["wrt"], "derivative_values_returned_tree_and_fresh_call": m["value"]}
        rep.violation({"kind": "numeric", "obligation": "value of derivative tree within the enclosure of the proved derivative",
                       "case": nums[i][:5000], "meta": m, "witness": wit}, concrete=wit is not None)

    cov = rep.coverage
    cov["derivatives_of_formulas_as_written_vs_finite_differences"] = wd_checked
    cov["derivatives_of_formulas_as_written_disagreements"] = wd_bad
    cov["evaluations"] = len(trees.terms) + len(nums)
    cov["distinct_nontrivial"] = trees.nontrivial
    cov["rule"] = ("API-built expressions (seeded generator), each differentiated w.r.t. up to 3 of its variables and one absent "
                   "variable, on the default and the forced explicit-stack path; distinct = distinct serialised case, "
                   "non-trivial = at least two node kinds; numeric observations at dyadic points, verdict by interval enclosure")
    cov["samples"] = [t[:400] for t in trees.terms[:3]] + [n[:400] for n in nums[:2]]
    cov["node_kind_histogram"] = dict(sorted(trees.hist.items()))
    cov["generator_hits"] = dict(sorted(hits.items()))
    cov["result_shape_hits"] = simp_hits
    cov["tree_cases"] = len(trees.terms)
    cov["numeric_cases"] = len(nums)
    cov["numeric_undecided_near_singularity"] = len(num_und)
    cov["numeric_decided"] = len(nums) - len(num_und)
    cov["unsupported_by_serialiser"] = unsupported
    cov["exceptions"] = errors
    cov["correspondence_failures"] = len(tree_fails) + len(num_fails)
    cov["traces_validated_against_impl"] = len(trees.terms) + len(nums) - len(num_und)
    rep.assumptions += ["log2/log10: the derivative embeds the double nearest ln 2 / ln 10 (exact_ops excludes them from the real-number theorem; their trees are still compared exactly)",
                        "binary64 primitives are within one outward rounding at 40 bits of the exact operation (numeric channel)"]


def replay(rep, path):
    import json
    print(json.dumps(json.load(open(path)), indent=1)[:6000])
    return 0
