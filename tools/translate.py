#!/usr/bin/env python
"""Channel T: regenerate coq/Optyx/Gen/GenTables.v from the CURRENT optyx source.

Fail-closed: the translator only understands the finite, declarative fragments
listed below; any deviation in shape is an error (exit 1), which the check
treats like a broken proof obligation.  The file is rewritten only when its
content changes, so make does not rebuild needlessly.

Extracted (via the Python ast of the source files, never via import of optyx):
  * _RECURSION_THRESHOLD of expressions.py, compiler.py, autodiff.py, analysis.py
  * _LARGE_GRADIENT (compiler.py)
  * lru_cache(maxsize=...) of _compile_cached, _gradient_cached, _compute_degree_cached
  * HESSIAN_METHODS, DERIVATIVE_FREE_METHODS, BOUNDS_METHODS (scipy_solver.py)
  * UnaryOp._OPS, BinaryOp._OPS, ElementwiseUnary._NUMPY_FUNCS, VectorUnarySum._NUMPY_FUNCS
  * the literals np.log(2.0), np.log(10.0) embedded by _unary_gradient
  * the closures of the vectorised derivative paths (see translate_closures.py)
"""
from __future__ import annotations

import ast
import os
import sys
from fractions import Fraction

HERE = os.path.dirname(os.path.abspath(__file__))
VERIF = os.path.dirname(HERE)
REPO = os.environ.get("OPTYX_REPO", "/repo")
SRC = os.path.join(REPO, "src", "optyx")
OUT = os.path.join(VERIF, "coq", "Optyx", "Gen", "GenTables.v")


class TranslationError(Exception):
    pass


def parse(rel):
    with open(os.path.join(SRC, rel), encoding="utf-8") as f:
        return ast.parse(f.read(), filename=rel)


def module_int(tree, name, rel):
    vals = []
    for node in tree.body:
        if isinstance(node, ast.Assign) and len(node.targets) == 1 and isinstance(node.targets[0], ast.Name) \
                and node.targets[0].id == name:
            if isinstance(node.value, ast.Constant) and isinstance(node.value.value, (int, float)):
                vals.append(node.value.value)
            else:
                raise TranslationError(f"{rel}: {name} is not a numeric literal")
    if len(vals) != 1:
        raise TranslationError(f"{rel}: expected exactly one module-level {name}, found {len(vals)}")
    return vals[0]


def find_func(tree, name, rel):
    for node in ast.walk(tree):
        if isinstance(node, ast.FunctionDef) and node.name == name:
            return node
    raise TranslationError(f"{rel}: function {name} not found")


def find_class(tree, name, rel):
    for node in tree.body:
        if isinstance(node, ast.ClassDef) and node.name == name:
            return node
    raise TranslationError(f"{rel}: class {name} not found")


def lru_maxsize(tree, fname, rel):
    fn = find_func(tree, fname, rel)
    for d in fn.decorator_list:
        if isinstance(d, ast.Call) and isinstance(d.func, ast.Name) and d.func.id == "lru_cache":
            for kw in d.keywords:
                if kw.arg == "maxsize" and isinstance(kw.value, ast.Constant) and isinstance(kw.value.value, int):
                    return kw.value.value
    raise TranslationError(f"{rel}: {fname} has no lru_cache(maxsize=<int>) decorator")


def string_set(fn, name, rel):
    for node in ast.walk(fn):
        if isinstance(node, ast.Assign) and len(node.targets) == 1 and isinstance(node.targets[0], ast.Name) \
                and node.targets[0].id == name:
            v = node.value
            if isinstance(v, ast.Set) and all(isinstance(e, ast.Constant) and isinstance(e.value, str) for e in v.elts):
                return sorted(e.value for e in v.elts)
            raise TranslationError(f"{rel}: {name} is not a set of string literals")
    raise TranslationError(f"{rel}: {name} not found")


def np_table(cls, attr, rel):
    """class attribute  attr = {"name": np.func, ...}  ->  [(name, func)]"""
    for node in cls.body:
        tgt = None
        if isinstance(node, ast.Assign) and len(node.targets) == 1 and isinstance(node.targets[0], ast.Name):
            tgt, val = node.targets[0].id, node.value
        elif isinstance(node, ast.AnnAssign) and isinstance(node.target, ast.Name):
            tgt, val = node.target.id, node.value
        if tgt == attr:
            if not isinstance(val, ast.Dict):
                raise TranslationError(f"{rel}: {cls.name}.{attr} is not a dict literal")
            out = []
            for k, v in zip(val.keys, val.values):
                if not (isinstance(k, ast.Constant) and isinstance(k.value, str)):
                    raise TranslationError(f"{rel}: {cls.name}.{attr} has a non-string key")
                if not (isinstance(v, ast.Attribute) and isinstance(v.value, ast.Name) and v.value.id == "np"):
                    raise TranslationError(f"{rel}: {cls.name}.{attr}[{k.value!r}] is not np.<func>")
                out.append((k.value, v.attr))
            return out
    raise TranslationError(f"{rel}: {cls.name}.{attr} not found")


def np_log_literals(fn, rel):
    """Constant(np.log(<float literal>)) occurrences inside fn -> list of floats (the arguments)."""
    args = []
    for node in ast.walk(fn):
        if isinstance(node, ast.Call) and isinstance(node.func, ast.Attribute) and node.func.attr == "log" \
                and isinstance(node.func.value, ast.Name) and node.func.value.id == "np":
            if len(node.args) == 1 and isinstance(node.args[0], ast.Constant) and isinstance(node.args[0].value, float):
                args.append(node.args[0].value)
            else:
                raise TranslationError(f"{rel}: np.log(...) with a non-literal argument in {fn.name}")
    return args


def coq_str(s):
    return '"' + s.replace('"', '""') + '"'


def coq_q(x):
    fr = Fraction(x)
    return f"(Qmake ({fr.numerator})%Z {fr.denominator}%positive)"


def coq_list(items):
    return "[" + "; ".join(items) + "]"


NPF = {  # numpy ufunc name -> model's uop constructor (what the ufunc denotes over R)
    "negative": "Neg", "abs": "Abs", "sin": "Sin", "cos": "Cos", "tan": "Tan", "exp": "Exp",
    "log": "Log", "log2": "Log2", "log10": "Log10", "sqrt": "Sqrt", "tanh": "Tanh", "sinh": "Sinh",
    "cosh": "Cosh", "arcsin": "Asin", "arccos": "Acos", "arctan": "Atan", "arcsinh": "Asinh",
    "arccosh": "Acosh", "arctanh": "Atanh",
}
NPB = {"add": "Add", "subtract": "Sub", "multiply": "Mul", "divide": "Div", "power": "Pow"}


def main():
    import numpy as np  # only to evaluate np.log(<literal>) exactly as the source does at run time

    t_expr = parse("core/expressions.py")
    t_comp = parse("core/compiler.py")
    t_auto = parse("core/autodiff.py")
    t_anal = parse("analysis.py")
    t_vec = parse("core/vectors.py")
    t_scipy = parse("solvers/scipy_solver.py")

    th = {
        "expressions": module_int(t_expr, "_RECURSION_THRESHOLD", "expressions.py"),
        "compiler": module_int(t_comp, "_RECURSION_THRESHOLD", "compiler.py"),
        "autodiff": module_int(t_auto, "_RECURSION_THRESHOLD", "autodiff.py"),
        "analysis": module_int(t_anal, "_RECURSION_THRESHOLD", "analysis.py"),
    }
    for k, v in th.items():
        if not (isinstance(v, int) and v >= 1):
            raise TranslationError(f"{k}: threshold {v!r} is not an integer >= 1")
    large = module_int(t_comp, "_LARGE_GRADIENT", "compiler.py")
    caps = {
        "compile": lru_maxsize(t_comp, "_compile_cached", "compiler.py"),
        "gradient": lru_maxsize(t_auto, "_gradient_cached", "autodiff.py"),
        "degree": lru_maxsize(t_anal, "_compute_degree_cached", "analysis.py"),
    }
    solve_scipy = find_func(t_scipy, "solve_scipy", "scipy_solver.py")
    hess_m = string_set(solve_scipy, "HESSIAN_METHODS", "scipy_solver.py")
    free_m = string_set(solve_scipy, "DERIVATIVE_FREE_METHODS", "scipy_solver.py")
    bnd_m = string_set(solve_scipy, "BOUNDS_METHODS", "scipy_solver.py")

    un_ops = np_table(find_class(t_expr, "UnaryOp", "expressions.py"), "_OPS", "expressions.py")
    bin_ops = np_table(find_class(t_expr, "BinaryOp", "expressions.py"), "_OPS", "expressions.py")
    ew_ops = np_table(find_class(t_vec, "ElementwiseUnary", "vectors.py"), "_NUMPY_FUNCS", "vectors.py")
    vus_ops = np_table(find_class(t_vec, "VectorUnarySum", "vectors.py"), "_NUMPY_FUNCS", "vectors.py")

    def den_un(table, what):
        out = []
        for name, f in table:
            if f not in NPF:
                raise TranslationError(f"{what}: unknown numpy function np.{f}")
            out.append(f"({coq_str(name)}, {NPF[f]})")
        return coq_list(out)

    def den_bin(table):
        out = []
        sym = {"+": "Add", "-": "Sub", "*": "Mul", "/": "Div", "**": "Pow"}
        for name, f in table:
            if f not in NPB or name not in sym:
                raise TranslationError(f"BinaryOp._OPS: unknown entry {name!r}: np.{f}")
            out.append(f"({sym[name]}, {NPB[f]})")
        return coq_list(out)

    logs = np_log_literals(find_func(t_auto, "_unary_gradient", "autodiff.py"), "autodiff.py")
    if sorted(logs) != [2.0, 10.0]:
        raise TranslationError(f"_unary_gradient: expected np.log(2.0) and np.log(10.0), found {logs}")
    ln2 = float(np.log(2.0))
    ln10 = float(np.log(10.0))

    from translate_closures import closure_tables
    closures_v = closure_tables(t_comp, t_auto)
    from translate_status import status_tables
    status_v = status_tables(t_scipy, parse("solvers/lp_solver.py"), t_comp, t_auto)

    lines = []
    w = lines.append
    w("(* GENERATED by tools/translate.py from the optyx source - do not edit.")
    w("   Regenerated on every check run; the obligations at the end are re-proved each time. *)")
    w("From Coq Require Import String List QArith ZArith Bool.")
    w("From Optyx Require Import Syntax ArrTerm SolveWrap.")
    w("Import ListNotations.")
    w("Open Scope string_scope.")
    w("")
    for k, v in th.items():
        w(f"Definition th_{k} : nat := {v}.")
    w(f"Definition large_gradient : Q := {coq_q(large)}.")
    for k, v in caps.items():
        w(f"Definition cap_{k} : nat := {v}.")
    w(f"Definition hessian_methods : list string := {coq_list(coq_str(m) for m in hess_m)}.")
    w(f"Definition derivative_free_methods : list string := {coq_list(coq_str(m) for m in free_m)}.")
    w(f"Definition bounds_methods : list string := {coq_list(coq_str(m) for m in bnd_m)}.")
    w(f"Definition ln2c : Q := {coq_q(ln2)}.")
    w(f"Definition ln10c : Q := {coq_q(ln10)}.")
    w(f"Definition gen_unary_ops : list (string * uop) := {den_un(un_ops, 'UnaryOp._OPS')}.")
    w(f"Definition gen_binary_ops : list (bop * bop) := {den_bin(bin_ops)}.")
    w(f"Definition gen_elementwise_ops : list (string * uop) := {den_un(ew_ops, 'ElementwiseUnary._NUMPY_FUNCS')}.")
    w(f"Definition gen_vunarysum_ops : list (string * uop) := {den_un(vus_ops, 'VectorUnarySum._NUMPY_FUNCS')}.")
    w("")
    w(closures_v)
    w(status_v)
    text = "\n".join(lines) + "\n"
    os.makedirs(os.path.dirname(OUT), exist_ok=True)
    old = open(OUT).read() if os.path.exists(OUT) else None
    if old != text:
        with open(OUT, "w") as f:
            f.write(text)
        print("GenTables.v rewritten")
    else:
        print("GenTables.v unchanged")


if __name__ == "__main__":
    try:
        main()
    except TranslationError as e:
        print("TRANSLATION FAILURE (fail-closed):", e)
        sys.exit(1)
