"""Serialise live optyx objects into Coq terms of the model's [expr] type.

The harness runs the real API, then walks the Python objects it obtained.
Constants are emitted as exact rationals (every float is dyadic).  VectorVariable
objects are numbered by identity.  Anything outside the modelled fragment
(array-valued constants/parameters, unknown node classes) raises Unsupported,
which the callers count and report (never silently skipped).
"""
from __future__ import annotations

from fractions import Fraction
import numbers

import numpy as np

from optyx.core.expressions import Expression, Constant, Variable, BinaryOp, UnaryOp
from optyx.core.parameters import Parameter
from optyx.core import vectors as V
from optyx.core import matrices as M


class Unsupported(Exception):
    pass


BOPS = {"+": "Add", "-": "Sub", "*": "Mul", "/": "Div", "**": "Pow"}
UOPS = {
    "neg": "Neg", "abs": "Abs", "sin": "Sin", "cos": "Cos", "tan": "Tan", "exp": "Exp",
    "log": "Log", "log2": "Log2", "log10": "Log10", "sqrt": "Sqrt", "tanh": "Tanh",
    "sinh": "Sinh", "cosh": "Cosh", "asin": "Asin", "acos": "Acos", "atan": "Atan",
    "asinh": "Asinh", "acosh": "Acosh", "atanh": "Atanh",
}


def scalar(value) -> Fraction:
    """Exact rational of a Python/NumPy scalar."""
    if isinstance(value, np.ndarray):
        if value.ndim != 0:
            raise Unsupported("array-valued constant")
        value = value.item()
    if isinstance(value, (bool, np.bool_)):
        raise Unsupported("boolean constant")
    if isinstance(value, numbers.Integral):
        return Fraction(int(value))
    if isinstance(value, numbers.Real):
        f = float(value)
        if f != f or f in (float("inf"), float("-inf")):
            raise Unsupported("non-finite constant")
        return Fraction(f)
    raise Unsupported(f"constant of type {type(value).__name__}")


def q(value) -> str:
    fr = value if isinstance(value, Fraction) else scalar(value)
    n, d = fr.numerator, fr.denominator
    return f"(QQ ({n}) {d})"


def s(name: str) -> str:
    return '"' + name.replace('"', '""') + '"'


def lst(items) -> str:
    return "[" + "; ".join(items) + "]"


class Ser:
    """Serialiser with a per-case numbering of VectorVariable objects."""

    def __init__(self):
        self.vids: dict[int, int] = {}
        self.keep = []  # keep objects alive so id() stays unique

    def vid(self, vec) -> int:
        k = id(vec)
        if k not in self.vids:
            self.vids[k] = len(self.vids) + 1
            self.keep.append(vec)
        return self.vids[k]

    def kind_elems(self, vec):
        if isinstance(vec, V.VectorVariable):
            return f"(KVar {self.vid(vec)})", [self.expr(v) for v in vec._variables]
        if isinstance(vec, V.VectorExpression):
            return "KExpr", [self.expr(e) for e in vec._expressions]
        raise Unsupported(f"vector operand {type(vec).__name__}")

    def names(self, vec) -> str:
        if not isinstance(vec, V.VectorVariable):
            raise Unsupported("expected VectorVariable")
        return lst(s(v.name) for v in vec._variables)

    def expr(self, e) -> str:
        if isinstance(e, Constant):
            return f"(Const {q(e.value)})"
        if isinstance(e, Parameter):
            v = e.value
            if isinstance(v, np.ndarray) and v.ndim > 0:
                raise Unsupported("array-valued parameter")
            return f"(Param {s(e.name)})"
        if isinstance(e, Variable):
            return f"(Var {s(e.name)})"
        if isinstance(e, BinaryOp):
            return f"(Bin {BOPS[e.op]} {self.expr(e.left)} {self.expr(e.right)})"
        if isinstance(e, UnaryOp):
            return f"(Un {UOPS[e.op]} {self.expr(e.operand)})"
        if isinstance(e, V.VectorSum):
            return f"(VSum {self.vid(e.vector)} {self.names(e.vector)})"
        if isinstance(e, V.LinearCombination):
            k, es = self.kind_elems(e.vector)
            cs = lst(q(c) for c in np.asarray(e.coefficients).tolist())
            return f"(LinComb {cs} {k} {lst(es)})"
        if isinstance(e, V.DotProduct):
            kl, ls = self.kind_elems(e.left)
            kr, rs = self.kind_elems(e.right)
            return f"(Dot {kl} {lst(ls)} {kr} {lst(rs)})"
        if isinstance(e, V.L2Norm):
            k, es = self.kind_elems(e.vector)
            return f"(L2n {k} {lst(es)})"
        if isinstance(e, V.L1Norm):
            k, es = self.kind_elems(e.vector)
            return f"(L1n {k} {lst(es)})"
        if isinstance(e, M.QuadraticForm):
            k, es = self.kind_elems(e.vector)
            m = lst(lst(q(c) for c in row) for row in np.asarray(e.matrix).tolist())
            return f"(QForm {k} {lst(es)} {m})"
        if isinstance(e, V.VectorPowerSum):
            return f"(VPowSum {self.vid(e.vector)} {self.names(e.vector)} {q(e.power)})"
        if isinstance(e, V.VectorUnarySum):
            return f"(VUnSum {self.vid(e.vector)} {self.names(e.vector)} {UOPS[e.op]})"
        if isinstance(e, V.VectorExpressionSum):
            return f"(VExprSum {lst(self.expr(x) for x in e.expression._expressions)})"
        if isinstance(e, M.MatrixSum):
            ents = M._matrix_entries(e.matrix)
            isvar = "true" if isinstance(e.matrix, M.MatrixVariable) else "false"
            return f"(MSum {isvar} {lst(self.expr(x) for x in ents)})"
        if isinstance(e, M.FrobeniusNorm):
            ents = M._matrix_entries(e.matrix)
            return f"(Frob {lst(self.expr(x) for x in ents)})"
        raise Unsupported(f"node {type(e).__name__}")


def opt_nat(d) -> str:
    return "None" if d is None else f"(Some {int(d)})"
