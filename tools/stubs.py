"""Scripted stand-ins for the two SciPy seams used by optyx:
   optyx.solvers.scipy_solver.minimize   (module attribute)
   scipy.optimize.linprog                (imported inside solve_lp at call time)
A stub records the arguments it was handed and returns the next scripted result."""
from __future__ import annotations

import contextlib
from types import SimpleNamespace

import numpy as np
import scipy.optimize
import optyx.solvers.scipy_solver as SS


class Result(SimpleNamespace):
    pass


def mres(success=True, message="Optimization terminated successfully", x=None, fun=0.0, nit=3, status=0):
    return Result(success=success, message=message, x=None if x is None else np.asarray(x, dtype=float),
                  fun=fun, nit=nit, status=status)


class Seams:
    def __init__(self, minimize_script=None, linprog_script=None, passthrough=False):
        self.minimize_calls = []
        self.linprog_calls = []
        self.minimize_script = list(minimize_script or [])
        self.linprog_script = list(linprog_script or [])
        self.passthrough = passthrough
        self._real_minimize = SS.minimize
        self._real_linprog = scipy.optimize.linprog

    def _minimize(self, fun=None, x0=None, method=None, jac=None, hess=None, bounds=None, constraints=(), tol=None,
                  options=None, **kw):
        call = dict(fun=fun, x0=None if x0 is None else np.array(x0, dtype=float), method=method, jac=jac, hess=hess,
                    bounds=bounds, constraints=constraints, tol=tol, options=options, kw=kw)
        self.minimize_calls.append(call)
        if self.passthrough:
            return self._real_minimize(fun=fun, x0=x0, method=method, jac=jac, hess=hess, bounds=bounds,
                                       constraints=constraints, tol=tol, options=options, **kw)
        r = self.minimize_script.pop(0) if self.minimize_script else mres(x=x0, fun=float(fun(np.asarray(x0))))
        if callable(r):
            r = r(call)
        if isinstance(r, BaseException):
            raise r
        return r

    def _linprog(self, c=None, A_ub=None, b_ub=None, A_eq=None, b_eq=None, bounds=None, method=None, **kw):
        call = dict(c=None if c is None else np.array(c, dtype=float), A_ub=A_ub, b_ub=b_ub, A_eq=A_eq, b_eq=b_eq,
                    bounds=bounds, method=method, kw=kw)
        self.linprog_calls.append(call)
        if self.passthrough:
            return self._real_linprog(c=c, A_ub=A_ub, b_ub=b_ub, A_eq=A_eq, b_eq=b_eq, bounds=bounds, method=method, **kw)
        r = self.linprog_script.pop(0) if self.linprog_script else mres(x=np.zeros(len(c)), fun=0.0)
        if callable(r):
            r = r(call)
        if isinstance(r, BaseException):
            raise r
        return r

    def __enter__(self):
        SS.minimize = self._minimize
        scipy.optimize.linprog = self._linprog
        return self

    def __exit__(self, *a):
        SS.minimize = self._real_minimize
        scipy.optimize.linprog = self._real_linprog
        return False
