"""Seeded generator of optyx expressions built ONLY through the public API.

Every random choice comes from one random.Random instance, so a seed replays.
Profiles restrict the operator set:
  'poly'   : + - * / by constants, natural powers, neg, linear vector reductions
  'smooth' : adds the elementary functions and nonlinear reductions
  'all'    : adds parameters, abs/norms, expression exponents
"""
from __future__ import annotations

import random
import numpy as np

import optyx
from optyx import Variable, Constant, VectorVariable, MatrixVariable, Parameter
from optyx.core import functions as F
from optyx.core.matrices import quadratic_form, frobenius_norm, trace
from optyx.core.vectors import norm as vnorm, vector_sum

UNARY_ALL = ["sin", "cos", "tan", "exp", "log", "log2", "log10", "sqrt", "tanh", "sinh",
             "cosh", "asin", "acos", "atan", "asinh", "acosh", "atanh"]
UNARY_VEC = ["sin", "cos", "tan", "exp", "log", "sqrt", "sinh", "cosh", "tanh"]
FN = {"sin": F.sin, "cos": F.cos, "tan": F.tan, "exp": F.exp, "log": F.log, "log2": F.log2,
      "log10": F.log10, "sqrt": F.sqrt, "tanh": F.tanh, "sinh": F.sinh, "cosh": F.cosh,
      "asin": F.asin, "acos": F.acos, "atan": F.atan, "asinh": F.asinh, "acosh": F.acosh,
      "atanh": F.atanh, "abs": F.abs_}

CONSTS = [0, 1, 2, 3, -1, -2, 0.5, 1.5, -0.5, 4, 0.25, 5, 1.0, 2.0, 0.0]
NAT_POWS = [0, 1, 2, 3, 2.0, 1.0, 0.0]
ANY_POWS = [0, 1, 2, 3, -1, -2, 0.5, 1.5, 2.0, -0.5]


class Pool:
    """Variables, vectors, matrices and parameters a case may draw from."""

    def __init__(self, rng: random.Random, with_params=False, with_matrices=True, tag=""):
        self.rng = rng
        scal_names = rng.sample(["a", "b", "z", "x1", "x2", "x10", "w", "y_3", "u"], 3)
        self.scalars = [Variable(tag + n) for n in scal_names]
        nv = rng.randint(1, 2)
        self.vectors = [VectorVariable(tag + nm, rng.randint(1, 4)) for nm in rng.sample(["x", "y", "v"], nv)]
        self.matrices = []
        if with_matrices:
            r, c = rng.randint(1, 3), rng.randint(1, 3)
            self.matrices.append(MatrixVariable(tag + "X", r, c))
            self.matrices.append(MatrixVariable(tag + "Y", r, c))
            n = rng.randint(1, 3)
            self.matrices.append(MatrixVariable(tag + "S", n, n, symmetric=True))
        self.params = [Parameter(tag + "p", rng.choice([2.0, 0.5, -1.0, 3.0])),
                       Parameter(tag + "q", rng.choice([1.0, 2.0, 4.0]))] if with_params else []

    def all_scalar_vars(self):
        out = list(self.scalars)
        for v in self.vectors:
            out.extend(v._variables)
        for m in self.matrices:
            out.extend(m.get_variables())
        return out


class Gen:
    def __init__(self, rng: random.Random, profile="all", pool: Pool | None = None, tag=""):
        self.rng = rng
        self.profile = profile
        self.pool = pool or Pool(rng, with_params=(profile == "all"), tag=tag)
        self.hits: dict[str, int] = {}
        self.array_variety = True        # integer / non-contiguous coefficient arrays
        self.clone_leaves = True         # equal-named but distinct Variable objects for one variable
        # NumPy scalar types / 0-d arrays as exponents and constants.  optyx stores them as ndarray-valued Constants, for which
        # its degree analysis (soundly) answers None and its power rule takes the general a**b route: behaviour the Coq syntax
        # (Const Q) does not distinguish, so only the checks that allow for it switch this on (C04)
        self.numpy_scalars = False
        self.numpy_coefs = False          # NumPy scalar types as coefficients / offsets (safe for the linear and value channels)

    def hit(self, k):
        self.hits[k] = self.hits.get(k, 0) + 1

    # ---- pieces ----
    def const(self):
        return self.rng.choice(CONSTS)

    def coeffs(self, n):
        """Coefficient array as a user may hold it: float64 (mostly), an integer dtype, a plain Python list of ints,
        or a non-contiguous view (reversed / strided) of a longer buffer."""
        r = self.rng
        k = r.random()
        if k < 0.70 or not self.array_variety:
            return np.array([float(r.choice([0, 1, 2, -1, 0.5, 3, -2])) for _ in range(n)])
        ints = [r.choice([0, 1, 2, -1, 3, -2]) for _ in range(n)]
        if k < 0.80:
            self.hit("coef:int64")
            return np.array(ints, dtype=np.int64)
        if k < 0.84:
            self.hit("coef:int32")
            return np.array(ints, dtype=np.int32)
        if k < 0.88:
            self.hit("coef:uint8")
            return np.array([abs(t) + (1 if j % 2 else 0) for j, t in enumerate(ints)], dtype=self.rng.choice([np.uint8, np.uint16]))
        if k < 0.92:
            self.hit("coef:reversed-view")
            return np.array([float(t) + 0.5 for t in ints])[::-1]
        self.hit("coef:strided-view")
        buf = np.zeros(2 * n)
        buf[::2] = [float(t) - 0.25 for t in ints]
        return buf[::2]

    def coeffs_distinct(self, n):
        base = self.rng.choice([1.0, 0.5, 2.0])
        return np.array([base * (k + 1) * (-1 if k == 1 else 1) for k in range(n)])

    def matrix_asym(self, n):
        return np.array([[float(1 + 2 * i - j + (3 if i > j else 0)) for j in range(n)] for i in range(n)])

    def matrix(self, n):
        return np.array([[float(self.rng.choice([0, 1, 2, -1, 0.5])) for _ in range(n)] for _ in range(n)])

    def view(self):
        """A VectorVariable: whole vector, slice (any step), matrix row/column/diagonal."""
        r = self.rng
        choice = r.random()
        if choice < 0.45 or not self.pool.matrices:
            x = r.choice(self.pool.vectors)
            if r.random() < 0.5 or x.size == 1:
                self.hit("view:whole")
                return x
            for _ in range(8):
                a = r.choice([None, 0, 1, -1, 2])
                b = r.choice([None, 1, 2, 3, -1])
                st = r.choice([None, None, 1, 2, -1])
                try:
                    y = x[slice(a, b, st)]
                    self.hit("view:slice")
                    return y
                except IndexError:
                    continue
            return x
        m = r.choice(self.pool.matrices)
        if r.random() < 0.3:
            m = m.T
            self.hit("view:T")
        k = r.random()
        if k < 0.4:
            self.hit("view:row")
            return m[r.randrange(m.rows), :]
        if k < 0.8:
            self.hit("view:col")
            return m[:, r.randrange(m.cols)]
        if m.rows == m.cols:
            self.hit("view:diag")
            return m.diagonal()
        return m[0, :]

    def vec(self, size=None, depth=1):
        """A vector-valued object (VectorVariable or VectorExpression) of the given size."""
        r = self.rng
        for _ in range(30):
            base = self.view()
            if size is None or base.size == size:
                break
        else:
            base = VectorVariable(f"t{r.randrange(1000)}", size)
        if depth <= 0 or r.random() < 0.35:
            return base
        n = base.size
        k = r.random()
        self.hit("vec:expr")
        if k < 0.15:
            return base + self.const()
        if k < 0.3:
            return self.rng.choice([2, -1, 0.5, 3]) * base
        if k < 0.4:
            return base - self.vec(n, depth - 1)
        if k < 0.5:
            return base + self.vec(n, depth - 1)
        if k < 0.58:
            return self.coeffs(n) - base          # reflected array op
        if k < 0.66:
            return base * self.coeffs(n)
        if k < 0.70:
            return -base
        if k < 0.74:
            return (base + 0) ** self.rng.choice([2, 3, 1, 2.0])   # VectorExpression power (a bare view gives ElementwisePower)
        if k < 0.78:
            return base / self.rng.choice([2, 4, 0.5])
        if k < 0.86 and self.profile != "poly":
            w = base * self.vec(n, 0)
            return w
        if k < 0.93 and self.profile != "poly":
            fn = self.rng.choice(UNARY_VEC)
            return FN[fn](base + 0)               # VectorExpression of UnaryOps
        A = np.array([[float(self.rng.choice([0, 1, 2, -1])) for _ in range(n)] for _ in range(n if size is not None else self.rng.randint(1, 3))])
        if self.rng.random() < 0.4:
            # the function form accepts vector EXPRESSIONS: a non-affine operand, or a product of a product
            from optyx import matmul
            Asq = np.array([[float(self.rng.choice([0, 1, 2, -1])) + (0.5 if i_ == j_ else 0.0) for j_ in range(n)] for i_ in range(n)])
            inner = self.rng.choice([lambda: (base + 0) ** 2, lambda: base * 2 - 1, lambda: matmul(Asq, base), lambda: matmul(Asq, (base + 1) ** 2)])()
            self.hit("vec:matmul-fn")
            return matmul(A, inner)
        return A @ base                            # MatrixVectorProduct (size = rows)

    RED_POLY = ["sum", "lincomb", "lincomb_e", "esum", "powsum_nat", "dot", "qf", "msum", "dot_hi", "siblings", "matvec_row"]
    RED_MORE = ["dot_overlap", "dot_e", "powsum", "unsum", "l2", "l1", "l2e", "l1e",
                "qf_e", "msum_e", "frob", "trace", "vsumfn"]

    def siblings(self):
        """Distinct views of one vector whose NAMES coincide (a slice's name omits the step;
        x[:], x[0:n] and x[::-1] are all called 'x[0:n]'), or that overlap."""
        r = self.rng
        x = r.choice(self.pool.vectors)
        n = x.size
        fam = [x[:], x[0:n], x[::-1]]
        if n >= 3:
            fam += [x[0:n:2], x[::-2]] if n % 2 == 0 else [x[0:n - 1:2], x[n - 2::-2] if n >= 4 else x[0:n - 1:2]]
        a = r.choice(fam)
        same = [v for v in fam if v.size == a.size and v is not a]
        b = r.choice(same) if same else a
        return a, b

    def reduction(self, depth, kind=None):
        """A scalar node from the vector/matrix API."""
        r = self.rng
        poly = self.profile == "poly"
        opts = list(self.RED_POLY)
        if not poly:
            opts += ["dot"] + self.RED_MORE
        k = kind or r.choice(opts)
        self.hit("red:" + k)
        if k == "dot_hi":
            # a plain view against a vector EXPRESSION of higher degree, in both operand orders
            x = self.view()
            w = self.vec(x.size, 0)
            hi = (w * self.rng.choice([2, -1, 3])) ** r.choice([2, 3]) if (poly or r.random() < 0.6) else FN[r.choice(UNARY_VEC)](w + 0)
            return x.dot(hi) if r.random() < 0.5 else hi.dot(x)
        if k == "siblings":
            a, b = self.siblings()
            form = r.choice(["lincomb2", "qf2", "dot", "lincomb_dot"] if not poly else ["lincomb2", "qf2", "dot"])
            ca, cb = self.coeffs_distinct(a.size), self.coeffs_distinct(b.size)
            if form == "lincomb2":
                return ca @ a + cb @ b
            if form == "qf2":
                Q = self.matrix_asym(a.size)
                return a.dot(Q @ a) + b.dot(Q @ b)
            if form == "dot":
                return a.dot(b) + ca @ b
            return (ca @ a) * (cb @ b)
        if k == "matvec_row":
            # ONE row of a matrix-vector product (plain, over a non-affine vector expression, or nested), as an expression of its own
            from optyx import matmul
            x = self.view()
            n_ = x.size
            A1 = np.array([[float(r.choice([0, 1, 2, -1])) + (0.5 if i_ == j_ else 0.0) for j_ in range(n_)] for i_ in range(n_)])
            A2 = np.array([[float(r.choice([1, 2, -1, 0.5])) for _ in range(n_)] for _ in range(r.randint(1, 2))])
            form = r.randrange(4)
            w = [lambda: A2 @ x, lambda: matmul(A2, matmul(A1, x)), lambda: matmul(A2, (x + 0) ** 2), lambda: matmul(A2, matmul(A1, (x - 1) ** 2))][form]()
            return w[r.randrange(w.size)]
        if k == "sum":
            return self.view().sum()
        if k == "lincomb":
            x = self.view()
            return self.coeffs(x.size) @ x if r.random() < 0.5 else x @ self.coeffs(x.size)
        if k == "lincomb_e":
            w = self.vec(depth=1)
            return self.coeffs(w.size) @ w
        if k == "esum":
            w = self.vec(depth=1)
            return w.sum() if hasattr(w, "sum") else self.view().sum()
        if k == "powsum_nat":
            return (self.view() ** r.choice(NAT_POWS)).sum()
        if k == "powsum":
            return (self.view() ** r.choice(ANY_POWS)).sum()
        if k == "unsum":
            return FN[r.choice(UNARY_VEC + ["abs"])](self.view()).sum()
        if k == "dot":
            x = self.view()
            if r.random() < 0.4:
                return x.dot(x)
            return x.dot(self.vec(x.size, 0))
        if k == "dot_overlap":
            x = r.choice(self.pool.vectors)
            if x.size >= 2:
                return x[0:x.size - 1].dot(x[1:x.size]) if r.random() < 0.5 else x[::-1].dot(x[0:x.size])
            return x.dot(x)
        if k == "dot_e":
            w = self.vec(depth=1)
            return w.dot(self.vec(w.size, 1)) if hasattr(w, "dot") else self.view().sum()
        if k == "l2":
            return vnorm(self.view())
        if k == "l1":
            return vnorm(self.view(), 1)
        if k == "l2e":
            return vnorm(self.vec(depth=1))
        if k == "l1e":
            return vnorm(self.vec(depth=1), 1)
        if k == "qf":
            x = self.view()
            Q = self.matrix(x.size)
            return x.dot(Q @ x) if r.random() < 0.5 else quadratic_form(x, Q)
        if k == "qf_e":
            w = self.vec(depth=1)
            return quadratic_form(w, self.matrix(w.size))
        if k == "msum" and self.pool.matrices:
            m = r.choice(self.pool.matrices)
            return (m.T if r.random() < 0.3 else m).sum()
        if k == "msum_e" and self.pool.matrices:
            X, Y = self.pool.matrices[0], self.pool.matrices[1]
            c = r.random()
            if c < 0.4:
                return (X * Y).sum()
            if c < 0.7:
                return (X + 2 * Y - 1).sum()
            return (self.pool.matrices[2] * 2).sum()
        if k == "frob" and self.pool.matrices:
            return frobenius_norm(r.choice(self.pool.matrices))
        if k == "trace" and self.pool.matrices:
            return self.pool.matrices[2].trace()
        if k == "vsumfn":
            return vector_sum(self.vec(depth=1))
        return self.view().sum()

    def np_scalar(self, p):
        """The number as a user may hold it: Python int/float (mostly) or a NumPy scalar type / 0-d array."""
        r = self.rng
        if not self.numpy_scalars or r.random() < 0.7:
            return p
        self.hit("exp:numpy-type")
        kinds = [np.float64, np.float32, lambda t: np.array(float(t)), np.float16]
        if float(p) == int(p):
            kinds += [np.int64, np.int32, lambda t: np.array(int(t))]
        return r.choice(kinds)(p)

    def clone(self, v):
        """A distinct Variable object denoting the same variable (same name, bounds, domain) - what a helper like
        `def v(i): return Variable(f"v{i}")` called once per mention produces."""
        self.hit("leaf:clone")
        return Variable(v.name, lb=v.lb, ub=v.ub, domain=v.domain)

    def leaf(self):
        r = self.rng
        k = r.random()
        if k < 0.07 and self.clone_leaves:
            return self.clone(r.choice(self.pool.all_scalar_vars()))
        if k < 0.45:
            self.hit("leaf:var")
            return r.choice(self.pool.all_scalar_vars())
        if k < 0.6 and self.pool.params:
            self.hit("leaf:param")
            return r.choice(self.pool.params)
        if k < 0.8:
            self.hit("leaf:const")
            return Constant(self.const())
        self.hit("leaf:var")
        return r.choice(self.pool.all_scalar_vars())

    def expr(self, depth=4):
        r = self.rng
        poly = self.profile == "poly"
        if depth <= 0 or r.random() < 0.12:
            return self.leaf()
        k = r.random()
        if k < 0.18:
            return self.reduction(depth - 1)
        if k < 0.62:
            op = r.choice(["+", "-", "*", "+", "-", "*", "/", "**"])
            a = self.expr(depth - 1)
            self.hit("bin:" + op)
            if op == "**":
                if poly or r.random() < 0.8:
                    p = r.choice(NAT_POWS if poly else ANY_POWS)
                    return a ** self.np_scalar(p)
                return a ** self.expr(depth - 2)
            if op == "/" and (poly or r.random() < 0.5):
                return a / r.choice([2, 4, 0.5, -2, 1])
            if r.random() < 0.3:
                c = self.const()
                # python scalar on either side (reflected operators)
                if op == "+":
                    return c + a if r.random() < 0.5 else a + c
                if op == "-":
                    return c - a if r.random() < 0.5 else a - c
                if op == "*":
                    return c * a if r.random() < 0.5 else a * c
                if op == "/":
                    return c / a
            b = self.expr(depth - 1)
            if op == "+":
                return a + b
            if op == "-":
                return a - b
            if op == "*":
                if poly and r.random() < 0.7:
                    return (Constant(self.const()) + self.const()) * b   # constant-valued factor
                return a * b
            return a / b
        if k < 0.72:
            self.hit("un:neg")
            return -self.expr(depth - 1)
        if poly:
            return self.expr(depth - 1) + self.leaf()
        fn = r.choice(UNARY_ALL + (["abs"] if self.profile == "all" else []))
        self.hit("un:" + fn)
        return FN[fn](self.expr(depth - 1))


    # ---- focused corpus: every reduction kind under every one-node context ----
    def bases(self):
        kinds = list(self.RED_POLY) + ([] if self.profile == "poly" else list(self.RED_MORE))
        return ["var", "prod", "var**2", "var**3", "(v+c)**2", "-var", "c*var", "clones"] + (["param"] if self.pool.params else []) + kinds

    def base(self, name):
        r = self.rng
        if name == "var":
            return r.choice(self.pool.all_scalar_vars())
        if name == "clones":
            v = r.choice(self.pool.all_scalar_vars())
            return self.clone(v) * r.choice([2, 3]) + self.clone(v) ** 2 + v
        if name == "param":
            return r.choice(self.pool.params) * r.choice(self.pool.all_scalar_vars())
        if name == "prod":
            vs = self.pool.all_scalar_vars()
            return r.choice(vs) * r.choice(vs)
        if name == "var**2":
            return r.choice(self.pool.all_scalar_vars()) ** 2
        if name == "var**3":
            return r.choice(self.pool.all_scalar_vars()) ** r.choice([3, 4, 2.0])
        if name == "(v+c)**2":
            return (r.choice(self.pool.all_scalar_vars()) + r.choice([1, -0.5, 2])) ** 2
        if name == "-var":
            return -r.choice(self.pool.all_scalar_vars())
        if name == "c*var":
            return r.choice([2, -3, 0.5]) * r.choice(self.pool.all_scalar_vars())
        return self.reduction(1, kind=name)

    def contexts(self):
        r = self.rng
        c = lambda: r.choice([2, 3, -1, 0.5, 1.5, -2, 4, 1, 0])
        cn = lambda: r.choice([2, 3, -1, 0.5, 1.5, -2, 4])
        leaf = lambda: r.choice(self.pool.all_scalar_vars())
        ctx = [("id", lambda f: f), ("c-f", lambda f: c() - f), ("f-c", lambda f: f - c()), ("c+f", lambda f: c() + f),
               ("f+c", lambda f: f + c()), ("c*f", lambda f: c() * f), ("f*c", lambda f: f * c()), ("f/c", lambda f: f / cn()),
               ("neg", lambda f: -f), ("f**2", lambda f: f ** 2), ("f**3", lambda f: f ** 3), ("f**1", lambda f: f ** 1),
               ("f+v", lambda f: f + leaf()), ("v-f", lambda f: leaf() - f), ("f*v", lambda f: f * leaf()), ("v*f", lambda f: leaf() * f),
               ("C-f", lambda f: Constant(c()) - f), ("C*f", lambda f: Constant(cn()) * f), ("f/C", lambda f: f / Constant(cn())),
               ("f/(C/c)", lambda f: f / (Constant(4.0) / 2)), ("f*(C+c)", lambda f: f * (Constant(cn()) + 1)),
               # more constant-valued EXPRESSIONS as divisors / factors (all exact in binary64)
               ("f/(C*c)", lambda f: f / (Constant(2.0) * 2)), ("f/(-C)", lambda f: f / (-Constant(4.0))), ("f/(C**2)", lambda f: f / (Constant(2.0) ** 2)),
               ("f*(C/C)", lambda f: f * (Constant(3.0) / Constant(2.0))),
               # the operand OBJECT used twice (a DAG, not a tree): whatever is remembered per node is asked for again
               ("f*(1-f)", lambda f: f * (1 - f)), ("f-f*f", lambda f: f - f * f), ("(f+1)*f+f", lambda f: (f + 1) * f + f),
               # physical-constant magnitudes: tiny and huge literals are coefficients like any other
               ("tiny*f", lambda f: 1.380649e-23 * f), ("f*tiny", lambda f: f * 6.62607015e-34), ("huge*f", lambda f: 6.02214076e23 * f),
               ("f+tiny", lambda f: f + 1e-15), ("f-1", lambda f: f - (1.0 + 1e-13))]
        if self.numpy_coefs:
            # NumPy scalar types as COEFFICIENTS / offsets (not exponents): stored as 0-d array Constants, read as scalars everywhere
            # (integer and float64 types only: a float32 coefficient legitimately drags the arithmetic down to single precision)
            ctx += [("f*i64", lambda f: f * np.int64(3)), ("i64*f", lambda f: np.int64(-2) * f), ("f*f64", lambda f: f * np.float64(0.5)),
                    ("f/i64", lambda f: f / np.int64(2)), ("f+i32", lambda f: f + np.int32(3)), ("f-arr0", lambda f: f - np.array(2.5)),
                    ("u8*f", lambda f: np.uint8(3) * f), ("f*i32", lambda f: f * np.int32(-4)), ("f*arr0i", lambda f: f * np.array(3))]
        if self.numpy_scalars:
            ctx += [("f**i64(2)", lambda f: f ** np.int64(2)), ("f**arr(2)", lambda f: f ** np.array(2)), ("f**f32(2)", lambda f: f ** np.float32(2.0)),
                    ("i64*f", lambda f: np.int64(3) * f), ("f+f32", lambda f: f + np.float32(1.5)), ("f**i64(1)", lambda f: f ** np.int64(1)),
                    ("f**f32(0.5)", lambda f: f ** np.float32(0.5)), ("f**arr(2.5)", lambda f: f ** np.array(2.5)),
                    ("f**arr(-0.5)", lambda f: f ** np.array(-0.5)), ("f**f32(1.5)", lambda f: f ** np.float32(1.5)),
                    ("f**f16(0.5)", lambda f: f ** np.float16(0.5)), ("f**arr(-1)", lambda f: f ** np.array(-1.0))]
        if self.profile != "poly":
            ctx += [("c/f", lambda f: cn() / f), ("f**-1", lambda f: f ** -1), ("f**0.5", lambda f: f ** 0.5), ("f**1.5", lambda f: f ** 1.5),

                    ("f**-2", lambda f: f ** -2), ("v/f", lambda f: leaf() / f), ("exp", lambda f: FN["exp"](f)), ("sin", lambda f: FN["sin"](f)),
                    ("sqrt", lambda f: FN["sqrt"](f)), ("log", lambda f: FN["log"](f)), ("tanh", lambda f: FN["tanh"](f)),
                    ("f**v", lambda f: f ** leaf()), ("c**f", lambda f: Constant(2.0) ** f), ("f/(1+f*f)", lambda f: f / (1 + f * f))]
            if self.profile == "all":
                ctx += [("abs", lambda f: FN["abs"](f))]
                if self.pool.params:
                    ctx += [("p*f", lambda f: r.choice(self.pool.params) * f), ("f-p", lambda f: f - r.choice(self.pool.params)),
                            ("f**p", lambda f: f ** r.choice(self.pool.params))]
        return ctx

    def focused_size(self):
        return len(self.bases()) * len(self.contexts())

    def focused(self, i):
        """i-th member of the focused corpus: base (i mod nb) under context (i div nb mod nc);
        beyond nb*nc a second context is stacked on top (pairs of contexts)."""
        bs, cs = self.bases(), self.contexts()
        nb, nc = len(bs), len(cs)
        b = bs[i % nb]
        c1 = cs[(i // nb) % nc]
        e = c1[1](self.base(b))
        label = f"{c1[0]}({b})"
        j = i // (nb * nc)
        if j > 0:
            c2 = cs[(j - 1 + (i // nb)) % nc]
            e = c2[1](e)
            label = f"{c2[0]}({label})"
        self.hit("focus:" + label.split("(")[0])
        self.label = label
        return e
