#!/usr/bin/env python3
"""Seeded-change workflow.

  seeded.py verify <dir>            confirm in a scratch worktree that the patch applies, the suite still passes,
                                    the demo fails with it and passes without it (writes verify.json in <dir>)
  seeded.py detect <dir> Cxx [...]  apply the patch to /repo, run ./check for the given properties (quick), undo the patch;
                                    prints which checks raised an alarm (writes detect.json in <dir>)
"""
import json
import os
import subprocess
import sys
import tempfile
import shutil

REPO = "/repo"
PY = "/venv/bin/python"


def sh(cmd, cwd=None, env=None, timeout=1800):
    p = subprocess.run(cmd, shell=True, cwd=cwd, env=env, capture_output=True, text=True, timeout=timeout)
    return p.returncode, (p.stdout + p.stderr)


def verify(d):
    d = os.path.abspath(d)
    patch = os.path.join(d, "patch.diff")
    demo = os.path.join(d, "demo.py")
    wt = tempfile.mkdtemp(prefix="seedwt_", dir="/tmp")
    shutil.rmtree(wt)
    res = {}
    try:
        rc, out = sh(f"git -C {REPO} worktree add -q --detach {wt} HEAD")
        assert rc == 0, out
        env = dict(os.environ, PYTHONPATH=f"{wt}/src", PYTHONHASHSEED="0")
        rc, out = sh(f"{PY} {demo}", cwd=wt, env=env, timeout=600)
        res["demo_pristine_rc"] = rc
        res["demo_pristine_tail"] = out[-300:]
        rc, out = sh(f"git -C {wt} apply {patch}")
        res["apply_rc"] = rc
        if rc != 0:
            res["apply_out"] = out[-500:]
        else:
            rc, out = sh(f"{PY} -m pytest -q -p no:cacheprovider -x", cwd=wt, env=env, timeout=900)
            if rc != 0:
                # wall-clock assertions flake under load: run everything, then re-run the failed tests alone (up to 3 times each)
                import re as _re
                rc, out = sh(f"{PY} -m pytest -q -p no:cacheprovider", cwd=wt, env=env, timeout=900)
                failed = _re.findall(r"^FAILED (\S+)", out, _re.M)
                if rc != 0 and failed and len(failed) <= 6:
                    still = []
                    for t in failed:
                        ok = False
                        for _ in range(3):
                            r2, o2 = sh(f"{PY} -m pytest -q -p no:cacheprovider '{t}'", cwd=wt, env=env, timeout=300)
                            if r2 == 0:
                                ok = True
                                break
                        if not ok:
                            still.append(t)
                    res["suite_failed_then_rerun_alone"] = failed
                    if not still:
                        rc = 0
                        out += "\n(all initially failing tests passed when re-run alone: " + ", ".join(failed) + ")"
            res["suite_rc"] = rc
            res["suite_tail"] = out[-300:]
            rc, out = sh(f"{PY} {demo}", cwd=wt, env=env, timeout=600)
            res["demo_patched_rc"] = rc
            res["demo_patched_tail"] = out[-400:]
    finally:
        sh(f"git -C {REPO} worktree remove --force {wt}")
        shutil.rmtree(wt, ignore_errors=True)
    res["confirmed"] = (res.get("demo_pristine_rc") == 0 and res.get("apply_rc") == 0 and res.get("suite_rc") == 0
                        and res.get("demo_patched_rc", 0) != 0)
    json.dump(res, open(os.path.join(d, "verify.json"), "w"), indent=1)
    print(json.dumps(res, indent=1))
    return res["confirmed"]


def detect(d, props):
    d = os.path.abspath(d)
    patch = os.path.join(d, "patch.diff")
    rc, out = sh(f"git -C {REPO} status --short")
    assert out.strip() == "", "repo not clean: " + out
    res = {}
    bak = tempfile.mkdtemp(prefix="evbak_", dir="/verif/.work")
    sh(f"cp -a /verif/evidence/. {bak}/")
    try:
        rc, out = sh(f"git -C {REPO} apply {patch}")
        assert rc == 0, out
        for p in props:
            rc, out = sh(f"./check {p} --tier quick", cwd="/verif", timeout=3000)
            lines = [l for l in out.splitlines() if l.startswith("VIOLATION") or l.startswith("[")]
            res[p] = {"rc": rc, "violations": sum(1 for l in lines if l.startswith("VIOLATION")),
                      "concrete": sum(1 for l in lines if l.startswith("VIOLATION") and "no-failing-input-found" not in l),
                      "summary": lines[-1] if lines else out[-300:]}
            print(p, res[p])
    finally:
        sh(f"git -C {REPO} apply -R {patch}")
        sh(f"git -C {REPO} checkout -- .")
        rc, out = sh(f"git -C {REPO} status --short")
        assert out.strip() == "", "repo not clean after undo: " + out
        sh(f"cp -a {bak}/. /verif/evidence/")
        shutil.rmtree(bak, ignore_errors=True)
    json.dump(res, open(os.path.join(d, "detect.json"), "w"), indent=1)
    return res


def sandbox(d, props):
    """Like detect, but on private copies (a scratch worktree of /repo with the patch and a copy of /verif),
    so several can run at once and /repo is never touched.  Used while strengthening checks; the recorded
    detect.json comes from `detect`."""
    d = os.path.abspath(d)
    patch = os.path.join(d, "patch.diff")
    base = tempfile.mkdtemp(prefix="sbx_", dir="/tmp")
    wt, vc = os.path.join(base, "repo"), os.path.join(base, "verif")
    res = {}
    try:
        rc, out = sh(f"git -C {REPO} worktree add -q --detach {wt} HEAD")
        assert rc == 0, out
        if os.path.getsize(patch) > 0:           # an empty patch = the pristine tree (used while /repo itself is busy)
            rc, out = sh(f"git -C {wt} apply {patch}")
            assert rc == 0, out
        sh(f"rsync -a --exclude .git --exclude .work --exclude replays /verif/ {vc}/")
        os.makedirs(os.path.join(vc, "replays"), exist_ok=True)
        env = dict(os.environ, OPTYX_REPO=wt)
        for p in props:
            rc, out = sh(f"./check {p} --tier quick", cwd=vc, env=env, timeout=3000)
            lines = [l for l in out.splitlines() if l.startswith("VIOLATION") or l.startswith("[")]
            res[p] = {"rc": rc, "violations": sum(1 for l in lines if l.startswith("VIOLATION")),
                      "concrete": sum(1 for l in lines if l.startswith("VIOLATION") and "no-failing-input-found" not in l),
                      "summary": lines[-1] if lines else out[-300:]}
            first = next((l for l in lines if l.startswith("VIOLATION")), None)
            if first:
                rp = first.split("replay=")[1].split()[0]
                try:
                    res[p]["first_replay"] = open(rp if os.path.isabs(rp) else os.path.join(vc, rp)).read()[:1500]
                except Exception as ex:
                    res[p]["first_replay"] = repr(ex)
            print(os.path.basename(d), p, {k: v for k, v in res[p].items() if k != "first_replay"}, flush=True)
    finally:
        sh(f"git -C {REPO} worktree remove --force {wt}")
        shutil.rmtree(base, ignore_errors=True)
        sh(f"git -C {REPO} worktree prune")
    json.dump(res, open(os.path.join(d, "sandbox.json"), "w"), indent=1)
    return res


def meta_all(root="/verif/seeded"):
    """Write meta.json in every seeded/<id>/ and seeded/README.md (which checks catch which change)."""
    import re
    rows = []
    for d in sorted(os.listdir(root)):
        dd = os.path.join(root, d)
        if not os.path.isdir(dd) or not os.path.exists(os.path.join(dd, "patch.diff")):
            continue
        patch = open(os.path.join(dd, "patch.diff")).read()
        files = re.findall(r"^diff --git a/(\S+)", patch, re.M)
        notes = open(os.path.join(dd, "notes.md")).read() if os.path.exists(os.path.join(dd, "notes.md")) else ""
        title = notes.splitlines()[0].lstrip("# ").strip() if notes else d
        needs = ""
        for line in notes.splitlines():
            if re.search(r"need|manifest|trigger", line, re.I):
                needs = line.strip("- ").strip()
                break
        ver = json.load(open(os.path.join(dd, "verify.json"))) if os.path.exists(os.path.join(dd, "verify.json")) else {}
        det = {}
        fns_ = [fn for fn in ("sandbox.json", "detect.json") if os.path.exists(os.path.join(dd, fn))]
        fns_.sort(key=lambda fn: os.path.getmtime(os.path.join(dd, fn)))       # the most recent run wins
        for fn in fns_:
            if True:
                for k, v in json.load(open(os.path.join(dd, fn))).items():
                    det[k] = {"alarm": v["rc"] != 0 and v["violations"] > 0, "violation_lines": v["violations"], "with_concrete_input": v["concrete"],
                              "source": fn}
        meta = {"id": d, "property_broken": d.split("-")[0], "title": title, "files_changed": files,
                "needs_to_manifest": needs, "author": "independent sub-agent given only the property text and a scratch worktree (seeded/PROMPT.txt)",
                "confirmed": {"how": "tools/seeded.py verify (scratch worktree of /repo HEAD): patch applies, pinned suite passes with it, "
                                     "demo.py exits 0 without it and non-zero with it",
                              "patch_applies": ver.get("apply_rc") == 0, "suite_passes_with_patch": ver.get("suite_rc") == 0,
                              "demo_passes_on_pristine": ver.get("demo_pristine_rc") == 0, "demo_fails_with_patch": ver.get("demo_patched_rc", 0) != 0,
                              "confirmed": ver.get("confirmed")},
                "checks_run_against_it": det}
        json.dump(meta, open(os.path.join(dd, "meta.json"), "w"), indent=1)
        rows.append(meta)
    lines = ["# Seeded breaking changes", "",
             "Each directory holds `patch.diff` (never committed to /repo), the author's `demo.py` and `notes.md`, `verify.json` (my confirmation),",
             "`detect.json` / `sandbox.json` (my checks run against it) and `meta.json`.  Authors were fresh sub-agents that saw only the property",
             "text and a scratch worktree (`PROMPT.txt` is the template).  `tools/seeded.py verify|detect|sandbox|meta` reproduces everything.", "",
             "| change | what it does | confirmed | caught by (violation lines / with a concrete failing input) | not caught by |", "|---|---|---|---|---|"]
    for m in rows:
        caught = ", ".join(f"{k} ({v['violation_lines']}/{v['with_concrete_input']})" for k, v in sorted(m["checks_run_against_it"].items()) if v["alarm"])
        missed = ", ".join(k for k, v in sorted(m["checks_run_against_it"].items()) if not v["alarm"])
        lines.append(f"| {m['id']} | {m['title'][:110]} | {'yes' if m['confirmed']['confirmed'] else 'NO'} | {caught or '-'} | {missed or '-'} |")
    open(os.path.join(root, "README.md"), "w").write("\n".join(lines) + "\n")
    print(f"{len(rows)} changes; README.md written")


if __name__ == "__main__":
    if sys.argv[1] == "meta":
        meta_all()
    if sys.argv[1] == "sandbox":
        sandbox(sys.argv[2], sys.argv[3:])
    if sys.argv[1] == "verify":
        sys.exit(0 if verify(sys.argv[2]) else 1)
    if sys.argv[1] == "detect":
        detect(sys.argv[2], sys.argv[3:])
