"""Regenerate MANIFEST.json from the table below (kept in one place so it stays valid)."""
import json, os
VERIF = os.path.dirname(os.path.dirname(os.path.abspath(__file__)))
ALL = [f"C{n:02d}" for n in range(1, 21)]

CLAIMED = {
 "C05": dict(
   text="Theorems (Coq): for the Linear.v model of LP extraction, every linear expression equals its extracted coefficient row applied to the point plus its extracted constant in any duplicate-free variable order; extract_lp's cost vector + constant reproduce the objective, each row/right-hand side reproduces the constraint with its sense (>= negated, == kept, constraint order kept), columns are aligned with the names, the O(1) shortcuts equal the general walker under the monotone-view guarantee, and the reported objective value (both orientations, constant included) equals the objective at the solver's point. Tie: all LPData fields and the public extraction functions must equal the model exactly on generated linear problems, every run.",
   note="Trusted: Coq kernel; Reals axioms as printed; model Linear.v; exactness of float arithmetic on the generated small dyadic coefficients; nodiv0 guard (division by literal zero raises in Python); monotone views (API guarantee, hypothesis `aligned` evaluated per case).",
   technique="Coq proof (structural induction under degree<=1, linear-algebra lemmas over Q/R) + exact differential correspondence of LP data", ref="6/C05"),
 "C01": dict(
   text="Theorems (Coq): for the Compile.v model of the closure compiler, run (build V e) x penv = evalR (env_of V x) penv e for every well-formed tree, every duplicate-free variable list containing its variables (any permutation/superset), every point and every parameter valuation read at call time; the builder is total (fails iff a variable is missing); the explicit-stack builder returns the same closure as the recursive one for every switch threshold. Tie: six implementation paths (compiled, cached, forced explicit-stack, dict function, CompiledExpression.value, evaluate) must each return a float inside the machine-checked interval enclosure of the real denotation, every run.",
   note="Trusted: Coq kernel + vm_compute; Reals axioms as printed; Interval library (SemI.evalI_correct) for the numeric channel; NumPy primitives read as the real functions they implement and assumed within one outward rounding at 40 bits; hand-written model Compile.v (closures are opaque, so its tie is behavioural); array-valued constants/parameters not modelled.",
   technique="Coq proof (structural induction, stack-machine simulation) + interval-enclosure differential check of the implementation's numeric outputs", ref="6/C01"),
 "C16": dict(
   text="Theorems (Coq, closed under the global context): problem_variables of the Vars.v model returns exactly the occurring names, without duplicates, strongly sorted by a proved total order (natural key then raw name), so the result is unique and independent of construction order; the single-vector shortcut equals the general path; bounds are aligned with the reported order. Tie: Problem.variables / n_variables / get_bounds must equal the model exactly on generated problems (adversarial names, views, shuffled construction) in two interpreters with different PYTHONHASHSEED, every run.",
   note="Trusted: Coq kernel; no axioms; model Vars.v (ASCII names; variables identified by name as optyx does); vector identity numbering by the serialiser (vid_consistent hypothesis, evaluated per case).",
   technique="Coq proof (total order, sortedness + permutation => uniqueness) + exact differential correspondence under two hash seeds", ref="6/C16"),
 "C04": dict(
   text="Theorems (Coq): the Degree.v model of the degree analysis is sound w.r.t. the real-number semantics for every expression tree (degree d => polynomial of total degree <= d; is_linear => affine; is_quadratic => degree <= 2), and all entry points (recursive, explicit-stack, any switch threshold incl. the generated one) agree. Tie: every implementation entry point must equal the model's answer on generated API programs, corner cases and deep chains, every run.",
   note="Trusted: Coq kernel; Reals axioms (sig_forall_dec, sig_not_dec, functional_extensionality_dep, classic) as printed; hand-written model Degree.v validated by exact differential comparison with the implementation; serialiser/generator; NumPy primitives read as the real functions. Array-valued constants are outside the model.",
   technique="Coq proof (structural induction over the expression type) + exact differential correspondence of every entry point with the model (vm_compute in coqc)", ref="6/C04"),
}

NOT_YET = "check not built yet in this round (model and theorem in progress); see DESIGN.md section 6"

def main():
    checks = []
    for pid in ALL:
        if pid not in CLAIMED:
            continue
        c = CLAIMED[pid]
        checks.append({
            "property_id": pid,
            "quick_cmd": f"./check {pid} --tier quick",
            "thorough_cmd": f"./check {pid} --tier thorough",
            "evidence_file": f"/verif/evidence/{pid}.json",
            "replay_cmd_template": f"./check {pid} --replay {{path}}",
            "engine": "coq-proof+correspondence",
            "level_claimed": {"category": c.get("category", "proof"), "text": c["text"], "design_ref": c["ref"]},
            "level_note": c["note"],
            "technique": c["technique"],
        })
    man = {
        "version": 1,
        "setup_cmd": "make -C /verif setup",
        "hooks": {"guard": "OPTYX_VERIF", "enable": "none needed: all seams are module attributes or public API; checks export OPTYX_VERIF=1",
                  "baseline_off_cmd": "cd /repo && /venv/bin/python -m pytest -ra -q -p no:cacheprovider --timeout=900 --continue-on-collection-errors",
                  "source_commits": [], "add_only": True},
        "engines": [{"name": "coq-proof+correspondence", "path": "/verif/check",
                     "serves_properties": sorted(CLAIMED),
                     "kind_free_text": "Coq 8.16.1 development (coq/Optyx) with theorems per property; model tied to /repo on every run by a translator for declarative tables and by differential execution of the model (vm_compute inside coqc) against the implementation"}],
        "checks": checks,
        "notes": "Machine-checked proof in Coq; see DESIGN.md. Fix commits in /repo are listed in known_findings.json as 'fixed' entries.",
        "not_applicable": [{"property_id": p, "reason": NOT_YET} for p in ALL if p not in CLAIMED],
    }
    with open(os.path.join(VERIF, "MANIFEST.json"), "w") as f:
        json.dump(man, f, indent=1)
    print("claimed:", sorted(CLAIMED))

if __name__ == "__main__":
    main()
