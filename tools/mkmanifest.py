"""Regenerate MANIFEST.json from the table below (kept in one place so it stays valid)."""
import json, os
VERIF = os.path.dirname(os.path.dirname(os.path.abspath(__file__)))
ALL = [f"C{n:02d}" for n in range(1, 21)]

CLAIMED = {
 "C11": dict(
   text="Theorems (Coq, all sizes and values): every operation of the VecMat.v model of the vector/matrix API - indexing with negative indices, slicing with any start/stop/step, row/column/sub-matrix/diagonal/transpose views, symmetric sharing, elementwise arithmetic of vectors and matrices with scalars, arrays, vectors and matrices in both operand orders, literal powers, negation, sum, dot, @ (vector, 1-D and 2-D array, reflected), the x.(A@x) rewriting, L1/L2 norms, quadratic forms, trace, Frobenius norm, matrix-vector products - evaluates to the result of an independent list-of-reals NumPy reference (NumpySpec.v) applied to the element values; slice_indices is exactly Python's range(*slice.indices(n)) (bound, monotone, duplicate-free, sound and complete); every shape-mismatched operand pair yields an error value, never a truncated result. Tie: generated API recipes (sizes 1..6, composed views) are executed by the implementation and by the model: element trees compared exactly, error classes compared, values compared with NumPy on the same data by interval enclosure.",
   note="Trusted: Coq kernel; Reals axioms (classic, sig_forall_dec, sig_not_dec, functional_extensionality_dep); NumpySpec.v as the meaning of the NumPy operations (cross-checked against real NumPy by the harness); model VecMat.v; Interval library for the numeric channel. Hypotheses: kind_wf for sum(), pow_ok for trees as exponents, rectangular for transpose - each with a counter-example in the file showing it is needed in the model and not reachable through the API.",
   technique="Coq proof (refinement of each API operation to a list-of-reals NumPy specification) + exact element-tree correspondence + NumPy differential", ref="6/C11"),
 "C14": dict(
   text="Theorems (Coq, closed): an LRU cache of ANY capacity is transparent for every call sequence whenever the memoised function respects the cache's key equality; the compile, gradient and degree keys (Variable/Parameter by name, interior nodes by identity) do, a bare Parameter root being kept out of the compile cache; hence the answers for a model after any prefix of other models' calls equal those from an empty cache; a counter-example shows the key-respect hypothesis is needed (the repaired defect). Tie: hit/miss/bypass sequences observed through cache_info() on adversarial call sequences (incl. overflowing the generated capacity) compared with the LRU model; whole-process comparison of observations on a model after name-sharing prefixes (1100 compilations, 4200 gradient calls) vs a fresh interpreter, exact equality.",
   note="Trusted: Coq kernel (no axioms); model Caches.v of functools.lru_cache and of Python key equality; CPython keeps cached key objects alive so id() is not reused (outside the model).",
   technique="Coq proof (cache invariant by induction over call sequences, key-respect lemmas) + exact hit/miss correspondence + fresh-process differential", ref="6/C14"),
 "C20": dict(
   text="Theorems (Coq, closed): in the Fault.v model of the solve's control structure, for every fault point and every exception class the warning hook is restored; a fault that strikes yields FAILED exactly when an Exception is raised inside the guarded solver call and otherwise propagates (KeyboardInterrupt always); a failed cache or Hessian build leaves no partial cache; the next solve is identical to one without any earlier fault; the LP wrapper touches nothing global; nested solves restore in stack order; the recursion-limit bracket restores. Tie: fault enumeration against the real code (every callable handed to SciPy at baseline call indices, solver entry/exit, cache-build compiles, Hessian build, LP extraction and linprog) x 4 exception classes: hook identity, recursion limit, cache flags, outcome class and next-solve equality compared with the model's prediction.",
   note="Trusted: Coq kernel (no axioms); CPython's try/except/finally semantics and exception lattice are modelled, not verified; faults are injected at Python-visible seams only.",
   technique="Coq proof (exhaustive case analysis over fault points) + fault enumeration against the implementation", ref="6/C20", category="proof"),
 "C03": dict(
   text="Theorems (Coq): entry (i,j) of the compiled Jacobian on the constant, scaled and general paths is the value of the model gradient of expression i w.r.t. variable j (which C02 proves is the partial derivative) for any duplicate-free V containing the variables; all paths return what the general path returns; every per-node Jacobian-row shortcut (incl. products of overlapping slices) equals the general path entrywise; compile_gradient likewise; the vectorised power / elementwise-function closure bodies found in the source on this run compute the value of the model's derivative rule (re-proved over the generated tables), full and sparse, and the dispatch is complete. Tie: compute_jacobian's row trees and the chosen path (callable __name__) compared exactly; every array entry checked by interval enclosure.",
   note="Trusted: Coq kernel; Reals/Coquelicot axioms; translator for the closure tables; Interval library; model Jacobian.v; identity of Variable objects modelled by name.",
   technique="Coq proof (per-path soundness, generated-table obligations re-proved each run) + exact row-tree/path correspondence + interval-enclosure check", ref="6/C03"),
 "C12": dict(
   text="Theorems (Coq): evaluation under the valuation in force equals evaluation of the fresh model in which each Parameter is a Constant (under dom); the valuation in force after any history is the last value set; a closure is built without reading any parameter value and serves every later valuation; gradients under the valuation in force equal the fresh constant model's gradients at regular points; an expression mentioning a parameter is never classified polynomial, so neither LP data nor a constant Jacobian is taken from a parameter value. Tie: 3-step update histories; callables compiled before the updates (value, gradient, Jacobian, Hessian, SciPy seam callables), cached derivative trees and fresh compilations checked by interval enclosure under the current valuation; live-vs-fresh real solves.",
   note="Trusted: Coq kernel; Reals axioms; Interval library; array-valued parameters not modelled; solver determinism for the search.",
   technique="Coq proof (substitution lemma, algebraic gradient-substitution lemma, history fold) + interval-enclosure check of stale-vs-current observations", ref="6/C12"),
 "C15": dict(
   text="Theorems (Coq): the generic explicit-stack machine returns exactly the recursive fold for every tree (instances: gradient, compiler, degree; every switch threshold); left-deep, right-deep and balanced accumulations of + and * denote the same real function, left chains of - and / denote t1 - sum and t1 / prod; variable discovery, degree (+, -, *) and gradient values are shape-independent. Tie: accumulation chains n in {399,400,401,900} (and 5000/20000 for gradient, degree, variables) over 22 base-term kinds and four ops: value/gradient by interval enclosure of the model's chain rebuilt in Coq, degree/variables exact, shapes vs each other, both traversals forced, RecursionError watch. Known findings K6/K7 (product and quotient chains at n = 900).",
   note="Trusted: Coq kernel; Reals axioms; Interval library. The Python call stack is outside the model: the no-RecursionError clause is measured. Right-deep accumulation is outside the property's quantifier.",
   technique="Coq proof (stack-machine simulation; associativity folds) + interval/structural correspondence on deep chains", ref="6/C15"),
 "C17": dict(
   text="Theorems (Coq): symbolic Hessian entry (i,j) is the V_j-derivative of the V_i-derivative (is_derive, via the gradient theorem on gradient trees, and as the iterated partial derivative under local regularity); the compiled matrix is symmetric by construction; its upper-triangle entries are the symbolic entries' values for any duplicate-free V; the diagonal shortcuts over the generated closures equal the general path for full and sparse V; maximise hands over the negated Hessian. Schwarz's theorem is not proved (lower triangle = mirrored upper value). Tie: Hessian entry trees and path names compared exactly; all n^2 entries by interval enclosure; H == H.T bitwise.",
   note="Trusted: Coq kernel; Reals/Coquelicot axioms; translator for the Hessian closure tables; Interval library.",
   technique="Coq proof (gradient theorem applied twice, mirrored-matrix lemma, generated-table obligations) + exact tree correspondence + interval-enclosure check", ref="6/C17"),
 "C19": dict(
   text="Theorems (Coq): the sanitiser returns only finite values, leaves regular entries unchanged and maps NaN to 0 and +/-Inf to +/-1e16 (generated constant); every vectorised closure found in the source on this run is guarded (sanitised, or uniformly bounded over all inputs - proved for sin, cos, tanh, sign); every general derivative path returns through the sanitiser (generated fact). Tie: outputs at points on the singular sets and at large finite points: all entries finite, regular entries inside the enclosure, vectorised vs general path entrywise (special entries identical).",
   note="Trusted: Coq kernel; Reals axioms for the boundedness lemma; translator (closure tables, sanitised flags); contract: NumPy's sin/cos/tanh/sign are bounded by 1 on finite inputs.",
   technique="Coq proof over generated closure tables (re-proved each run) + finiteness / enclosure / path-agreement checks at singular points", ref="6/C19"),
 "C07": dict(
   text="Theorems (Coq): for every oracle answer the reported objective undoes the sign flip exactly (NLP) and adds the objective's constant (LP), so that with the oracle returning the value of what it was handed the report equals the objective at the returned point (via C01 and C05); the values hold exactly one entry per problem variable in problem order; vector and matrix handles retrieve each element's own entry with the handle's order and shape. Tie: scripted answers at both seams (objective, values, every handle incl. reversed/stepped/transposed/symmetric views) compared exactly with the model; real solves checked by interval enclosure of the objective at the reported values.",
   note="Trusted: Coq kernel; Reals axioms for the evalR statements; oracle contract (r.fun is the value at r.x of the function handed over); Interval library for the numeric channel; stubs.",
   technique="Coq proof (case analysis over the generated chains, list lemmas) + exact stub correspondence + interval-enclosure check of real solves", ref="6/C07"),
 "C08": dict(
   text="Theorems (Coq): the data handed to linprog denote the user's objective and feasible set (C05), any two matrix forms denoting the same model have the same verdict and optimal value (so the choice of reference is immaterial), maximise is minimise of the negation with the value flipped back and the constant added, the reported status is linprog's verdict through the generated chain, all LP method names route to the LP wrapper, repeated solves hand over what a fresh extraction would. Tie: seam arguments compared exactly; status map enumerated exhaustively (200 scripted results); differential against real linprog on an independently assembled matrix form (each problem solved twice).",
   note="Trusted: Coq kernel; Reals axioms as printed; linprog/HiGHS as an oracle returning the verdict and optimum of the LP it is given (PARTIAL in that sense); the reference LP is assembled from evaluate() only.",
   technique="Coq proof (denotation of extracted LP data, extensionality of LP verdicts) + exact seam correspondence + differential solve against an independent matrix form", ref="6/C08"),
 "C09": dict(
   text="PARTIAL. Theorems (Coq) about optyx's side only: the function handed to scipy.optimize.minimize denotes s*objective (C01), its gradient entries are the true partial derivatives (C02), bounds are handed over exactly for the generated bounds-capable methods, the default start lies within the declared bounds, the answer is mapped back without changing the point and with the objective in the user's orientation. That SciPy converges, and that callables agreeing only up to rounding lead it along the same iterates, cannot be expressed in an executable model. Tie: callables captured at the seam probed at dyadic points (fun, every jac entry, every hess entry) by interval enclosure; x0/bounds/flags compared with the model; manufactured convex problems solved by optyx and by a direct SciPy call with hand-written NumPy callables from the same start.",
   note="Trusted: Coq kernel; Reals/Coquelicot axioms; Interval library; SciPy as an oracle assumed extensional in the values of its callables; solver accuracy tolerance 1e-5 (1e-3 for the barrier method trust-constr) in the differential search.",
   technique="Coq proof of the wrapper's argument assembly and result mapping + interval-enclosure probes at the solver seam + differential solve against direct SciPy calls", ref="6/C09"),
 "C10": dict(
   text="Theorems (Coq): violation is the amount by which the stated relation fails; satisfied <=> relation within tol; zero violation <=> relation; element-wise builders give one constraint per element in position and reject mismatched shapes; reflected comparisons denote the same relation; the function handed to SciPy is >= 0 (= 0) exactly on the feasible set and the Jacobian handed over is the derivative of that function. Tie: exhaustive operand-kind product (scalar / vector n=1..3 / matrix left operands; Python and NumPy scalars, expressions, vectors, lists, arrays, matrices incl. mismatching shapes; both positions; three senses) compared exactly; evaluate/violation/is_satisfied and SciPy dict fun/jac probed numerically.",
   note="Trusted: Coq kernel; Reals/Coquelicot axioms; Interval library for probes; model Constraint.v. One known finding (K5): a 0-d ndarray on the LEFT of a scalar expression yields numpy.bool_ instead of a Constraint (loud ConstraintError later).",
   technique="Coq proof (real-arithmetic case analysis, Coquelicot is_derive for the sign flip) + exhaustive operand-kind correspondence + interval probes", ref="6/C10"),
 "C18": dict(
   text="Theorems (Coq, closed): with strict the oracle is never reached whatever the method; when the request can be served the error is IntegerVariableError naming exactly the non-continuous variables in problem order; without strict the warning names exactly those and the oracle call equals the relaxed problem's; binary declarations carry [0,1]; the gate precedes the solver call in both wrappers (generated from the source order). Tie: exhaustive product 12 declaration routes x 2 domains x 13 methods x strict x linear/non-linear (1248 cases) with stubbed seams; non-strict vs relaxed with real solvers.",
   note="Trusted: Coq kernel (no axioms); translator (gate-before-oracle line order); stubs. Forcing an LP method on a non-linear model raises NonLinearError before the gate (still before any solver call).",
   technique="Coq proof over the solve-front model + exhaustive stub correspondence", ref="6/C18"),
 "C02": dict(
   text="Theorems (Coq, Coquelicot is_derive): for the Autodiff.v model of symbolic differentiation (5 binary rules, 19 unary rules, 11 registered vector/matrix rules, 6 simplifiers), at every regular point the derivative tree evaluates to the true partial derivative of the denoted function; for absent variables the result is literally the constant 0; derivative trees stay in the fragment (closed for re-differentiation); the explicit-stack traversal equals the recursive one. Tie: the derivative TREE returned by gradient() on the default and the forced explicit-stack path must equal the model's tree exactly, and the value of the returned tree must lie in the interval enclosure of the model tree's real denotation, on generated API programs, every run.",
   note="Trusted: Coq kernel; Reals/Coquelicot axioms as printed; Interval library for the numeric channel; model Autodiff.v. log2/log10 are excluded from the real-number theorem (their derivative embeds the double nearest ln 2 / ln 10) but their trees are compared exactly. dot_same_ok: equal object ids denote the same vector object (serialiser numbering).",
   technique="Coq proof (chain-rule lemmas per operator over Coquelicot's is_derive, structural induction) + exact tree correspondence + interval-enclosure check", ref="6/C02"),
 "C06": dict(
   text="Theorems (Coq): for EVERY answer SciPy could return (and every retry answer), the wrapper model reports OPTIMAL only if the reported point passed the feasibility scan over all declared bounds and all constraint functions within the scaled tolerance; linprog: OPTIMAL iff result.success; at most one retry; every method string is routed to exactly one wrapper. The status chains, accepted-exit condition, tolerances and method sets are regenerated from the source on every run and the theorems re-proved over them. Tie: exhaustive scripted-stub product at the SciPy seams (1980 combinations) must match the model's predicted status, objective, values, call count and argument flags.",
   note="Trusted: Coq kernel (no axioms); translator for the status chains; SciPy as an arbitrary oracle (a NaN point with success=True is outside the rational model); hand-written scan model validated exhaustively against the stubbed wrapper; real-solver search as failing-input search only.",
   technique="Coq proof by case analysis over the generated decision lists (translator output re-proved each run) + exhaustive stub correspondence", ref="6/C06"),
 "C13": dict(
   text="Theorems (Coq, closed under the global context): for the ProblemSM.v state machine, after ANY sequence of objective/sense/constraint/bound edits, reads and solves, everything cached was derived from the current model (cache_inv), every solve hands the solver exactly what a freshly constructed problem would, and bounds are read at solve time. Tie: operation sequences (all of length <= 2, 1100 of length 3, sampled up to 8; thorough: all up to 4) against the real Problem with stubbed seams: per-step cache flags and seam arguments must equal the model's trace.",
   note="Trusted: Coq kernel (no axioms); model ProblemSM.v (a compiled callable is modelled by what it was compiled from); stubs at the two SciPy seams; real solvers only for the failing-input search.",
   technique="Coq proof (invariant by induction over operation sequences, refinement to a fresh problem) + exhaustive/sampled history correspondence", ref="6/C13"),
 "C05": dict(
   text="Theorems (Coq): for the Linear.v model of LP extraction, every linear expression equals its extracted coefficient row applied to the point plus its extracted constant in any duplicate-free variable order; extract_lp's cost vector + constant reproduce the objective, each row/right-hand side reproduces the constraint with its sense (>= negated, == kept, constraint order kept), columns are aligned with the names, the O(1) shortcuts equal the general walker under the monotone-view guarantee, and the reported objective value (both orientations, constant included) equals the objective at the solver's point. Tie: all LPData fields and the public extraction functions must equal the model exactly on generated linear problems, every run.",
   note="Trusted: Coq kernel; Reals axioms as printed; model Linear.v; exactness of float arithmetic on the generated small dyadic coefficients; nodiv0 guard (division by literal zero raises in Python); monotone views (API guarantee, hypothesis `aligned` evaluated per case).",
   technique="Coq proof (structural induction under degree<=1, linear-algebra lemmas over Q/R) + exact differential correspondence of LP data", ref="6/C05"),
 "C01": dict(
   text="Theorems (Coq): for the Compile.v model of the closure compiler, run (build V e) x penv = evalR (env_of V x) penv e for every well-formed tree, every duplicate-free variable list containing its variables (any permutation/superset), every point and every parameter valuation read at call time; the builder is total (fails iff a variable is missing); the explicit-stack builder returns the same closure as the recursive one for every switch threshold. Tie: six implementation paths (compiled, cached, forced explicit-stack, dict function, CompiledExpression.value, evaluate) must each return a float inside the machine-checked interval enclosure of the real denotation, every run.",
   note="Trusted: Coq kernel + vm_compute; Reals axioms as printed; Interval library (SemI.evalI_correct) for the numeric channel; NumPy primitives read as the real functions they implement and assumed within one outward rounding at 40 bits; hand-written model Compile.v (closures are opaque, so its tie is behavioural); array-valued constants/parameters not modelled.",
   technique="Coq proof (structural induction, stack-machine simulation) + interval-enclosure differential check of the implementation's numeric outputs", ref="6/C01"),
 "C16": dict(
   text="Theorems (Coq, closed under the global context): problem_variables of the Vars.v model returns exactly the occurring names, without duplicates, strongly sorted by a proved total order (natural key then raw name), so the result is unique and independent of construction order; the single-vector shortcut equals the general path; bounds are aligned with the reported order. Tie: Problem.variables / n_variables / get_bounds must equal the model exactly on generated problems (adversarial names, views, shuffled construction) in two interpreters with different PYTHONHASHSEED, every run.",
   note="Trusted: Coq kernel; no axioms; model Vars.v (ASCII names; variables identified by name as optyx does); vector identity numbering by the serialiser (vid_consistent hypothesis, evaluated per case).",
   technique="Coq proof (total order, sortedness + permutation => uniqueness) + exact differential correspondence under two hash seeds", ref="6/C16"),
 "C04": dict(
   text="Theorems (Coq): the Degree.v model of the degree analysis is sound w.r.t. the real-number semantics for every expression tree (degree d => polynomial of total degree <= d; is_linear => affine; is_quadratic => degree <= 2), and all entry points (recursive, explicit-stack, any switch threshold incl. the generated one) agree. Tie: every implementation entry point must equal the model's answer on generated API programs, corner cases and deep chains, every run.",
   note="Trusted: Coq kernel; Reals axioms (sig_forall_dec, sig_not_dec, functional_extensionality_dep, classic) as printed; hand-written model Degree.v validated by exact differential comparison with the implementation; serialiser/generator; NumPy primitives read as the real functions. Array-valued constants are outside the model.",
   technique="Coq proof (structural induction over the expression type) + exact differential correspondence of every entry point with the model (vm_compute in coqc)", ref="6/C04"),
}

NOT_YET = "check not built yet in this round (model and theorem in progress); see DESIGN.md section 6"

def main():
    checks = []
    for pid in ALL:
        if pid not in CLAIMED:
            continue
        c = CLAIMED[pid]
        checks.append({
            "property_id": pid,
            "quick_cmd": f"./check {pid} --tier quick",
            "thorough_cmd": f"./check {pid} --tier thorough",
            "evidence_file": f"/verif/evidence/{pid}.json",
            "replay_cmd_template": f"./check {pid} --replay {{path}}",
            "engine": "coq-proof+correspondence",
            "level_claimed": {"category": c.get("category", "proof"), "text": c["text"], "design_ref": c["ref"]},
            "level_note": c["note"],
            "technique": c["technique"],
        })
    man = {
        "version": 1,
        "setup_cmd": "make -C /verif setup",
        "hooks": {"guard": "OPTYX_VERIF", "enable": "none needed: all seams are module attributes or public API; checks export OPTYX_VERIF=1",
                  "baseline_off_cmd": "cd /repo && /venv/bin/python -m pytest -ra -q -p no:cacheprovider --timeout=900 --continue-on-collection-errors",
                  "source_commits": [], "add_only": True},
        "engines": [{"name": "coq-proof+correspondence", "path": "/verif/check",
                     "serves_properties": sorted(CLAIMED),
                     "kind_free_text": "Coq 8.16.1 development (coq/Optyx) with theorems per property; model tied to /repo on every run by a translator for declarative tables and by differential execution of the model (vm_compute inside coqc) against the implementation"}],
        "checks": checks,
        "notes": ("Machine-checked proof in Coq; see DESIGN.md. Fix commits in /repo are listed in known_findings.json as 'fixed' entries. "
                  "The tie of every check combines a focused corpus (every reduction kind under every one-node context), sibling views with "
                  "coinciding names, adversarial variable orders, user-held value kinds (dtypes, memory layouts, cloned variables) and, where "
                  "the property speaks about state, edit / re-solve histories (DESIGN.md section 4.1); 80 independently written seeded "
                  "breaking changes (seeded/README.md) are each reported by the check of the property they break."),
        "not_applicable": [{"property_id": p, "reason": NOT_YET} for p in ALL if p not in CLAIMED],
    }
    with open(os.path.join(VERIF, "MANIFEST.json"), "w") as f:
        json.dump(man, f, indent=1)
    print("claimed:", sorted(CLAIMED))

if __name__ == "__main__":
    main()
