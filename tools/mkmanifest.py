"""Regenerate MANIFEST.json from the table below (kept in one place so it stays valid)."""
import json, os
VERIF = os.path.dirname(os.path.dirname(os.path.abspath(__file__)))
ALL = [f"C{n:02d}" for n in range(1, 21)]

CLAIMED = {
 "C02": dict(
   text="Theorems (Coq, Coquelicot is_derive): for the Autodiff.v model of symbolic differentiation (5 binary rules, 19 unary rules, 11 registered vector/matrix rules, 6 simplifiers), at every regular point the derivative tree evaluates to the true partial derivative of the denoted function; for absent variables the result is literally the constant 0; derivative trees stay in the fragment (closed for re-differentiation); the explicit-stack traversal equals the recursive one. Tie: the derivative TREE returned by gradient() on the default and the forced explicit-stack path must equal the model's tree exactly, and the value of the returned tree must lie in the interval enclosure of the model tree's real denotation, on generated API programs, every run.",
   note="Trusted: Coq kernel; Reals/Coquelicot axioms as printed; Interval library for the numeric channel; model Autodiff.v. log2/log10 are excluded from the real-number theorem (their derivative embeds the double nearest ln 2 / ln 10) but their trees are compared exactly. dot_same_ok: equal object ids denote the same vector object (serialiser numbering).",
   technique="Coq proof (chain-rule lemmas per operator over Coquelicot's is_derive, structural induction) + exact tree correspondence + interval-enclosure check", ref="6/C02"),
 "C06": dict(
   text="Theorems (Coq): for EVERY answer SciPy could return (and every retry answer), the wrapper model reports OPTIMAL only if the reported point passed the feasibility scan over all declared bounds and all constraint functions within the scaled tolerance; linprog: OPTIMAL iff result.success; at most one retry; every method string is routed to exactly one wrapper. The status chains, accepted-exit condition, tolerances and method sets are regenerated from the source on every run and the theorems re-proved over them. Tie: exhaustive scripted-stub product at the SciPy seams (1980 combinations) must match the model's predicted status, objective, values, call count and argument flags.",
   note="Trusted: Coq kernel (no axioms); translator for the status chains; SciPy as an arbitrary oracle (a NaN point with success=True is outside the rational model); hand-written scan model validated exhaustively against the stubbed wrapper; real-solver search as failing-input search only.",
   technique="Coq proof by case analysis over the generated decision lists (translator output re-proved each run) + exhaustive stub correspondence", ref="6/C06"),
 "C13": dict(
   text="Theorems (Coq, closed under the global context): for the ProblemSM.v state machine, after ANY sequence of objective/sense/constraint/bound edits, reads and solves, everything cached was derived from the current model (cache_inv), every solve hands the solver exactly what a freshly constructed problem would, and bounds are read at solve time. Tie: operation sequences (all of length <= 2, 1100 of length 3, sampled up to 8; thorough: all up to 4) against the real Problem with stubbed seams: per-step cache flags and seam arguments must equal the model's trace.",
   note="Trusted: Coq kernel (no axioms); model ProblemSM.v (a compiled callable is modelled by what it was compiled from); stubs at the two SciPy seams; real solvers only for the failing-input search.",
   technique="Coq proof (invariant by induction over operation sequences, refinement to a fresh problem) + exhaustive/sampled history correspondence", ref="6/C13"),
 "C05": dict(
   text="Theorems (Coq): for the Linear.v model of LP extraction, every linear expression equals its extracted coefficient row applied to the point plus its extracted constant in any duplicate-free variable order; extract_lp's cost vector + constant reproduce the objective, each row/right-hand side reproduces the constraint with its sense (>= negated, == kept, constraint order kept), columns are aligned with the names, the O(1) shortcuts equal the general walker under the monotone-view guarantee, and the reported objective value (both orientations, constant included) equals the objective at the solver's point. Tie: all LPData fields and the public extraction functions must equal the model exactly on generated linear problems, every run.",
   note="Trusted: Coq kernel; Reals axioms as printed; model Linear.v; exactness of float arithmetic on the generated small dyadic coefficients; nodiv0 guard (division by literal zero raises in Python); monotone views (API guarantee, hypothesis `aligned` evaluated per case).",
   technique="Coq proof (structural induction under degree<=1, linear-algebra lemmas over Q/R) + exact differential correspondence of LP data", ref="6/C05"),
 "C01": dict(
   text="Theorems (Coq): for the Compile.v model of the closure compiler, run (build V e) x penv = evalR (env_of V x) penv e for every well-formed tree, every duplicate-free variable list containing its variables (any permutation/superset), every point and every parameter valuation read at call time; the builder is total (fails iff a variable is missing); the explicit-stack builder returns the same closure as the recursive one for every switch threshold. Tie: six implementation paths (compiled, cached, forced explicit-stack, dict function, CompiledExpression.value, evaluate) must each return a float inside the machine-checked interval enclosure of the real denotation, every run.",
   note="Trusted: Coq kernel + vm_compute; Reals axioms as printed; Interval library (SemI.evalI_correct) for the numeric channel; NumPy primitives read as the real functions they implement and assumed within one outward rounding at 40 bits; hand-written model Compile.v (closures are opaque, so its tie is behavioural); array-valued constants/parameters not modelled.",
   technique="Coq proof (structural induction, stack-machine simulation) + interval-enclosure differential check of the implementation's numeric outputs", ref="6/C01"),
 "C16": dict(
   text="Theorems (Coq, closed under the global context): problem_variables of the Vars.v model returns exactly the occurring names, without duplicates, strongly sorted by a proved total order (natural key then raw name), so the result is unique and independent of construction order; the single-vector shortcut equals the general path; bounds are aligned with the reported order. Tie: Problem.variables / n_variables / get_bounds must equal the model exactly on generated problems (adversarial names, views, shuffled construction) in two interpreters with different PYTHONHASHSEED, every run.",
   note="Trusted: Coq kernel; no axioms; model Vars.v (ASCII names; variables identified by name as optyx does); vector identity numbering by the serialiser (vid_consistent hypothesis, evaluated per case).",
   technique="Coq proof (total order, sortedness + permutation => uniqueness) + exact differential correspondence under two hash seeds", ref="6/C16"),
 "C04": dict(
   text="Theorems (Coq): the Degree.v model of the degree analysis is sound w.r.t. the real-number semantics for every expression tree (degree d => polynomial of total degree <= d; is_linear => affine; is_quadratic => degree <= 2), and all entry points (recursive, explicit-stack, any switch threshold incl. the generated one) agree. Tie: every implementation entry point must equal the model's answer on generated API programs, corner cases and deep chains, every run.",
   note="Trusted: Coq kernel; Reals axioms (sig_forall_dec, sig_not_dec, functional_extensionality_dep, classic) as printed; hand-written model Degree.v validated by exact differential comparison with the implementation; serialiser/generator; NumPy primitives read as the real functions. Array-valued constants are outside the model.",
   technique="Coq proof (structural induction over the expression type) + exact differential correspondence of every entry point with the model (vm_compute in coqc)", ref="6/C04"),
}

NOT_YET = "check not built yet in this round (model and theorem in progress); see DESIGN.md section 6"

def main():
    checks = []
    for pid in ALL:
        if pid not in CLAIMED:
            continue
        c = CLAIMED[pid]
        checks.append({
            "property_id": pid,
            "quick_cmd": f"./check {pid} --tier quick",
            "thorough_cmd": f"./check {pid} --tier thorough",
            "evidence_file": f"/verif/evidence/{pid}.json",
            "replay_cmd_template": f"./check {pid} --replay {{path}}",
            "engine": "coq-proof+correspondence",
            "level_claimed": {"category": c.get("category", "proof"), "text": c["text"], "design_ref": c["ref"]},
            "level_note": c["note"],
            "technique": c["technique"],
        })
    man = {
        "version": 1,
        "setup_cmd": "make -C /verif setup",
        "hooks": {"guard": "OPTYX_VERIF", "enable": "none needed: all seams are module attributes or public API; checks export OPTYX_VERIF=1",
                  "baseline_off_cmd": "cd /repo && /venv/bin/python -m pytest -ra -q -p no:cacheprovider --timeout=900 --continue-on-collection-errors",
                  "source_commits": [], "add_only": True},
        "engines": [{"name": "coq-proof+correspondence", "path": "/verif/check",
                     "serves_properties": sorted(CLAIMED),
                     "kind_free_text": "Coq 8.16.1 development (coq/Optyx) with theorems per property; model tied to /repo on every run by a translator for declarative tables and by differential execution of the model (vm_compute inside coqc) against the implementation"}],
        "checks": checks,
        "notes": "Machine-checked proof in Coq; see DESIGN.md. Fix commits in /repo are listed in known_findings.json as 'fixed' entries.",
        "not_applicable": [{"property_id": p, "reason": NOT_YET} for p in ALL if p not in CLAIMED],
    }
    with open(os.path.join(VERIF, "MANIFEST.json"), "w") as f:
        json.dump(man, f, indent=1)
    print("claimed:", sorted(CLAIMED))

if __name__ == "__main__":
    main()
