"""Regenerate MANIFEST.json from the table below (kept in one place so it stays valid)."""
import json, os
VERIF = os.path.dirname(os.path.dirname(os.path.abspath(__file__)))
ALL = [f"C{n:02d}" for n in range(1, 21)]

CLAIMED = {
 "C04": dict(
   text="Theorems (Coq): the Degree.v model of the degree analysis is sound w.r.t. the real-number semantics for every expression tree (degree d => polynomial of total degree <= d; is_linear => affine; is_quadratic => degree <= 2), and all entry points (recursive, explicit-stack, any switch threshold incl. the generated one) agree. Tie: every implementation entry point must equal the model's answer on generated API programs, corner cases and deep chains, every run.",
   note="Trusted: Coq kernel; Reals axioms (sig_forall_dec, sig_not_dec, functional_extensionality_dep, classic) as printed; hand-written model Degree.v validated by exact differential comparison with the implementation; serialiser/generator; NumPy primitives read as the real functions. Array-valued constants are outside the model.",
   technique="Coq proof (structural induction over the expression type) + exact differential correspondence of every entry point with the model (vm_compute in coqc)", ref="6/C04"),
}

NOT_YET = "check not built yet in this round (model and theorem in progress); see DESIGN.md section 6"

def main():
    checks = []
    for pid in ALL:
        if pid not in CLAIMED:
            continue
        c = CLAIMED[pid]
        checks.append({
            "property_id": pid,
            "quick_cmd": f"./check {pid} --tier quick",
            "thorough_cmd": f"./check {pid} --tier thorough",
            "evidence_file": f"/verif/evidence/{pid}.json",
            "replay_cmd_template": f"./check {pid} --replay {{path}}",
            "engine": "coq-proof+correspondence",
            "level_claimed": {"category": c.get("category", "proof"), "text": c["text"], "design_ref": c["ref"]},
            "level_note": c["note"],
            "technique": c["technique"],
        })
    man = {
        "version": 1,
        "setup_cmd": "make -C /verif setup",
        "hooks": {"guard": "OPTYX_VERIF", "enable": "none needed: all seams are module attributes or public API; checks export OPTYX_VERIF=1",
                  "baseline_off_cmd": "cd /repo && /venv/bin/python -m pytest -ra -q -p no:cacheprovider --timeout=900 --continue-on-collection-errors",
                  "source_commits": [], "add_only": True},
        "engines": [{"name": "coq-proof+correspondence", "path": "/verif/check",
                     "serves_properties": sorted(CLAIMED),
                     "kind_free_text": "Coq 8.16.1 development (coq/Optyx) with theorems per property; model tied to /repo on every run by a translator for declarative tables and by differential execution of the model (vm_compute inside coqc) against the implementation"}],
        "checks": checks,
        "notes": "Machine-checked proof in Coq; see DESIGN.md. Fix commits in /repo are listed in known_findings.json as 'fixed' entries.",
        "not_applicable": [{"property_id": p, "reason": NOT_YET} for p in ALL if p not in CLAIMED],
    }
    with open(os.path.join(VERIF, "MANIFEST.json"), "w") as f:
        json.dump(man, f, indent=1)
    print("claimed:", sorted(CLAIMED))

if __name__ == "__main__":
    main()
