"""Translate the status-mapping if/elif chains and related declarative facts of
solvers/scipy_solver.py and solvers/lp_solver.py into coq/Optyx/SolveWrap.v terms. Fail-closed."""
from __future__ import annotations

import ast

from translate import TranslationError, coq_q, coq_str, coq_list, find_func  # type: ignore

STATUS = {"OPTIMAL", "INFEASIBLE", "UNBOUNDED", "MAX_ITERATIONS", "FAILED"}


def is_msg(node):
    """result.message.lower()  |  message_lower"""
    if isinstance(node, ast.Name) and node.id == "message_lower":
        return True
    return ast.unparse(node) == "result.message.lower()"


def cond(node, where):
    if isinstance(node, ast.BoolOp):
        op = "CAnd" if isinstance(node.op, ast.And) else "COr"
        out = cond(node.values[0], where)
        for v in node.values[1:]:
            out = f"({op} {out} {cond(v, where)})"
        return out
    if isinstance(node, ast.UnaryOp) and isinstance(node.op, ast.Not):
        return f"(CNot {cond(node.operand, where)})"
    src = ast.unparse(node)
    if src in ("result.success", "bool(result.success)"):
        return "CSuccess"
    if src == "constraints_violated":
        return "CViolated"
    if isinstance(node, ast.Compare) and len(node.ops) == 1:
        if isinstance(node.ops[0], ast.In) and isinstance(node.left, ast.Constant) and isinstance(node.left.value, str) \
                and is_msg(node.comparators[0]):
            return f"(CMsg {coq_str(node.left.value)})"
        if isinstance(node.ops[0], ast.Eq) and ast.unparse(node.left) == "result.status" \
                and isinstance(node.comparators[0], ast.Constant) and isinstance(node.comparators[0].value, int):
            return f"(CStatusIs {node.comparators[0].value})"
    raise TranslationError(f"{where}: unsupported condition {src}")


def status_of_body(body, where):
    if len(body) == 1 and isinstance(body[0], ast.Assign) and ast.unparse(body[0].targets[0]) == "status":
        v = body[0].value
        if isinstance(v, ast.Attribute) and isinstance(v.value, ast.Name) and v.value.id == "SolverStatus" and v.attr in STATUS:
            return v.attr
    raise TranslationError(f"{where}: branch is not `status = SolverStatus.<X>`")


def status_chain(fn, where):
    chains = []
    for node in ast.walk(fn):
        if isinstance(node, ast.If):
            try:
                status_of_body(node.body, where)
            except TranslationError:
                continue
            chains.append(node)
    # keep only top-most chain heads (an elif is nested in orelse of its parent)
    nested = set()
    for c in chains:
        if len(c.orelse) == 1 and isinstance(c.orelse[0], ast.If):
            nested.add(id(c.orelse[0]))
    heads = [c for c in chains if id(c) not in nested]
    if len(heads) != 1:
        raise TranslationError(f"{where}: expected exactly one status chain, found {len(heads)}")
    node = heads[0]
    out = []
    while True:
        out.append((cond(node.test, where), status_of_body(node.body, where)))
        if len(node.orelse) == 1 and isinstance(node.orelse[0], ast.If):
            node = node.orelse[0]
        else:
            return out, status_of_body(node.orelse, where)


def first_line(fn, pred):
    lines = [n.lineno for n in ast.walk(fn) if pred(n)]
    return min(lines) if lines else None


def is_call_to(name):
    return lambda n: isinstance(n, ast.Call) and isinstance(n.func, ast.Name) and n.func.id == name


def is_raise_of(name):
    return lambda n: isinstance(n, ast.Raise) and isinstance(n.exc, ast.Call) and isinstance(n.exc.func, ast.Name) \
        and n.exc.func.id == name


def sanitized_general(fn_outer, inner_name, where):
    """Does the nested closure <inner_name> return _sanitize_derivatives(...) (possibly .reshape'd)?"""
    for n in ast.walk(fn_outer):
        if isinstance(n, ast.FunctionDef) and n.name == inner_name:
            rets = [r for r in ast.walk(n) if isinstance(r, ast.Return) and r.value is not None]
            if len(rets) != 1:
                raise TranslationError(f"{where}: {inner_name} has {len(rets)} return statements")
            v = rets[0].value
            if isinstance(v, ast.Call) and isinstance(v.func, ast.Attribute) and v.func.attr == "reshape":
                v = v.func.value
            return isinstance(v, ast.Call) and isinstance(v.func, ast.Name) and v.func.id == "_sanitize_derivatives"
    raise TranslationError(f"{where}: closure {inner_name} not found")


def status_tables(t_scipy, t_lp, t_comp, t_auto) -> str:
    solve_scipy = find_func(t_scipy, "solve_scipy", "scipy_solver.py")
    solve_lp = find_func(t_lp, "solve_lp", "lp_solver.py")
    chain, dflt = status_chain(solve_scipy, "solve_scipy")
    lchain, ldflt = status_chain(solve_lp, "solve_lp")
    # accepted_exit = bool(result.success) or (...)
    acc = None
    rtol = atol = None
    retry = None
    for node in ast.walk(solve_scipy):
        if isinstance(node, ast.Assign) and len(node.targets) == 1 and isinstance(node.targets[0], ast.Name):
            nm = node.targets[0].id
            if nm == "accepted_exit":
                acc = cond(node.value, "accepted_exit")
            if nm == "rtol" and isinstance(node.value, ast.Constant):
                rtol = node.value.value
            if nm == "atol":
                if ast.unparse(node.value).startswith("tol if tol is not None else "):
                    atol = node.value.orelse.value
        if isinstance(node, ast.If) and ast.unparse(node.test) == "constraints_violated and method == 'SLSQP'":
            src = "\n".join(ast.unparse(s) for s in node.body)
            if "return solve_scipy(" in src and "method='trust-constr'" in src:
                retry = ("SLSQP", "trust-constr")
    if acc is None:
        raise TranslationError("solve_scipy: accepted_exit not found")
    if rtol is None or atol is None:
        raise TranslationError("solve_scipy: atol/rtol defaults not found")
    if retry is None:
        raise TranslationError("solve_scipy: SLSQP -> trust-constr retry not found in the expected shape")
    # scan guards
    scan_guards = sorted({ast.unparse(n.test) for n in ast.walk(solve_scipy)
                          if isinstance(n, ast.If) and "accepted_exit" in ast.unparse(n.test)})
    if scan_guards != ["accepted_exit", "accepted_exit and scipy_constraints"]:
        raise TranslationError(f"solve_scipy: feasibility scan guards are {scan_guards}")
    # gate precedes the oracle call
    g1 = first_line(solve_scipy, is_raise_of("IntegerVariableError"))
    o1 = first_line(solve_scipy, is_call_to("minimize"))
    g2 = first_line(solve_lp, is_raise_of("IntegerVariableError"))
    o2 = first_line(solve_lp, is_call_to("linprog"))
    if None in (g1, o1, g2, o2):
        raise TranslationError("integrality gate or oracle call not found")
    compile_jac = find_func(t_auto, "compile_jacobian", "autodiff.py")
    compile_hess = find_func(t_auto, "compile_hessian", "autodiff.py")
    compile_grad = find_func(t_comp, "compile_gradient", "compiler.py")
    unary_grad = find_func(t_comp, "_compile_vectorized_unary_gradient", "compiler.py")
    general = [
        ("jacobian_fn", sanitized_general(compile_jac, "jacobian_fn", "compile_jacobian")),
        ("scaled_variable_jacobian_fn", sanitized_general(compile_jac, "scaled_variable_jacobian_fn", "compile_jacobian")),
        ("symbolic_gradient", sanitized_general(compile_grad, "symbolic_gradient", "compile_gradient")),
        ("fallback_gradient", sanitized_general(unary_grad, "fallback_gradient", "_compile_vectorized_unary_gradient")),
        ("hessian_fn", sanitized_general(compile_hess, "hessian_fn", "compile_hessian")),
    ]
    fmt = lambda ch: coq_list(f"({c}, {s})" for c, s in ch)
    out = []
    out.append(f"Definition gen_accepted : cond := {acc}.")
    out.append(f"Definition gen_status_chain : list (cond * status) := {fmt(chain)}.")
    out.append(f"Definition gen_status_default : status := {dflt}.")
    out.append(f"Definition gen_lp_chain : list (cond * status) := {fmt(lchain)}.")
    out.append(f"Definition gen_lp_default : status := {ldflt}.")
    out.append(f"Definition gen_atol_default : Q := {coq_q(atol)}.")
    out.append(f"Definition gen_rtol : Q := {coq_q(rtol)}.")
    out.append(f"Definition gen_retry : string * string := ({coq_str(retry[0])}, {coq_str(retry[1])}).")
    out.append(f"Definition gen_gate_before_oracle : bool * bool := ({'true' if g1 < o1 else 'false'}, {'true' if g2 < o2 else 'false'}).")
    out.append("Definition gen_general_paths_sanitized : list (string * bool) := "
               + coq_list(f"({coq_str(n)}, {'true' if b else 'false'})" for n, b in general) + ".")
    return "\n".join(out) + "\n"
