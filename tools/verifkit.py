"""Shared machinery for /verif/check: build, proof-obligation accounting,
correspondence bookkeeping, adjudication output, evidence files."""
from __future__ import annotations

import fcntl
import hashlib
import json
import os
import re
import subprocess
import sys
import time

VERIF = os.path.dirname(os.path.dirname(os.path.abspath(__file__)))
COQ = os.path.join(VERIF, "coq")
REPO = os.environ.get("OPTYX_REPO", "/repo")
SRC = os.path.join(REPO, "src")
WORK = os.path.join(VERIF, ".work")
EVID = os.path.join(VERIF, "evidence")
REPLAYS = os.path.join(VERIF, "replays")

FORBIDDEN = re.compile(
    r"\b(Admitted|admit|Axiom|Axioms|Parameter|Parameters|Conjecture|Conjectures|Admit Obligations)\b"
    r"|Unset\s+Guard|Unset\s+Positivity|Unset\s+Universe|bypass_check|type-in-type|impredicative-set|native_compute"
)
TOPLEVEL_VAR = re.compile(r"^\s*(Variable|Variables|Hypothesis|Hypotheses|Context)\b")

# axioms of the Coq standard library that theorems over R may depend on
ALLOWED_AXIOMS = {
    "ClassicalDedekindReals.sig_forall_dec",
    "ClassicalDedekindReals.sig_not_dec",
    "FunctionalExtensionality.functional_extensionality_dep",
    "Classical_Prop.classic",
    "ProofIrrelevance.proof_irrelevance",
    "Eqdep.Eq_rect_eq.eq_rect_eq",
    "ClassicalEpsilon.constructive_indefinite_description",
    "JMeq.JMeq_eq",
    "PropExtensionality.propositional_extensionality",
    "ClassicalUniqueChoice.dependent_unique_choice",
    "RelationalChoice.relational_choice",
    "ChoiceFacts.constructive_definite_description",
}
# primitives reported by Print Assumptions that are not axioms of ours
PRIMITIVE_PREFIXES = ("PrimInt63", "PrimFloat", "Uint63", "Sint63", "Float", "PArray", "CarryType")


class Broken(Exception):
    """The check machinery itself could not run (build failure etc.)."""


def sh(cmd, timeout=1800, cwd=None, env=None):
    p = subprocess.run(cmd, shell=isinstance(cmd, str), capture_output=True, text=True,
                       timeout=timeout, cwd=cwd, env=env)
    return p.returncode, p.stdout, p.stderr


def hygiene_gate():
    """No Admitted/Axiom/... anywhere in the development; no Variable outside a Section."""
    hits = []
    for root, _, files in os.walk(os.path.join(COQ, "Optyx")):
        for fn in files:
            if not fn.endswith(".v"):
                continue
            path = os.path.join(root, fn)
            depth = 0
            in_comment = 0
            for ln, line in enumerate(open(path, encoding="utf-8"), 1):
                # strip comments (nesting-aware, line-local approximation)
                out = []
                i = 0
                while i < len(line):
                    if line.startswith("(*", i):
                        in_comment += 1
                        i += 2
                    elif line.startswith("*)", i) and in_comment:
                        in_comment -= 1
                        i += 2
                    else:
                        if not in_comment:
                            out.append(line[i])
                        i += 1
                code = "".join(out)
                if re.match(r"^\s*Section\b", code):
                    depth += 1
                if re.match(r"^\s*End\b", code) and depth > 0:
                    depth -= 1
                if FORBIDDEN.search(code):
                    hits.append(f"{path}:{ln}: {code.strip()}")
                if depth == 0 and TOPLEVEL_VAR.match(code):
                    hits.append(f"{path}:{ln}: top-level {code.strip()}")
    return hits


class BuildLock:
    def __enter__(self):
        os.makedirs(WORK, exist_ok=True)
        self.f = open(os.path.join(WORK, "build.lock"), "w")
        fcntl.flock(self.f, fcntl.LOCK_EX)
        return self

    def __exit__(self, *a):
        fcntl.flock(self.f, fcntl.LOCK_UN)
        self.f.close()


def source_hash(files):
    h = hashlib.sha256()
    for f in sorted(files):
        p = os.path.join(SRC, "optyx", f)
        h.update(f.encode())
        h.update(open(p, "rb").read())
    return h.hexdigest()[:16]


def build(prop_file=None):
    """Regenerate the generated tables from /repo, then (re)build the development.
    Returns (ok, log, gen_info).  A failure is reported, not raised: a broken
    generated obligation is a finding to adjudicate, not a crash."""
    with BuildLock():
        env = dict(os.environ)
        env["PYTHONPATH"] = SRC + os.pathsep + os.path.join(VERIF, "tools")
        env["PYTHONHASHSEED"] = "0"
        rc, out, err = sh([os.environ.get("OPTYX_PY", "/venv/bin/python"),
                           os.path.join(VERIF, "tools", "translate.py")], env=env, timeout=300)
        gen_info = {"translator_rc": rc, "translator_out": (out + err)[-3000:]}
        if rc != 0:
            return False, "translator failed (fail-closed):\n" + out + err, gen_info
        if not os.path.exists(os.path.join(COQ, "Makefile")):
            rc, out, err = sh("coq_makefile -f _CoqProject -o Makefile", cwd=COQ)
            if rc != 0:
                return False, out + err, gen_info
        rc, out, err = sh("timeout 3000 make -j16 2>&1", cwd=COQ, timeout=3100)
        return rc == 0, out + err, gen_info


def print_assumptions(prop):
    """Compile Props/<prop>.v (always, so its output is fresh) and parse the
    Print Assumptions blocks.  Returns dict theorem -> list of axioms."""
    path = os.path.join(COQ, "Optyx", "Props", prop + ".v")
    rc, out, err = sh(["timeout", "900", "coqc", "-Q", os.path.join(COQ, "Optyx"), "Optyx", path], cwd=COQ, timeout=1000)
    if rc != 0:
        return None, out + err
    return parse_assumptions(open(path).read(), out), out


def parse_assumptions(src, out):
    names = re.findall(r"Print Assumptions\s+([\w.']+)\s*\.", src)
    blocks = re.split(r"(?=Closed under the global context|Axioms:)", out)
    blocks = [b for b in blocks if b.startswith("Closed under") or b.startswith("Axioms:")]
    res = {}
    for name, b in zip(names, blocks):
        if b.startswith("Closed under"):
            res[name] = []
        else:
            axs = re.findall(r"^([A-Za-z_][\w.']*)\s*:", b[len("Axioms:"):], re.M)
            res[name] = axs
    if len(names) != len(blocks):
        res["__mismatch__"] = [f"{len(names)} Print Assumptions commands, {len(blocks)} answers"]
    return res


def axioms_ok(ax_map):
    bad = {}
    for thm, axs in ax_map.items():
        for a in axs:
            if a in ALLOWED_AXIOMS or a.startswith(PRIMITIVE_PREFIXES):
                continue
            bad.setdefault(thm, []).append(a)
    return bad


def count_statements(prop):
    """Number of Theorem/Lemma/Corollary/Example statements in Props/<prop>.v."""
    src = open(os.path.join(COQ, "Optyx", "Props", prop + ".v")).read()
    return re.findall(r"^\s*(?:Theorem|Lemma|Corollary|Example)\s+([\w']+)", src, re.M)


# ---------------------------------------------------------------- reporting
class Report:
    def __init__(self, prop, tier, seed):
        self.prop, self.tier, self.seed = prop, tier, seed
        self.t0 = time.time()
        self.violations = []      # (replay_path, no_input_found: bool)
        self.known = []
        self.coverage = {}
        self.assumptions = []
        self.notes = []
        self.known_findings = load_known_findings()

    def violation(self, replay: dict, concrete: bool):
        """Record a violation unless it matches a known finding."""
        for kf in self.known_findings:
            if kf.get("kind") == "known" and kf.get("property") == self.prop and match_known(kf, replay):
                msg = f"KNOWN-FINDING: property={self.prop} {kf.get('what', '')}"
                if msg not in self.known:
                    self.known.append(msg)
                return
        os.makedirs(REPLAYS, exist_ok=True)
        blob = json.dumps(replay, sort_keys=True, default=str)
        h = hashlib.sha256(blob.encode()).hexdigest()[:12]
        path = os.path.join(REPLAYS, f"{self.prop}-{h}.json")
        with open(path, "w") as f:
            json.dump(replay, f, indent=1, sort_keys=True, default=str)
        self.violations.append((path, not concrete))

    def finish(self, level="proof"):
        wall = time.time() - self.t0
        ev = {
            "property_id": self.prop, "tier": self.tier, "seed": self.seed, "level": level,
            "coverage": self.coverage, "assumptions": self.assumptions,
            "wall_s": round(wall, 2), "violations": len(self.violations),
        }
        try:
            from checks import common as _common
            if _common.UNRESOLVED:
                ev["coverage"]["cases_the_coq_evaluation_gave_up_on"] = len(_common.UNRESOLVED)
        except Exception:
            pass
        if self.notes:
            ev["coverage"]["notes"] = self.notes
        os.makedirs(EVID, exist_ok=True)
        with open(os.path.join(EVID, f"{self.prop}.json"), "w") as f:
            json.dump(ev, f, indent=1, default=str)
        for k in self.known:
            print(k)
        seen = set()
        # violations that come with a concrete failing input are printed first (at most 20 lines in all)
        for path, nofound in sorted(self.violations, key=lambda t: t[1])[:20]:
            if path in seen:
                continue
            seen.add(path)
            line = f"VIOLATION property={self.prop} replay={path}"
            if nofound:
                line += " no-failing-input-found"
            print(line)
        print(f"[{self.prop}] tier={self.tier} seed={self.seed} obligations={self.coverage.get('obligations')} "
              f"discharged={self.coverage.get('discharged')} evaluations={self.coverage.get('evaluations')} "
              f"violations={len(self.violations)} known={len(self.known)} wall={wall:.1f}s")
        return 1 if self.violations else 0


def load_known_findings():
    p = os.path.join(VERIF, "known_findings.json")
    if not os.path.exists(p):
        return []
    return json.load(open(p)).get("findings", [])


def match_known(kf, replay):
    m = kf.get("match", {})
    for k, v in m.items():
        rv = replay.get(k)
        if isinstance(v, str) and isinstance(rv, str):
            if v not in rv:
                return False
        elif rv != v:
            return False
    return bool(m)


def proof_stage(rep: Report, prop: str, extra_trusted=()):
    """Hygiene gate + build + Print Assumptions for Props/<prop>.v.
    Fills the proof-level coverage keys; records violations for broken obligations."""
    hits = hygiene_gate()
    ok, log, gen_info = build()
    stmts = count_statements(prop)
    cov = rep.coverage
    cov["checker_cmd"] = f"make -C {COQ} (coqc 8.16.1, full .vo build) && coqc Optyx/Props/{prop}.v"
    cov["obligations"] = len(stmts) + 1  # +1: the generated-tables obligation (GenTables.v compiles)
    cov["theorems"] = stmts
    cov["translator"] = gen_info
    if hits:
        cov["discharged"] = 0
        rep.violation({"kind": "hygiene", "obligation": "no Admitted/Axiom/... in coq/", "hits": hits[:20]}, concrete=False)
        return False
    if not ok:
        cov["discharged"] = 0
        cov["build_log_tail"] = log[-4000:]
        rep.violation({"kind": "proof", "obligation": f"development builds (Props/{prop}.v and its dependencies)",
                       "log_tail": log[-4000:]}, concrete=False)
        return False
    ax, out = print_assumptions(prop)
    if ax is None:
        cov["discharged"] = 0
        rep.violation({"kind": "proof", "obligation": f"Props/{prop}.v compiles", "log_tail": out[-4000:]}, concrete=False)
        return False
    bad = axioms_ok(ax)
    cov["axioms"] = {k: v for k, v in ax.items()}
    allax = sorted({a for v in ax.values() for a in v})
    cov["trusted_base"] = [
        "Coq 8.16.1 kernel (coqc; vm_compute used, native_compute not used)",
        "axioms reported by Print Assumptions: " + (", ".join(allax) if allax else "none (closed under the global context)"),
        "hand-written Gallina model of the optyx source (coq/Optyx/*.v), tied to /repo by the correspondence check of this run",
        "tools/translate.py (generated tables), tools/ser.py (serialiser), tools/gen.py (generators), tools/coqrun.py",
        "NumPy/SciPy/libm primitives read as the real functions they implement",
    ] + list(extra_trusted)
    if bad or "__mismatch__" in ax:
        cov["discharged"] = 0
        rep.violation({"kind": "axioms", "obligation": "only standard-library axioms", "bad": bad, "mismatch": ax.get("__mismatch__")}, concrete=False)
        return False
    cov["discharged"] = cov["obligations"]
    return True
