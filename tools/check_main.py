"""./check Cxx [--tier quick|thorough] [--replay file]"""
from __future__ import annotations

import argparse
import importlib
import os
import sys
import traceback

import verifkit as vk


def main():
    ap = argparse.ArgumentParser()
    ap.add_argument("prop")
    ap.add_argument("--tier", default=os.environ.get("VERIF_TIER", "quick"), choices=["quick", "thorough"])
    ap.add_argument("--replay", default=None)
    a = ap.parse_args()
    seed = int(os.environ.get("VERIF_SEED", "20261001"))
    prop = a.prop.upper()
    mod = importlib.import_module(f"checks.{prop.lower()}")
    rep = vk.Report(prop, a.tier, seed)
    try:
        if a.replay:
            rc = mod.replay(rep, a.replay)
            sys.exit(rc)
        mod.run(rep)
    except Exception as e:  # the machinery itself broke: report it as an unshown property
        traceback.print_exc()
        rep.coverage.setdefault("obligations", 1)
        rep.coverage.setdefault("discharged", 0)
        rep.coverage.setdefault("checker_cmd", "coqc")
        rep.coverage.setdefault("trusted_base", [])
        rep.violation({"kind": "machinery", "obligation": "check ran to completion", "error": repr(e)}, concrete=False)
    sys.exit(rep.finish(level=getattr(mod, "LEVEL", "proof")))


if __name__ == "__main__":
    main()
