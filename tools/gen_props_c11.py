import subprocess, re, sys
names = """zidx_spec v_getitem_correct v_slice_correct m_getitem_correct m_row_correct m_col_correct m_sub_correct m_T_correct np_transpose_entry m_diagonal_correct m_trace_correct
v_binop_scalar v_binop_pow_scalar v_binop_vec v_binop_arr1 v_binop_pow_arr1 v_rbinop_scalar v_rbinop_arr1 v_neg_correct m_binop_scalar m_binop_pow_scalar m_binop_mat m_binop_arr2 m_binop_pow_arr2 m_rbinop_scalar m_rbinop_arr2 m_neg_correct
v_sum_correct v_dot_correct v_matmul_vec v_matmul_arr1 v_rmatmul_arr1 matvec_correct v_rmatmul_arr2 matvec_total v_dot_matvec_correct v_dot_matvec_rewrites v_norm2_correct v_norm1_correct v_norm_other quad_form_correct m_sum_correct m_frob_correct m_matvec_correct m_matvec_rows_full
v_getitem_out_of_range m_getitem_out_of_range m_row_out_of_range m_col_out_of_range v_slice_empty m_row_empty m_col_empty m_sub_empty v_slice_step0 m_sub_step0
v_binop_vec_mismatch v_binop_arr1_mismatch v_binop_arr2 v_binop_mat v_binop_other v_binop_size v_binop_never_expr_or_mat v_rbinop_arr1_mismatch v_rbinop_arr2 v_rbinop_size v_dot_mismatch v_matmul_vec_mismatch v_matmul_arr1_mismatch v_matmul_arr2 v_rmatmul_arr1_mismatch matvec_mismatch matvec_empty quad_form_not_square quad_form_mismatch v_dot_matvec_mismatch m_diagonal_not_square m_trace_not_square m_binop_mat_mismatch m_binop_arr2_mismatch m_rbinop_arr2_mismatch m_binop_arr1 m_binop_vec m_binop_shape m_matvec_mismatch shape_eqb_spec qshape_ok_spec
slice_indices_bound slice_indices_increasing slice_indices_decreasing slice_indices_NoDup slice_indices_step0 slice_indices_defined slice_indices_up_spec slice_indices_dn_spec slice_full slice_reverse np_slice_full np_slice_reverse v_slice_wf v_sum_slice
sym_rows_symmetric sym_rows_shape
m_matvec_example m_matvec_example_np m_matvec_example_rejected v_binop_example_rejected v_slice_example m_T_example v_sum_needs_wf v_binop_pow_literal m_trace_empty m_T_ragged""".split()
hdr = """From Coq Require Import Reals QArith Qreals String List Arith Bool ZArith Lia Lra Sorted.
From Optyx Require Import Syntax SemR VecMat NumpySpec VecMatProofs.
Import ListNotations.
Close Scope Q_scope.
Open Scope R_scope.
"""
q = hdr + "Set Printing Width 100000.\nSet Printing Depth 100000.\n" + "".join(f'Check {n}.\n' for n in names)
open('/tmp/q_c11.v','w').write(q)
out = subprocess.run(['coqc','-Q','Optyx','Optyx','/tmp/q_c11.v'],capture_output=True,text=True)
if out.returncode: print(out.stderr[-2000:]); sys.exit(1)
blocks = re.split(r'(?m)^(?=\S+\n\s+: )', out.stdout)
stm = {}
for b in blocks:
    m = re.match(r'(\S+)\n\s+: (.*)', b, re.S)
    if m: stm[m.group(1)] = ' '.join(m.group(2).split())
missing=[n for n in names if n not in stm]
print('missing',missing, file=sys.stderr)
body = """(* C11 - vector and matrix modelling operations denote their NumPy counterparts.
   Only statements: every proof is `exact <lemma>` from VecMatProofs.v.  The reference
   semantics (np_* on list R / list (list R)) is NumpySpec.v; ev / evm evaluate every
   element tree of a vector / matrix object with SemR.evalR.  The statements below were
   printed by Coq from the proved lemmas (tools: Check), so they are the proved ones. *)
""" + hdr + "\n"
for n in names:
    if n not in stm: continue
    kw = 'Example' if ('example' in n or n in ('v_sum_needs_wf','v_binop_pow_literal','m_trace_empty','m_T_ragged')) else 'Theorem'
    body += f"{kw} C11_{n} : {stm[n]}.\nProof. exact {n}. Qed.\nPrint Assumptions C11_{n}.\n\n"
open('Optyx/Props/C11.v','w').write(body)
