"""Evaluate the Coq model on harness-generated cases with vm_compute inside coqc.

Each shard is a .v file:  Definition cases := [c1; c2; ...].
                          Eval vm_compute in (failing <checker> cases).
and prints the list of indices (within the shard) whose check returned false.
"""
from __future__ import annotations

import os
import re
import subprocess
import tempfile
import shutil
from concurrent.futures import ThreadPoolExecutor

VERIF = os.path.dirname(os.path.dirname(os.path.abspath(__file__)))
COQDIR = os.path.join(VERIF, "coq")
WORK = os.path.join(VERIF, ".work")

PRELUDE = """From Coq Require Import String List QArith Qabs ZArith Bool.
From Optyx Require Import Syntax {imports} Harness.
Import ListNotations.
Open Scope string_scope.
Set Warnings "-abstract-large-number".
"""


class CoqError(Exception):
    pass


def _run_shard(args):
    path, timeout = args
    try:
        p = subprocess.run(
            ["coqc", "-Q", os.path.join(COQDIR, "Optyx"), "Optyx", path],
            capture_output=True, text=True, timeout=timeout, cwd=os.path.dirname(path),
        )
    except subprocess.TimeoutExpired:
        raise CoqError(f"coqc timeout on {path}")
    if p.returncode != 0:
        raise CoqError(f"coqc failed on {path}:\n{p.stdout[-2000:]}\n{p.stderr[-3000:]}")
    return p.stdout


def parse_nat_list(out: str) -> list[int]:
    m = re.search(r"=\s*(\[.*?\])\s*(%\w+)?\s*:\s*list nat", out, re.S)
    if not m:
        raise CoqError("cannot parse coqc output:\n" + out[-2000:])
    body = m.group(1).strip()[1:-1].strip()
    if not body:
        return []
    return [int(x) for x in re.split(r"[;\s]+", body.replace("%nat", "")) if x]


def run_cases(imports: str, defs: str, case_type: str, cases: list[str], checker: str,
              shard: int = 300, jobs: int = 12, timeout: int = 600, keep: bool = False):
    """Return (failing global indices, workdir or None)."""
    os.makedirs(WORK, exist_ok=True)
    d = tempfile.mkdtemp(prefix="run_", dir=WORK)
    paths = []
    for k in range(0, max(len(cases), 1), shard):
        chunk = cases[k:k + shard]
        path = os.path.join(d, f"cases_{k // shard}.v")
        with open(path, "w") as f:
            f.write(PRELUDE.format(imports=imports))
            f.write(defs + "\n")
            f.write(f"Definition cases : list ({case_type}) := [\n")
            f.write(";\n".join(chunk))
            f.write("\n].\n")
            f.write(f"Definition the_checker : ({case_type}) -> bool := {checker}.\n")
            f.write("Eval vm_compute in (failing the_checker cases).\n")
        paths.append((k, path))
    fails: list[int] = []
    try:
        with ThreadPoolExecutor(max_workers=jobs) as ex:
            outs = list(ex.map(_run_shard, [(p, timeout) for _, p in paths]))
        for (k, _), out in zip(paths, outs):
            fails.extend(k + i for i in parse_nat_list(out))
    finally:
        if not keep and not os.environ.get('COQRUN_KEEP'):
            shutil.rmtree(d, ignore_errors=True)
    return sorted(fails)


def eval_term(imports: str, defs: str, term: str, timeout: int = 300) -> str:
    """Evaluate one term with vm_compute and return Coq's printed answer (for replay files)."""
    os.makedirs(WORK, exist_ok=True)
    d = tempfile.mkdtemp(prefix="eval_", dir=WORK)
    try:
        path = os.path.join(d, "one.v")
        with open(path, "w") as f:
            f.write(PRELUDE.format(imports=imports))
            f.write(defs + "\n")
            f.write(f"Eval vm_compute in ({term}).\n")
        return _run_shard((path, timeout)).strip()
    finally:
        shutil.rmtree(d, ignore_errors=True)
