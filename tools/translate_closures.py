"""Translate the straight-line NumPy closures of the vectorised derivative paths
(compiler.py: _compile_vectorized_power_gradient, _compile_vectorized_unary_gradient;
autodiff.py: compile_hessian) into terms of coq/Optyx/ArrTerm.v.  Fail-closed."""
from __future__ import annotations

import ast

from translate import TranslationError, coq_q, coq_str, coq_list  # type: ignore


NP_UN = {"cos": "Cos", "sin": "Sin", "exp": "Exp", "sqrt": "Sqrt", "tanh": "Tanh", "cosh": "Cosh",
         "sinh": "Sinh", "tan": "Tan", "log": "Log", "abs": "Abs"}
BIN = {ast.Add: "Add", ast.Sub: "Sub", ast.Mult: "Mul", ast.Div: "Div", ast.Pow: "Pow"}


class Ctx:
    def __init__(self, env):
        self.env = env  # name -> ast expr (enclosing-scope scalar definitions such as coeff, exp)


def is_x(node):
    """x  or  x[indices]"""
    if isinstance(node, ast.Name) and node.id == "x":
        return True
    if isinstance(node, ast.Subscript) and isinstance(node.value, ast.Name) and node.value.id == "x" \
            and isinstance(node.slice, ast.Name) and node.slice.id == "indices":
        return True
    return False


def eterm(node, ctx: Ctx, where: str) -> str:
    if is_x(node):
        return "EX"
    if isinstance(node, ast.Constant) and isinstance(node.value, (int, float)) and not isinstance(node.value, bool):
        return f"(ELit {coq_q(node.value)})"
    if isinstance(node, ast.Name):
        if node.id == "k":
            return "EK"
        if node.id in ctx.env:
            return eterm(ctx.env[node.id], ctx, where)
        raise TranslationError(f"{where}: unknown name {node.id}")
    if isinstance(node, ast.UnaryOp) and isinstance(node.op, ast.USub):
        return f"(ENeg {eterm(node.operand, ctx, where)})"
    if isinstance(node, ast.BinOp) and type(node.op) in BIN:
        return f"(EBin {BIN[type(node.op)]} {eterm(node.left, ctx, where)} {eterm(node.right, ctx, where)})"
    if isinstance(node, ast.Call) and isinstance(node.func, ast.Attribute) and isinstance(node.func.value, ast.Name) \
            and node.func.value.id == "np" and not node.keywords:
        f = node.func.attr
        if f == "power" and len(node.args) == 2:
            return f"(EBin Pow {eterm(node.args[0], ctx, where)} {eterm(node.args[1], ctx, where)})"
        if f == "sign" and len(node.args) == 1:
            return f"(ESign {eterm(node.args[0], ctx, where)})"
        if f in NP_UN and len(node.args) == 1:
            return f"(ENp {NP_UN[f]} {eterm(node.args[0], ctx, where)})"
    raise TranslationError(f"{where}: unsupported expression {ast.dump(node)[:200]}")


def strip_sanitize(node):
    """_sanitize_derivatives(E) -> (True, E); E -> (False, E)"""
    if isinstance(node, ast.Call) and isinstance(node.func, ast.Name) and node.func.id == "_sanitize_derivatives" \
            and len(node.args) == 1 and not node.keywords:
        return True, node.args[0]
    return False, node


def strip_call(node, modname, fname):
    if isinstance(node, ast.Call) and isinstance(node.func, ast.Attribute) and node.func.attr == fname \
            and isinstance(node.func.value, ast.Name) and node.func.value.id == modname and len(node.args) == 1:
        return True, node.args[0]
    return False, node


def closure_body(fn: ast.FunctionDef, ctx: Ctx, precomputed: dict, matrix: bool):
    """Return dict(shape='full'|'sparse'|'const', sanitized=bool, body=eterm-string)."""
    where = fn.name
    body = [s for s in fn.body if not (isinstance(s, ast.Expr) and isinstance(s.value, ast.Constant))]
    local = {}
    scattered = None
    for st in body[:-1]:
        if isinstance(st, ast.Assign) and len(st.targets) == 1:
            t = st.targets[0]
            if isinstance(t, ast.Name):
                v = st.value
                # result = np.zeros(n) / np.zeros((n, n))
                if isinstance(v, ast.Call) and isinstance(v.func, ast.Attribute) and v.func.attr == "zeros":
                    local[t.id] = "ZEROS"
                else:
                    local[t.id] = v
                continue
            if isinstance(t, ast.Subscript) and isinstance(t.value, ast.Name) and local.get(t.value.id) == "ZEROS":
                sl = t.slice
                ok_vec = isinstance(sl, ast.Name) and sl.id == "indices" and not matrix
                ok_mat = isinstance(sl, ast.Tuple) and len(sl.elts) == 2 and all(
                    isinstance(e, ast.Name) and e.id == "indices" for e in sl.elts) and matrix
                if not (ok_vec or ok_mat):
                    raise TranslationError(f"{where}: unsupported scatter target")
                v = st.value
                if isinstance(v, ast.Name) and v.id in local and local[v.id] != "ZEROS":
                    v = local[v.id]
                scattered = (t.value.id, v)
                continue
        raise TranslationError(f"{where}: unsupported statement {ast.dump(st)[:200]}")
    ret = body[-1]
    if not isinstance(ret, ast.Return) or ret.value is None:
        raise TranslationError(f"{where}: last statement is not a return")
    rv = ret.value
    if isinstance(rv, ast.Name) and rv.id in precomputed:
        return dict(shape="const", sanitized=False, body=precomputed[rv.id])
    isdiag = False
    san, inner = strip_sanitize(rv)
    if matrix:
        d, inner2 = strip_call(inner, "np", "diag")
        if d:
            isdiag = True
            if san:
                raise TranslationError(f"{where}: sanitize outside np.diag is not an expected shape")
            san, inner = strip_sanitize(inner2)
    if isinstance(inner, ast.Name) and scattered and inner.id == scattered[0]:
        if matrix and isdiag:
            raise TranslationError(f"{where}: np.diag of a scattered matrix")
        return dict(shape="sparse", sanitized=san, body=eterm(scattered[1], Ctx({**ctx.env}), where))
    if isinstance(inner, ast.Name) and inner.id in local and local[inner.id] != "ZEROS":
        inner = local[inner.id]
    if scattered:
        raise TranslationError(f"{where}: scatter result is not what is returned")
    if matrix and not isdiag:
        raise TranslationError(f"{where}: full Hessian path does not return np.diag(...)")
    return dict(shape="full", sanitized=san, body=eterm(inner, ctx, where))


def op_test(test):
    """op == "name"  ->  name"""
    if isinstance(test, ast.Compare) and isinstance(test.left, ast.Name) and test.left.id == "op" \
            and len(test.ops) == 1 and isinstance(test.ops[0], ast.Eq) \
            and isinstance(test.comparators[0], ast.Constant) and isinstance(test.comparators[0].value, str):
        return test.comparators[0].value
    return None


def k_test(test):
    if isinstance(test, ast.Compare) and isinstance(test.left, ast.Name) and test.left.id == "k" \
            and len(test.ops) == 1 and isinstance(test.ops[0], ast.Eq) \
            and isinstance(test.comparators[0], ast.Constant) and isinstance(test.comparators[0].value, int):
        return test.comparators[0].value
    return None


def full_test(test):
    """is_full   or   len(indices) == n and np.array_equal(indices, np.arange(n))"""
    if isinstance(test, ast.Name) and test.id == "is_full":
        return True
    if isinstance(test, ast.BoolOp) and isinstance(test.op, ast.And) and len(test.values) == 2:
        src = ast.unparse(test)
        return src == "len(indices) == n and np.array_equal(indices, np.arange(n))"
    return False


def defs_in(stmts):
    return [s for s in stmts if isinstance(s, ast.FunctionDef)]


def full_sparse(if_node, ctx, precomputed, matrix, where):
    """if is_full: def f.. return f  else: def g.. return g  ->  (full entry, sparse entry)"""
    if not (isinstance(if_node, ast.If) and full_test(if_node.test)):
        raise TranslationError(f"{where}: expected an is_full split")
    f = defs_in(if_node.body)
    g = defs_in(if_node.orelse)
    if len(f) != 1 or len(g) != 1:
        raise TranslationError(f"{where}: expected one closure per branch")
    ef = closure_body(f[0], ctx, precomputed, matrix)
    eg = closure_body(g[0], ctx, precomputed, matrix)
    if ef["shape"] not in ("full", "const") or eg["shape"] != "sparse":
        raise TranslationError(f"{where}: branch shapes are {ef['shape']}/{eg['shape']}")
    return (f[0].name, ef), (g[0].name, eg)


def entry(name, case, e):
    return (f"(mk_centry {coq_str(name)} {case} {'true' if e['shape'] == 'sparse' else 'false'} "
            f"{'true' if e['sanitized'] else 'false'} {e['body']})")


def chain(node):
    """Flatten if/elif/else into [(test or None, body)]"""
    out = []
    while True:
        out.append((node.test, node.body))
        if len(node.orelse) == 1 and isinstance(node.orelse[0], ast.If):
            node = node.orelse[0]
        else:
            out.append((None, node.orelse))
            return out


def unary_gradient_table(fn):
    entries = []
    top = [s for s in fn.body if isinstance(s, ast.If) and op_test(s.test)]
    if len(top) != 1:
        raise TranslationError("_compile_vectorized_unary_gradient: expected one op dispatch chain")
    ops = []
    for test, body in chain(top[0]):
        if test is None:
            # fallback: general symbolic path; must contain a call to gradient(...)
            src = "\n".join(ast.unparse(s) for s in body)
            if "gradient(expr, var)" not in src or "_sanitize_derivatives(raw)" not in src:
                raise TranslationError("_compile_vectorized_unary_gradient: unexpected fallback")
            continue
        op = op_test(test)
        if op is None or op not in NP_UN:
            raise TranslationError(f"_compile_vectorized_unary_gradient: bad test {ast.unparse(test)}")
        ifs = [s for s in body if isinstance(s, ast.If)]
        if len(ifs) != 1:
            raise TranslationError(f"unary gradient {op}: expected one is_full split")
        (fn_full, ef), (fn_sp, es) = full_sparse(ifs[0], Ctx({}), {}, False, f"unary gradient {op}")
        entries.append(entry(fn_full, f"(CaseOp {NP_UN[op]})", ef))
        entries.append(entry(fn_sp, f"(CaseOp {NP_UN[op]})", es))
        ops.append(op)
    return entries, ops


def power_gradient_table(fn):
    entries = []
    top = [s for s in fn.body if isinstance(s, ast.If) and full_test(s.test)]
    if len(top) != 1:
        raise TranslationError("_compile_vectorized_power_gradient: expected the full/sparse split")
    pre = {"ones": "(ELit (Qmake 1 1))"}
    src = ast.unparse(fn)
    if "ones = np.ones(n)" not in src:
        raise TranslationError("_compile_vectorized_power_gradient: 'ones = np.ones(n)' not found")
    inner = [s for s in top[0].body if isinstance(s, ast.If)]
    if len(inner) != 1:
        raise TranslationError("_compile_vectorized_power_gradient: expected the k dispatch")
    for test, body in chain(inner[0]):
        fs = defs_in(body)
        if len(fs) != 1:
            raise TranslationError("power gradient: expected one closure per k case")
        e = closure_body(fs[0], Ctx({}), pre, False)
        case = "CaseKOther" if test is None else f"(CaseK {k_test(test)})"
        if test is not None and k_test(test) is None:
            raise TranslationError("power gradient: bad k test")
        entries.append(entry(fs[0].name, case, e))
    fs = defs_in(top[0].orelse)
    if len(fs) != 1:
        raise TranslationError("power gradient: expected one sparse closure")
    e = closure_body(fs[0], Ctx({}), pre, False)
    if e["shape"] != "sparse":
        raise TranslationError("power gradient: sparse closure does not scatter")
    entries.append(entry(fs[0].name, "CaseKAny", e))
    return entries


def hessian_tables(fn):
    """compile_hessian: VectorPowerSum block and VectorUnarySum block."""
    pow_entries, un_entries = [], []
    blocks = [s for s in fn.body if isinstance(s, ast.If) and isinstance(s.test, ast.Call)
              and isinstance(s.test.func, ast.Name) and s.test.func.id == "isinstance"]
    if len(blocks) != 2:
        raise TranslationError("compile_hessian: expected two isinstance fast-path blocks")
    pblock, ublock = blocks
    if ast.unparse(pblock.test) != "isinstance(expr, VectorPowerSum)" or \
            ast.unparse(ublock.test) != "isinstance(expr, VectorUnarySum)":
        raise TranslationError("compile_hessian: fast-path blocks are not (VectorPowerSum, VectorUnarySum)")
    # ---- power block
    kchain = [s for s in pblock.body if isinstance(s, ast.If) and k_test(s.test) is not None]
    if len(kchain) != 1:
        raise TranslationError("compile_hessian: expected the k dispatch in the power block")
    for test, body in chain(kchain[0]):
        if test is not None and k_test(test) == 1:
            src = "\n".join(ast.unparse(s) for s in body)
            if "zeros = np.zeros((n, n))" not in src:
                raise TranslationError("hessian k==1: 'zeros = np.zeros((n, n))' not found")
            fs = defs_in(body)
            e = closure_body(fs[0], Ctx({}), {"zeros": "(ELit (Qmake 0 1))"}, True)
            e["shape"] = "full"
            pow_entries.append(entry(fs[0].name, "(CaseK 1)", dict(e, shape="full")))
            pow_entries.append(entry(fs[0].name, "(CaseK 1)", dict(e, shape="sparse")))
        elif test is not None and k_test(test) == 2:
            src = "\n".join(ast.unparse(s) for s in body)
            want = ("hess = np.diag(np.full(n, 2.0)) if is_full else np.zeros((n, n))\n"
                    "if not is_full:\n    for idx in indices:\n        hess[idx, idx] = 2.0")
            if want not in src:
                raise TranslationError("hessian k==2: precomputed diagonal has an unexpected shape")
            fs = defs_in(body)
            e = closure_body(fs[0], Ctx({}), {"hess": "(ELit (Qmake 2 1))"}, True)
            pow_entries.append(entry(fs[0].name, "(CaseK 2)", dict(e, shape="full")))
            pow_entries.append(entry(fs[0].name, "(CaseK 2)", dict(e, shape="sparse")))
        elif test is None:
            env = {}
            for st in body:
                if isinstance(st, ast.Assign) and len(st.targets) == 1 and isinstance(st.targets[0], ast.Name):
                    env[st.targets[0].id] = st.value
            ifs = [s for s in body if isinstance(s, ast.If)]
            if len(ifs) != 1:
                raise TranslationError("hessian general k: expected one is_full split")
            (nf, ef), (ns, es) = full_sparse(ifs[0], Ctx(env), {}, True, "hessian power general")
            pow_entries.append(entry(nf, "CaseKOther", ef))
            pow_entries.append(entry(ns, "CaseKOther", es))
        else:
            raise TranslationError("compile_hessian: unexpected k case")
    # ---- unary block
    top = [s for s in ublock.body if isinstance(s, ast.If) and op_test(s.test)]
    if len(top) != 1:
        raise TranslationError("compile_hessian: expected one op dispatch chain")
    ops = []
    for test, body in chain(top[0]):
        if test is None:
            if body:
                raise TranslationError("compile_hessian: unexpected else branch in the op chain")
            continue
        op = op_test(test)
        ifs = [s for s in body if isinstance(s, ast.If)]
        if op not in NP_UN or len(ifs) != 1:
            raise TranslationError(f"compile_hessian: bad op case {op}")
        (nf, ef), (ns, es) = full_sparse(ifs[0], Ctx({}), {}, True, f"hessian {op}")
        un_entries.append(entry(nf, f"(CaseOp {NP_UN[op]})", ef))
        un_entries.append(entry(ns, f"(CaseOp {NP_UN[op]})", es))
        ops.append(op)
    return pow_entries, un_entries, ops


def closure_tables(t_comp, t_auto) -> str:
    from translate import find_func
    ug, ug_ops = unary_gradient_table(find_func(t_comp, "_compile_vectorized_unary_gradient", "compiler.py"))
    pg = power_gradient_table(find_func(t_comp, "_compile_vectorized_power_gradient", "compiler.py"))
    ph, uh, uh_ops = hessian_tables(find_func(t_auto, "compile_hessian", "autodiff.py"))
    out = []
    out.append("Definition gen_unary_grad : list centry := " + coq_list(ug) + ".")
    out.append("Definition gen_power_grad : list centry := " + coq_list(pg) + ".")
    out.append("Definition gen_power_hess : list centry := " + coq_list(ph) + ".")
    out.append("Definition gen_unary_hess : list centry := " + coq_list(uh) + ".")
    return "\n".join(out) + "\n"
