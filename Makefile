# /verif top-level: `make setup` builds the Coq development from files on disk (offline).
.PHONY: setup clean
setup:
	mkdir -p .work evidence replays
	PYTHONPATH=/repo/src:/verif/tools PYTHONHASHSEED=0 /venv/bin/python tools/translate.py
	cd coq && coq_makefile -f _CoqProject -o Makefile
	cd coq && timeout 3000 $(MAKE) -j16
clean:
	cd coq && [ -f Makefile ] && $(MAKE) clean || true
	rm -rf .work
