(* Occ.v — syntactic occurrence of variables (names) in an expression. *)
From Coq Require Import String List.
From Optyx Require Import Syntax.
Import ListNotations.

(* variables syntactically occurring in an expression (names, with repeats) *)
Fixpoint vars (e : expr) {struct e} : list string :=
  match e with
  | Const _ | Param _ => []
  | Var x => [x]
  | Bin _ l r => vars l ++ vars r
  | Un _ a => vars a
  | VSum _ xs | VPowSum _ xs _ | VUnSum _ xs _ => xs
  | LinComb _ _ es | L2n _ es | L1n _ es | QForm _ es _ | VExprSum es | MSum _ es | Frob es =>
      flat_map vars es
  | Dot _ ls _ rs => flat_map vars ls ++ flat_map vars rs
  end.
