(* Harness.v — glue used only by the correspondence check (generated case files):
   literal helpers and "which cases fail" folds.  Nothing here is used by a theorem. *)
From Coq Require Import String List QArith ZArith Bool.
From Optyx Require Import Syntax.
Import ListNotations.
Close Scope Q_scope.

Definition QQ (n : Z) (d : positive) : Q := Qmake n d.
Arguments QQ n%Z d%positive.

Definition failing {A} (f : A -> bool) (l : list A) : list nat :=
  (fix go (l : list A) (i : nat) : list nat :=
     match l with
     | [] => []
     | a :: r => if f a then go r (S i) else i :: go r (S i)
     end) l 0%nat.

Definition opt_eqb {A} (eqb : A -> A -> bool) (a b : option A) : bool :=
  match a, b with
  | Some x, Some y => eqb x y
  | None, None => true
  | _, _ => false
  end.

Definition opt_expr_eqb (a : option expr) (b : expr) : bool :=
  match a with Some x => expr_eqb x b | None => false end.
