(* SemI.v — an executable interval evaluator for [expr], proved to enclose the
   real-number semantics [evalR] of SemR.v.

   The interval arithmetic is the Coq Interval library's, instantiated once
   here over arbitrary-precision radix-2 floats (module [I]); files that need
   it should [Require Import Optyx.SemI] and use [SemI.I] / [SemI.F] rather
   than re-instantiating the functors.

   Main statement: [evalI_correct].  Harness helpers: [point_interval],
   [env_of_points]/[renv_of_points], [widen], [in_interval], [is_bounded]. *)
From Coq Require Import Reals QArith Qreals String List Bool ZArith Lra Lia.
From Interval Require Import Xreal Interval Specific_bigint Specific_ops Float_full.
From Optyx Require Import Syntax SemR.
Import ListNotations.
Close Scope Q_scope.
Open Scope R_scope.

Module F := SpecificFloat BigIntRadix2.
Module I := FloatIntervalFull F.

(* precision literal: [prec_of 64] *)
Definition prec_of (p : positive) : I.precision := F.PtoP p.

(* ------------------------------------------------------------------ *)
(* enclosure of a real by an interval                                  *)
(* ------------------------------------------------------------------ *)
Definition encl (xi : I.type) (r : R) : Prop := contains (I.convert xi) (Xreal r).

Lemma contains_nan_any : forall (xi : I.type) (x : ExtendedR),
  contains (I.convert xi) Xnan -> contains (I.convert xi) x.
Proof.
  intros xi x H. apply contains_Xnan in H. rewrite H. exact Logic.I.
Qed.

(* the "small lemma" of the brief *)
Lemma contains_below : forall (yi : I.type) (y : ExtendedR) (r : R),
  contains (I.convert yi) y -> (y = Xnan \/ y = Xreal r) ->
  contains (I.convert yi) (Xreal r).
Proof.
  intros yi y r H [-> | ->]; [now apply contains_nan_any | exact H].
Qed.

Lemma encl_nai : forall r, encl I.nai r.
Proof. intros r. unfold encl. rewrite I.nai_correct. exact Logic.I. Qed.

Lemma encl_zero : encl I.zero 0.
Proof. unfold encl. rewrite I.zero_correct. simpl. lra. Qed.

Section Ops.
Variable prec : I.precision.

(* ---------- primitive operations ---------- *)
Lemma encl_fromZ : forall z, encl (I.fromZ prec z) (IZR z).
Proof. intros z. apply I.fromZ_correct. Qed.

Lemma encl_pi : encl (I.pi prec) PI.
Proof. apply I.pi_correct. Qed.

Lemma encl_add : forall xi yi a b, encl xi a -> encl yi b -> encl (I.add prec xi yi) (a + b).
Proof. intros xi yi a b Ha Hb. exact (I.add_correct prec xi yi _ _ Ha Hb). Qed.

Lemma encl_sub : forall xi yi a b, encl xi a -> encl yi b -> encl (I.sub prec xi yi) (a - b).
Proof. intros xi yi a b Ha Hb. exact (I.sub_correct prec xi yi _ _ Ha Hb). Qed.

Lemma encl_mul : forall xi yi a b, encl xi a -> encl yi b -> encl (I.mul prec xi yi) (a * b).
Proof. intros xi yi a b Ha Hb. exact (I.mul_correct prec xi yi _ _ Ha Hb). Qed.

Lemma encl_div : forall xi yi a b, encl xi a -> encl yi b -> encl (I.div prec xi yi) (a / b).
Proof.
  intros xi yi a b Ha Hb. unfold encl.
  generalize (I.div_correct prec xi yi _ _ Ha Hb). simpl. unfold Xdiv'.
  destruct (Xreal.is_zero b); [apply contains_nan_any | exact (fun H => H)].
Qed.

Lemma encl_inv : forall xi a, encl xi a -> encl (I.inv prec xi) (/ a).
Proof.
  intros xi a Ha. unfold encl.
  generalize (I.inv_correct prec xi _ Ha). simpl. unfold Xinv'.
  destruct (Xreal.is_zero a); [apply contains_nan_any | exact (fun H => H)].
Qed.

Lemma encl_neg : forall xi a, encl xi a -> encl (I.neg xi) (- a).
Proof. intros xi a Ha. exact (I.neg_correct xi _ Ha). Qed.

Lemma encl_abs : forall xi a, encl xi a -> encl (I.abs xi) (Rabs a).
Proof. intros xi a Ha. exact (I.abs_correct xi _ Ha). Qed.

Lemma encl_sqr : forall xi a, encl xi a -> encl (I.sqr prec xi) (Rsqr a).
Proof. intros xi a Ha. exact (I.sqr_correct prec xi _ Ha). Qed.

Lemma encl_sqrt : forall xi a, encl xi a -> encl (I.sqrt prec xi) (sqrt a).
Proof. intros xi a Ha. exact (I.sqrt_correct prec xi _ Ha). Qed.

Lemma encl_sin : forall xi a, encl xi a -> encl (I.sin prec xi) (sin a).
Proof. intros xi a Ha. exact (I.sin_correct prec xi _ Ha). Qed.

Lemma encl_cos : forall xi a, encl xi a -> encl (I.cos prec xi) (cos a).
Proof. intros xi a Ha. exact (I.cos_correct prec xi _ Ha). Qed.

Lemma encl_atan : forall xi a, encl xi a -> encl (I.atan prec xi) (atan a).
Proof. intros xi a Ha. exact (I.atan_correct prec xi _ Ha). Qed.

Lemma encl_exp : forall xi a, encl xi a -> encl (I.exp prec xi) (exp a).
Proof. intros xi a Ha. exact (I.exp_correct prec xi _ Ha). Qed.

Lemma encl_tan : forall xi a, encl xi a -> encl (I.tan prec xi) (tan a).
Proof.
  intros xi a Ha. unfold encl.
  generalize (I.tan_correct prec xi _ Ha). simpl. unfold Xtan'.
  destruct (Xreal.is_zero (cos a)); [apply contains_nan_any | exact (fun H => H)].
Qed.

Lemma encl_ln : forall xi a, encl xi a -> encl (I.ln prec xi) (ln a).
Proof.
  intros xi a Ha. unfold encl.
  generalize (I.ln_correct prec xi _ Ha). simpl. unfold Xln'.
  destruct (is_positive a); [exact (fun H => H) | apply contains_nan_any].
Qed.

Lemma encl_power_int : forall xi a n, encl xi a -> encl (I.power_int prec xi n) (powerRZ a n).
Proof.
  intros xi a n Ha. unfold encl.
  generalize (I.power_int_correct prec n xi _ Ha). simpl.
  unfold Xpower_int', powerRZ. destruct n; try exact (fun H => H).
  destruct (Xreal.is_zero a); [apply contains_nan_any | exact (fun H => H)].
Qed.

(* ---------- constants ---------- *)
Definition constI (q : Q) : I.type :=
  if Pos.eqb (Qden q) 1 then I.fromZ prec (Qnum q)
  else I.div prec (I.fromZ prec (Qnum q)) (I.fromZ prec (Zpos (Qden q))).

Lemma constI_correct : forall q, encl (constI q) (Q2R q).
Proof.
  intros q. unfold constI, Q2R.
  destruct (Pos.eqb_spec (Qden q) 1) as [E | _].
  - rewrite E. replace (IZR (Qnum q) * / IZR 1) with (IZR (Qnum q)) by (simpl; field).
    apply encl_fromZ.
  - apply encl_div; apply encl_fromZ.
Qed.

Definition oneI : I.type := I.fromZ prec 1.
Definition twoI : I.type := I.fromZ prec 2.
Definition tenI : I.type := I.fromZ prec 10.
Definition halfpiI : I.type := I.div prec (I.pi prec) twoI.

Lemma encl_one : encl oneI 1. Proof. apply (encl_fromZ 1). Qed.
Lemma encl_two : encl twoI 2. Proof. apply (encl_fromZ 2). Qed.
Lemma encl_ten : encl tenI 10. Proof. apply (encl_fromZ 10). Qed.
Lemma encl_halfpi : encl halfpiI (PI / 2).
Proof. apply encl_div; [apply encl_pi | apply encl_two]. Qed.

(* ---------- derived unary operations ---------- *)
Definition sinhI (xi : I.type) : I.type :=
  I.div prec (I.sub prec (I.exp prec xi) (I.exp prec (I.neg xi))) twoI.
Definition coshI (xi : I.type) : I.type :=
  I.div prec (I.add prec (I.exp prec xi) (I.exp prec (I.neg xi))) twoI.
Definition tanhI (xi : I.type) : I.type :=
  let ep := I.exp prec xi in
  let em := I.exp prec (I.neg xi) in
  I.div prec (I.div prec (I.sub prec ep em) twoI) (I.div prec (I.add prec ep em) twoI).

Lemma sinhI_correct : forall xi a, encl xi a -> encl (sinhI xi) (sinh a).
Proof.
  intros xi a Ha. unfold sinhI, sinh.
  apply encl_div; [apply encl_sub | apply encl_two];
    apply encl_exp; [| apply encl_neg]; exact Ha.
Qed.

Lemma coshI_correct : forall xi a, encl xi a -> encl (coshI xi) (cosh a).
Proof.
  intros xi a Ha. unfold coshI, cosh.
  apply encl_div; [apply encl_add | apply encl_two];
    apply encl_exp; [| apply encl_neg]; exact Ha.
Qed.

Lemma tanhI_correct : forall xi a, encl xi a -> encl (tanhI xi) (tanh a).
Proof.
  intros xi a Ha. unfold tanhI, tanh. cbv zeta.
  apply encl_div; [apply (sinhI_correct _ _ Ha) | apply (coshI_correct _ _ Ha)].
Qed.

(* asin: atan (a / sqrt (1 - a²)) strictly inside (-1,1); ±PI/2 when the whole
   interval is >= 1 or <= -1; otherwise (interval straddling ±1) no information *)
Definition asinI (xi : I.type) : I.type :=
  let d := I.sub prec oneI (I.sqr prec xi) in
  match I.sign_strict d with
  | Xgt => I.atan prec (I.div prec xi (I.sqrt prec d))
  | _ =>
      match I.sign_large (I.sub prec xi oneI) with
      | Xgt | Xeq => halfpiI
      | _ =>
          match I.sign_large (I.add prec xi oneI) with
          | Xlt | Xeq => I.neg halfpiI
          | _ => I.nai
          end
      end
  end.

Lemma asin_ge_1 : forall a, 1 <= a -> asin a = PI / 2.
Proof.
  intros a H. unfold asin.
  destruct (Rle_dec a (-1)); [lra |].
  destruct (Rle_dec 1 a); [reflexivity | lra].
Qed.

Lemma asin_le_m1 : forall a, a <= -1 -> asin a = - (PI / 2).
Proof.
  intros a H. unfold asin.
  destruct (Rle_dec a (-1)); [reflexivity | lra].
Qed.

Lemma sign_large_ge : forall xi v,
  I.sign_large xi = Xgt \/ I.sign_large xi = Xeq -> encl xi v -> 0 <= v.
Proof.
  intros xi v H Hv. generalize (I.sign_large_correct xi).
  destruct H as [-> | ->]; intros H.
  - destruct (H _ Hv) as [_ H']. exact H'.
  - specialize (H _ Hv). injection H as H. lra.
Qed.

Lemma sign_large_le : forall xi v,
  I.sign_large xi = Xlt \/ I.sign_large xi = Xeq -> encl xi v -> v <= 0.
Proof.
  intros xi v H Hv. generalize (I.sign_large_correct xi).
  destruct H as [-> | ->]; intros H.
  - destruct (H _ Hv) as [_ H']. exact H'.
  - specialize (H _ Hv). injection H as H. lra.
Qed.

Lemma asinI_fallback : forall xi a, encl xi a ->
  encl (match I.sign_large (I.sub prec xi oneI) with
        | Xgt | Xeq => halfpiI
        | _ =>
          match I.sign_large (I.add prec xi oneI) with
          | Xlt | Xeq => I.neg halfpiI
          | _ => I.nai
          end
        end) (asin a).
Proof.
  intros xi a Ha.
  assert (Hs := encl_sub _ _ _ _ Ha encl_one).
  assert (Hp := encl_add _ _ _ _ Ha encl_one).
  assert (Hhi : I.sign_large (I.sub prec xi oneI) = Xgt \/ I.sign_large (I.sub prec xi oneI) = Xeq ->
                encl halfpiI (asin a)).
  { intros H. rewrite asin_ge_1; [apply encl_halfpi |].
    generalize (sign_large_ge _ _ H Hs). lra. }
  assert (Hlo : I.sign_large (I.add prec xi oneI) = Xlt \/ I.sign_large (I.add prec xi oneI) = Xeq ->
                encl (I.neg halfpiI) (asin a)).
  { intros H. rewrite asin_le_m1; [apply encl_neg, encl_halfpi |].
    generalize (sign_large_le _ _ H Hp). lra. }
  destruct (I.sign_large (I.sub prec xi oneI)) eqn:E1;
    try (apply Hhi; auto; fail);
    destruct (I.sign_large (I.add prec xi oneI)) eqn:E2;
    try apply encl_nai; apply Hlo; auto.
Qed.

Lemma asinI_correct : forall xi a, encl xi a -> encl (asinI xi) (asin a).
Proof.
  intros xi a Ha. unfold asinI. cbv zeta.
  assert (Hd : encl (I.sub prec oneI (I.sqr prec xi)) (1 - Rsqr a))
    by (apply encl_sub; [apply encl_one | apply encl_sqr, Ha]).
  generalize (I.sign_strict_correct (I.sub prec oneI (I.sqr prec xi))).
  destruct (I.sign_strict (I.sub prec oneI (I.sqr prec xi))); intros H;
    try (apply asinI_fallback; exact Ha).
  destruct (H _ Hd) as [_ Hpos]. simpl in Hpos.
  assert (Hin : -1 < a < 1).
  { unfold Rsqr in Hpos. split; nra. }
  rewrite (asin_atan a Hin).
  apply encl_atan, encl_div; [exact Ha | apply encl_sqrt, Hd].
Qed.

(* Outside [-1, 1] Coq's total asin is clamped to +-PI/2, but the point is outside the DOMAIN of the Python function
   (NumPy returns nan): there the enclosure carries no information, so that the harness classifies the observation as
   "singular / outside the domain" instead of comparing it with the clamped value.  (I.nai encloses everything: soundness
   of the evaluator is unaffected.) *)
Definition asinI_dom (xi : I.type) : I.type :=
  match I.sign_strict (I.sub prec xi oneI) with
  | Xgt => I.nai
  | _ => match I.sign_strict (I.add prec xi oneI) with
         | Xlt => I.nai
         | _ => asinI xi
         end
  end.

Lemma asinI_dom_correct : forall xi a, encl xi a -> encl (asinI_dom xi) (asin a).
Proof.
  intros xi a Ha. unfold asinI_dom.
  destruct (I.sign_strict (I.sub prec xi oneI)); try apply encl_nai;
    (destruct (I.sign_strict (I.add prec xi oneI)); try apply encl_nai; apply asinI_correct, Ha).
Qed.

Definition acosI (xi : I.type) : I.type := I.sub prec halfpiI (asinI_dom xi).

Lemma acos_asin_total : forall a, acos a = PI / 2 - asin a.
Proof.
  intros a. unfold acos, asin.
  destruct (Rle_dec a (-1)); [lra |].
  destruct (Rle_dec 1 a); lra.
Qed.

Lemma acosI_correct : forall xi a, encl xi a -> encl (acosI xi) (acos a).
Proof.
  intros xi a Ha. rewrite acos_asin_total. unfold acosI.
  apply encl_sub; [apply encl_halfpi | apply asinI_dom_correct, Ha].
Qed.

Definition asinhI (xi : I.type) : I.type :=
  I.ln prec (I.add prec xi (I.sqrt prec (I.add prec (I.sqr prec xi) oneI))).

Lemma asinhI_correct : forall xi a, encl xi a -> encl (asinhI xi) (arcsinh a).
Proof.
  intros xi a Ha. unfold asinhI, arcsinh. rewrite <- Rsqr_pow2.
  apply encl_ln, encl_add; [exact Ha |].
  apply encl_sqrt, encl_add; [apply encl_sqr, Ha | apply encl_one].
Qed.

Definition acoshI (xi : I.type) : I.type :=
  I.ln prec (I.add prec xi (I.sqrt prec (I.sub prec (I.sqr prec xi) oneI))).

Lemma acoshI_correct : forall xi a, encl xi a ->
  encl (acoshI xi) (ln (a + sqrt (a * a - 1))).
Proof.
  intros xi a Ha. unfold acoshI. change (a * a) with (Rsqr a).
  apply encl_ln, encl_add; [exact Ha |].
  apply encl_sqrt, encl_sub; [apply encl_sqr, Ha | apply encl_one].
Qed.

Definition atanhI (xi : I.type) : I.type :=
  I.mul prec (I.inv prec twoI)
    (I.ln prec (I.div prec (I.add prec oneI xi) (I.sub prec oneI xi))).

Lemma atanhI_correct : forall xi a, encl xi a ->
  encl (atanhI xi) (/ 2 * ln ((1 + a) / (1 - a))).
Proof.
  intros xi a Ha. unfold atanhI.
  apply encl_mul; [apply encl_inv, encl_two |].
  apply encl_ln, encl_div; [apply encl_add | apply encl_sub];
    first [apply encl_one | exact Ha].
Qed.

(* ---------- uop / bop / powQ ---------- *)
Definition uopI (o : uop) (xi : I.type) : I.type :=
  match o with
  | Neg => I.neg xi
  | Abs => I.abs xi
  | Sin => I.sin prec xi
  | Cos => I.cos prec xi
  | Tan => I.tan prec xi
  | Exp => I.exp prec xi
  | Log => I.ln prec xi
  | Log2 => I.div prec (I.ln prec xi) (I.ln prec twoI)
  | Log10 => I.div prec (I.ln prec xi) (I.ln prec tenI)
  | Sqrt => I.sqrt prec xi
  | Tanh => tanhI xi
  | Sinh => sinhI xi
  | Cosh => coshI xi
  | Asin => asinI_dom xi
  | Acos => acosI xi
  | Atan => I.atan prec xi
  | Asinh => asinhI xi
  | Acosh => acoshI xi
  | Atanh => atanhI xi
  end.

Lemma uopI_correct : forall o xi a, encl xi a -> encl (uopI o xi) (uopR o a).
Proof.
  intros o xi a Ha. destruct o; cbv beta iota delta [uopI uopR].
  - apply encl_neg, Ha.
  - apply encl_abs, Ha.
  - apply encl_sin, Ha.
  - apply encl_cos, Ha.
  - apply encl_tan, Ha.
  - apply encl_exp, Ha.
  - apply encl_ln, Ha.
  - apply encl_div; apply encl_ln; [exact Ha | apply encl_two].
  - apply encl_div; apply encl_ln; [exact Ha | apply encl_ten].
  - apply encl_sqrt, Ha.
  - apply tanhI_correct, Ha.
  - apply sinhI_correct, Ha.
  - apply coshI_correct, Ha.
  - apply asinI_dom_correct, Ha.
  - apply acosI_correct, Ha.
  - apply encl_atan, Ha.
  - apply asinhI_correct, Ha.
  - apply acoshI_correct, Ha.
  - apply atanhI_correct, Ha.
Qed.

Definition powQI (xi : I.type) (q : Q) : I.type :=
  if Qis_int q then I.power_int prec xi (Qfloor' q)
  else I.exp prec (I.mul prec (constI q) (I.ln prec xi)).

Lemma powQI_correct : forall xi a q, encl xi a -> encl (powQI xi q) (powQ a q).
Proof.
  intros xi a q Ha. unfold powQI, powQ. destruct (Qis_int q).
  - apply encl_power_int, Ha.
  - unfold Rpower. apply encl_exp, encl_mul; [apply constI_correct | apply encl_ln, Ha].
Qed.

Definition bopI (o : bop) (xi yi : I.type) : I.type :=
  match o with
  | Add => I.add prec xi yi
  | Sub => I.sub prec xi yi
  | Mul => I.mul prec xi yi
  | Div => I.div prec xi yi
  | Pow => I.exp prec (I.mul prec yi (I.ln prec xi))
  end.

Lemma bopI_correct : forall o xi yi a b,
  encl xi a -> encl yi b -> encl (bopI o xi yi) (bopR o a b).
Proof.
  intros o xi yi a b Ha Hb. destruct o; cbv beta iota delta [bopI bopR].
  - apply encl_add; assumption.
  - apply encl_sub; assumption.
  - apply encl_mul; assumption.
  - apply encl_div; assumption.
  - unfold Rpower. apply encl_exp, encl_mul; [exact Hb | apply encl_ln, Ha].
Qed.

(* ---------- sums and dot products ---------- *)
Definition sumI (l : list I.type) : I.type := fold_right (I.add prec) I.zero l.

Fixpoint dotI (a b : list I.type) : I.type :=
  match a, b with
  | x :: a', y :: b' => I.add prec (I.mul prec x y) (dotI a' b')
  | _, _ => I.zero
  end.

Definition matvec_rowI (row : list Q) (xs : list I.type) : I.type :=
  dotI (map constI row) xs.

Lemma sumI_correct : forall li lr, Forall2 encl li lr -> encl (sumI li) (sumR lr).
Proof.
  induction 1; simpl.
  - apply encl_zero.
  - apply encl_add; assumption.
Qed.

Lemma dotI_correct : forall a a', Forall2 encl a a' ->
  forall b b', Forall2 encl b b' -> encl (dotI a b) (dotR a' b').
Proof.
  induction 1 as [| x x' a a' Hx Ha IH]; intros b b' Hb; simpl.
  - apply encl_zero.
  - destruct Hb as [| y y' b b' Hy Hb]; [apply encl_zero |].
    apply encl_add; [apply encl_mul; assumption | apply IH, Hb].
Qed.

Lemma Forall2_encl_map : forall (A : Type) (f : A -> I.type) (g : A -> R) (l : list A),
  (forall x, In x l -> encl (f x) (g x)) -> Forall2 encl (map f l) (map g l).
Proof.
  intros A f g l. induction l as [| x l IH]; intros H; simpl; constructor.
  - apply H. now left.
  - apply IH. intros y Hy. apply H. now right.
Qed.

Lemma Forall2_encl_map_all : forall (A : Type) (f : A -> I.type) (g : A -> R) (l : list A),
  (forall x, encl (f x) (g x)) -> Forall2 encl (map f l) (map g l).
Proof. intros. apply Forall2_encl_map. auto. Qed.

Lemma matvec_rowI_correct : forall row xs xs', Forall2 encl xs xs' ->
  encl (matvec_rowI row xs) (matvec_row row xs').
Proof.
  intros row xs xs' H. unfold matvec_rowI, matvec_row.
  apply dotI_correct; [| exact H].
  apply Forall2_encl_map_all. apply constI_correct.
Qed.

(* ---------- the evaluator ---------- *)
Fixpoint evalI (envI penvI : string -> I.type) (e : expr) {struct e} : I.type :=
  match e with
  | Const q => constI q
  | Var x => envI x
  | Param p => penvI p
  | Bin Pow l (Const q) => powQI (evalI envI penvI l) q
  | Bin o l r => bopI o (evalI envI penvI l) (evalI envI penvI r)
  | Un o a => uopI o (evalI envI penvI a)
  | VSum _ xs => sumI (map envI xs)
  | LinComb cs _ es => dotI (map constI cs) (map (evalI envI penvI) es)
  | Dot _ ls _ rs => dotI (map (evalI envI penvI) ls) (map (evalI envI penvI) rs)
  | L2n _ es => I.sqrt prec (sumI (map (fun e => I.sqr prec (evalI envI penvI e)) es))
  | L1n _ es => sumI (map (fun e => I.abs (evalI envI penvI e)) es)
  | QForm _ es m =>
      let xs := map (evalI envI penvI) es in
      dotI xs (map (fun row => matvec_rowI row xs) m)
  | VPowSum _ xs p => sumI (map (fun x => powQI (envI x) p) xs)
  | VUnSum _ xs o => sumI (map (fun x => uopI o (envI x)) xs)
  | VExprSum es => sumI (map (evalI envI penvI) es)
  | MSum _ es => sumI (map (evalI envI penvI) es)
  | Frob es => I.sqrt prec (sumI (map (fun e => I.sqr prec (evalI envI penvI e)) es))
  end.

End Ops.

(* ------------------------------------------------------------------ *)
(* strong induction principle for the nested inductive [expr]          *)
(* ------------------------------------------------------------------ *)
Section ExprStrongInd.
  Variable P : expr -> Prop.
  Hypothesis H_Const : forall q, P (Const q).
  Hypothesis H_Var : forall x, P (Var x).
  Hypothesis H_Param : forall p, P (Param p).
  Hypothesis H_Bin : forall o l r, P l -> P r -> P (Bin o l r).
  Hypothesis H_Un : forall o a, P a -> P (Un o a).
  Hypothesis H_VSum : forall v xs, P (VSum v xs).
  Hypothesis H_LinComb : forall cs k es, Forall P es -> P (LinComb cs k es).
  Hypothesis H_Dot : forall kl ls kr rs, Forall P ls -> Forall P rs -> P (Dot kl ls kr rs).
  Hypothesis H_L2n : forall k es, Forall P es -> P (L2n k es).
  Hypothesis H_L1n : forall k es, Forall P es -> P (L1n k es).
  Hypothesis H_QForm : forall k es m, Forall P es -> P (QForm k es m).
  Hypothesis H_VPowSum : forall v xs p, P (VPowSum v xs p).
  Hypothesis H_VUnSum : forall v xs o, P (VUnSum v xs o).
  Hypothesis H_VExprSum : forall es, Forall P es -> P (VExprSum es).
  Hypothesis H_MSum : forall b es, Forall P es -> P (MSum b es).
  Hypothesis H_Frob : forall es, Forall P es -> P (Frob es).

  Fixpoint expr_strong_ind (e : expr) : P e :=
    let fix go (l : list expr) : Forall P l :=
      match l with
      | [] => Forall_nil P
      | x :: l' => Forall_cons x (expr_strong_ind x) (go l')
      end in
    match e with
    | Const q => H_Const q
    | Var x => H_Var x
    | Param p => H_Param p
    | Bin o l r => H_Bin o l r (expr_strong_ind l) (expr_strong_ind r)
    | Un o a => H_Un o a (expr_strong_ind a)
    | VSum v xs => H_VSum v xs
    | LinComb cs k es => H_LinComb cs k es (go es)
    | Dot kl ls kr rs => H_Dot kl ls kr rs (go ls) (go rs)
    | L2n k es => H_L2n k es (go es)
    | L1n k es => H_L1n k es (go es)
    | QForm k es m => H_QForm k es m (go es)
    | VPowSum v xs p => H_VPowSum v xs p
    | VUnSum v xs o => H_VUnSum v xs o
    | VExprSum es => H_VExprSum es (go es)
    | MSum b es => H_MSum b es (go es)
    | Frob es => H_Frob es (go es)
    end.
End ExprStrongInd.

(* ------------------------------------------------------------------ *)
(* the enclosure theorem                                               *)
(* ------------------------------------------------------------------ *)
Lemma Forall_encl_map : forall (f : expr -> I.type) (g : expr -> R) (es : list expr),
  Forall (fun e => encl (f e) (g e)) es -> Forall2 encl (map f es) (map g es).
Proof.
  intros f g es H. apply Forall2_encl_map.
  intros x Hx. rewrite Forall_forall in H. apply H, Hx.
Qed.

Theorem evalI_correct : forall prec envI penvI rho penv e,
  (forall x, contains (I.convert (envI x)) (Xreal (rho x))) ->
  (forall x, contains (I.convert (penvI x)) (Xreal (penv x))) ->
  contains (I.convert (evalI prec envI penvI e)) (Xreal (evalR rho penv e)).
Proof.
  intros prec envI penvI rho penv e Henv Hpenv.
  change (encl (evalI prec envI penvI e) (evalR rho penv e)).
  induction e using expr_strong_ind.
  - apply constI_correct.
  - apply Henv.
  - apply Hpenv.
  - destruct o; try (apply bopI_correct; assumption).
    destruct e2; try (apply (bopI_correct prec Pow); assumption).
    simpl. apply powQI_correct. assumption.
  - simpl. apply uopI_correct. assumption.
  - simpl. apply sumI_correct. apply Forall2_encl_map_all. exact Henv.
  - simpl. apply dotI_correct.
    + apply Forall2_encl_map_all. apply constI_correct.
    + apply Forall_encl_map. assumption.
  - simpl. apply dotI_correct; apply Forall_encl_map; assumption.
  - simpl. apply encl_sqrt, sumI_correct.
    apply Forall_encl_map. eapply Forall_impl; [| eassumption].
    intros a Ha. apply encl_sqr, Ha.
  - simpl. apply sumI_correct.
    apply Forall_encl_map. eapply Forall_impl; [| eassumption].
    intros a Ha. apply encl_abs, Ha.
  - simpl.
    assert (Hxs : Forall2 encl (map (evalI prec envI penvI) es) (map (evalR rho penv) es))
      by (apply Forall_encl_map; assumption).
    apply dotI_correct; [exact Hxs |].
    apply Forall2_encl_map_all. intros row. apply matvec_rowI_correct, Hxs.
  - simpl. apply sumI_correct. apply Forall2_encl_map_all.
    intros x. apply powQI_correct, Henv.
  - simpl. apply sumI_correct. apply Forall2_encl_map_all.
    intros x. apply uopI_correct, Henv.
  - simpl. apply sumI_correct. apply Forall_encl_map. assumption.
  - simpl. apply sumI_correct. apply Forall_encl_map. assumption.
  - simpl. apply encl_sqrt, sumI_correct.
    apply Forall_encl_map. eapply Forall_impl; [| eassumption].
    intros a Ha. apply encl_sqr, Ha.
Qed.

(* ------------------------------------------------------------------ *)
(* harness helpers                                                     *)
(* ------------------------------------------------------------------ *)
Definition point_interval (prec : I.precision) (q : Q) : I.type := constI prec q.

Lemma point_interval_correct : forall prec q,
  contains (I.convert (point_interval prec q)) (Xreal (Q2R q)).
Proof. intros. apply constI_correct. Qed.

Fixpoint lookupQ (pts : list (string * Q)) (x : string) : option Q :=
  match pts with
  | [] => None
  | (y, q) :: pts' => if String.eqb x y then Some q else lookupQ pts' x
  end.

Definition env_of_points (prec : I.precision) (pts : list (string * Q)) : string -> I.type :=
  fun x => match lookupQ pts x with
           | Some q => point_interval prec q
           | None => I.zero
           end.

Definition renv_of_points (pts : list (string * Q)) : string -> R :=
  fun x => match lookupQ pts x with
           | Some q => Q2R q
           | None => 0
           end.

Lemma env_of_points_correct : forall prec pts x,
  contains (I.convert (env_of_points prec pts x)) (Xreal (renv_of_points pts x)).
Proof.
  intros prec pts x. unfold env_of_points, renv_of_points.
  destruct (lookupQ pts x); [apply point_interval_correct | apply encl_zero].
Qed.

(* corollary: evaluating at a rational point *)
Corollary evalI_at_points : forall prec vpts ppts e,
  contains (I.convert (evalI prec (env_of_points prec vpts) (env_of_points prec ppts) e))
           (Xreal (evalR (renv_of_points vpts) (renv_of_points ppts) e)).
Proof.
  intros. apply evalI_correct; intros x; apply env_of_points_correct.
Qed.

Definition is_bounded (xi : I.type) : bool := I.bounded xi.

(* 2^e as an interval *)
Definition pow2I (prec : I.precision) (e : Z) : I.type :=
  I.power_int prec (I.fromZ prec 2) e.

(* [lo,hi] |-> [lo - d, hi + d] with d >= (|lo|+|hi|)*2^relexp + 2^absexp *)
Definition widen (prec : I.precision) (xi : I.type) (relexp absexp : Z) : I.type :=
  let lo := I.lower xi in
  let hi := I.upper xi in
  let mag := I.add prec (I.abs (I.bnd lo lo)) (I.abs (I.bnd hi hi)) in
  let d := I.add prec (I.mul prec mag (pow2I prec relexp)) (pow2I prec absexp) in
  let pm := I.join I.zero (I.mul prec (I.bnd (F.fromZ (-1)) (F.fromZ 1)) d) in
  I.add prec xi pm.

Lemma widen_correct : forall prec xi r a x,
  contains (I.convert xi) x -> contains (I.convert (widen prec xi r a)) x.
Proof.
  intros prec xi r a x Hx. unfold widen. cbv zeta.
  set (pm := I.join I.zero _).
  assert (H0 : contains (I.convert pm) (Xreal 0)).
  { apply I.join_correct. left. apply encl_zero. }
  generalize (I.add_correct prec xi pm _ _ Hx H0).
  destruct x as [| x]; simpl; [exact (fun H => H) |].
  now rewrite Rplus_0_r.
Qed.

(* sound membership test; [false] on Inan / unbounded intervals *)
Definition in_interval_p (prec : I.precision) (xi : I.type) (q : Q) : bool :=
  I.bounded xi && I.subset (point_interval prec q) xi.

Definition in_interval (xi : I.type) (q : Q) : bool := in_interval_p (prec_of 128) xi q.

Lemma in_interval_p_sound : forall prec xi q, in_interval_p prec xi q = true ->
  is_bounded xi = true /\ contains (I.convert xi) (Xreal (Q2R q)).
Proof.
  intros prec xi q H. unfold in_interval_p in H.
  apply andb_true_iff in H. destruct H as [Hb Hs]. split; [exact Hb |].
  exact (I.subset_correct _ _ _ (point_interval_correct prec q) Hs).
Qed.

Lemma bounded_bounds : forall xi, is_bounded xi = true ->
  not_empty (I.convert xi) ->
  exists lo hi : R,
    I.convert xi = Interval.Ibnd (Xreal lo) (Xreal hi) /\
    F.toX (I.lower xi) = Xreal lo /\ F.toX (I.upper xi) = Xreal hi.
Proof.
  intros xi Hb Hne. unfold is_bounded in Hb.
  destruct (I.bounded_correct xi Hb) as [Hl Hu].
  destruct (I.lower_bounded_correct xi Hl) as [El Hp].
  destruct (I.upper_bounded_correct xi Hu) as [Eu _].
  exists (proj_val (F.toX (I.lower xi))), (proj_val (F.toX (I.upper xi))).
  split; [| split; assumption].
  rewrite (Hp Hne). now rewrite <- El, <- Eu.
Qed.

Theorem in_interval_sound : forall xi q, in_interval xi q = true ->
  exists lo hi : R,
    (forall x, contains (I.convert xi) (Xreal x) -> lo <= x <= hi) /\
    (forall x, lo <= x <= hi -> contains (I.convert xi) (Xreal x)) /\
    lo <= Q2R q <= hi.
Proof.
  intros xi q H. apply in_interval_p_sound in H. destruct H as [Hb Hc].
  destruct (bounded_bounds xi Hb) as (lo & hi & E & _ & _).
  { exists (Q2R q). exact Hc. }
  exists lo, hi. rewrite E in *. simpl in *. repeat split; intros; tauto.
Qed.

(* the end-to-end statement used by the harness: if the implementation's output
   [q] passes the test against the widened enclosure of the model's value, then
   [q] and the real-number semantics lie in one common bounded interval
   [lo,hi], namely the widened enclosure. *)
Theorem check_sound : forall prec vpts ppts e r a q,
  in_interval (widen prec (evalI prec (env_of_points prec vpts) (env_of_points prec ppts) e) r a) q = true ->
  exists lo hi : R,
    lo <= evalR (renv_of_points vpts) (renv_of_points ppts) e <= hi /\
    lo <= Q2R q <= hi /\
    I.convert (widen prec (evalI prec (env_of_points prec vpts) (env_of_points prec ppts) e) r a)
      = Interval.Ibnd (Xreal lo) (Xreal hi).
Proof.
  intros prec vpts ppts e r a q H.
  set (wi := widen _ _ _ _) in *.
  assert (Hv : contains (I.convert wi) (Xreal (evalR (renv_of_points vpts) (renv_of_points ppts) e)))
    by apply widen_correct, evalI_at_points.
  apply in_interval_p_sound in H. destruct H as [Hb Hc].
  destruct (bounded_bounds wi Hb) as (lo & hi & E & _ & _).
  { eexists. exact Hv. }
  exists lo, hi. rewrite E in *. simpl in *. tauto.
Qed.

(* ------------------------------------------------------------------ *)
(* sanity examples                                                     *)
(* ------------------------------------------------------------------ *)
Definition noenv : string -> I.type := fun _ => I.zero.

(* width of a bounded interval is below 2^e *)
Definition width_lt (prec : I.precision) (xi : I.type) (e : Z) : bool :=
  is_bounded xi &&
  match I.sign_strict (I.sub prec (pow2I prec e)
          (I.sub prec (I.bnd (I.upper xi) (I.upper xi)) (I.bnd (I.lower xi) (I.lower xi)))) with
  | Xgt => true
  | _ => false
  end.

Example ex_sin_bounded :
  let xi := evalI (prec_of 60) noenv noenv (Un Sin (Const (1 # 10))) in
  (is_bounded xi && width_lt (prec_of 60) xi (-50)
   && I.subset xi (I.bnd (F.div_DN (prec_of 60) (F.fromZ 998334166468281) (F.fromZ 10000000000000000))
                         (F.div_UP (prec_of 60) (F.fromZ 998334166468282) (F.fromZ 10000000000000000))))%bool = true.
Proof. vm_compute. reflexivity. Qed.

Example ex_sin_widen :
  let xi := evalI (prec_of 60) noenv noenv (Un Sin (Const (1 # 10))) in
  (* the double nearest to sin(0.1) is 0x1.98eaecb8bcb2cp-4 *)
  in_interval (widen (prec_of 60) xi (-50) (-1000)) (1798438952039115 # 18014398509481984) = true.
Proof. vm_compute. reflexivity. Qed.

Example ex_log_neg :
  is_bounded (evalI (prec_of 60) noenv noenv (Un Log (Const (-1 # 1)))) = false.
Proof. vm_compute. reflexivity. Qed.

Example ex_log_neg_never_passes :
  in_interval (widen (prec_of 60) (evalI (prec_of 60) noenv noenv (Un Log (Const (-1 # 1)))) (-40) (-40)) 0 = false.
Proof. vm_compute. reflexivity. Qed.

Example ex_div0 :
  is_bounded (evalI (prec_of 60) noenv noenv (Bin Div (Const 1) (Const 0))) = false.
Proof. vm_compute. reflexivity. Qed.

Example ex_asin_1 :
  is_bounded (evalI (prec_of 60) noenv noenv (Un Asin (Const 1))) = true.
Proof. vm_compute. reflexivity. Qed.

Print Assumptions evalI_correct.
