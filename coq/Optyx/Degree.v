(* Degree.v — polynomial-degree analysis.
   Mirrors src/optyx/analysis.py: _natural_power, _vector_degree,
   _vector_node_degree, _compute_degree_impl (recursive),
   _compute_degree_iterative (explicit stack, via Machine), compute_degree
   (depth switch), is_linear / is_quadratic, and expressions.py
   Expression.degree (sentinel cache: observationally the same function).
   [None] = "non-polynomial".  No proofs here (see DegreeProofs.v). *)
From Coq Require Import String List Arith Bool QArith ZArith.
From Optyx Require Import Syntax Machine.
Import ListNotations.
Close Scope Q_scope.
Open Scope nat_scope.

Definition omax (a b : option nat) : option nat :=
  match a, b with Some x, Some y => Some (Nat.max x y) | _, _ => None end.

(* analysis.py: the "+"/"-" rule *)
Definition deg_addsub := omax.

(* analysis.py: the "*" rule - x*y with both factors of positive degree is
   reported non-polynomial (conservative for LP detection) *)
Definition deg_mul (a b : option nat) : option nat :=
  match a, b with
  | Some x, Some y => if (0 <? x) && (0 <? y) then None else Some (x + y)
  | _, _ => None
  end.

(* analysis.py: the "**" rule: exponent must be a literal natural number *)
Definition deg_pow (a : option nat) (r : expr) : option nat :=
  match r with
  | Const q =>
      match natural_power q with
      | Some n => match a with Some x => Some (x * n) | None => None end
      | None => None
      end
  | _ => None
  end.

(* analysis.py: the "/" rule: denominator must be a literal constant *)
Definition deg_div (a : option nat) (r : expr) : option nat :=
  match r with Const _ => a | _ => None end.

Definition deg_bin (o : bop) (l r : expr) (dl dr : option nat) : option nat :=
  match o with
  | Add | Sub => deg_addsub dl dr
  | Mul => deg_mul dl dr
  | Div => deg_div dl r
  | Pow => deg_pow dl r
  end.

Definition deg_un (o : uop) (a : expr) (da : option nat) : option nat :=
  match o with Neg => da | _ => None end.

(* _vector_degree: 1 for a VectorVariable, max over the elements otherwise *)
Definition vec_degree (deg : expr -> option nat) (k : vkind) (es : list expr) : option nat :=
  match k with
  | KVar _ => Some 1
  | KExpr => fold_right (fun e acc => omax (deg e) acc) (Some 0) es
  end.

Fixpoint degree (e : expr) {struct e} : option nat :=
  match e with
  | Const _ => Some 0
  | Var _ => Some 1
  | Param _ => None
  | Bin o l r => deg_bin o l r (degree l) (degree r)
  | Un o a => deg_un o a (degree a)
  | VSum _ _ => Some 1
  | LinComb _ k es =>
      match k with
      | KVar _ => Some 1
      | KExpr => fold_right (fun e acc => omax (degree e) acc) (Some 0) es
      end
  | Dot kl ls kr rs =>
      match (match kl with KVar _ => Some 1
                         | KExpr => fold_right (fun e acc => omax (degree e) acc) (Some 0) ls end),
            (match kr with KVar _ => Some 1
                         | KExpr => fold_right (fun e acc => omax (degree e) acc) (Some 0) rs end) with
      | Some a, Some b => Some (Nat.max 2 (a + b))
      | _, _ => None
      end
  | QForm k es _ =>
      match (match k with KVar _ => Some 1
                        | KExpr => fold_right (fun e acc => omax (degree e) acc) (Some 0) es end) with
      | Some d => Some (Nat.max 2 (2 * d))
      | None => None
      end
  | VPowSum _ _ p => natural_power p
  | VUnSum _ _ _ => None
  | L2n _ _ | L1n _ _ | VExprSum _ | MSum _ _ | Frob _ => None
  end.

(* the explicit-stack traversal: flat nodes by the shared node rule *)
Definition degree_iter (e : expr) : option (option nat) :=
  fold_iter (option nat) degree deg_bin deg_un e.

(* analysis.py _estimate_tree_depth: exact depth over BinaryOp/UnaryOp/DotProduct
   children, capped; only its comparison with the threshold matters *)
Fixpoint depth_full (e : expr) : nat :=
  match e with
  | Bin _ l r => S (Nat.max (depth_full l) (depth_full r))
  | Un _ a => S (depth_full a)
  | _ => 0
  end.

(* compute_degree with switch threshold [th] *)
Definition compute_degree (th : nat) (e : expr) : option nat :=
  if th <=? depth_full e
  then match degree_iter e with Some d => d | None => None end
  else degree e.

Definition is_linear (e : expr) : bool :=
  match degree e with Some d => d <=? 1 | None => false end.

Definition is_quadratic (e : expr) : bool :=
  match degree e with Some d => d <=? 2 | None => false end.
