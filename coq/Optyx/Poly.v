(* Poly.v — specification side of C04: what "is a polynomial of total degree at
   most d" means for a function of the variable environment, independently of
   any optyx data structure.  [is_poly d f] is the smallest class of functions
   containing constants (degree 0) and coordinate projections (degree 1), closed
   under sums (max of degrees) and products (sum of degrees), under pointwise
   equality and under weakening of the bound.  [affine f] is the usual
   functional characterisation of degree <= 1. *)
From Coq Require Import Reals String List.
From Optyx Require Import Syntax SemR.
Open Scope R_scope.

Inductive is_poly : nat -> (env -> R) -> Prop :=
| P_const : forall c, is_poly 0 (fun _ => c)
| P_var : forall x, is_poly 1 (fun rho => rho x)
| P_add : forall d1 d2 f g, is_poly d1 f -> is_poly d2 g ->
                            is_poly (Nat.max d1 d2) (fun rho => f rho + g rho)
| P_mul : forall d1 d2 f g, is_poly d1 f -> is_poly d2 g ->
                            is_poly (d1 + d2) (fun rho => f rho * g rho)
| P_ext : forall d f g, is_poly d f -> (forall rho, f rho = g rho) -> is_poly d g
| P_le : forall d d' f, is_poly d f -> (d <= d')%nat -> is_poly d' f.

(* convex mixing of two environments *)
Definition mix (t : R) (r1 r2 : env) : env := fun x => t * r1 x + (1 - t) * r2 x.

Definition affine (f : env -> R) : Prop :=
  forall r1 r2 t, f (mix t r1 r2) = t * f r1 + (1 - t) * f r2.

Definition constant_fn (f : env -> R) : Prop := forall r1 r2, f r1 = f r2.
