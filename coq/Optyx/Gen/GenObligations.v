(* GenObligations.v — obligations about the GENERATED closure tables
   (Optyx/Gen/GenTables.v, rewritten by tools/translate.py from the current
   Python source on every verification run).  This file is recompiled on every
   run: a change to a NumPy closure body that breaks the mathematics (or drops
   the sanitiser from an unbounded closure, or removes a dispatch case) makes it
   fail to compile.

   The proofs go through the tables entry by entry with one generic tactic per
   table, so they do not depend on the order of unrelated entries nor on the
   closure names.

   C19  gen_all_guarded
   C03  gen_unary_grad_correct, gen_power_grad_correct (+ dispatch completeness,
        full/sparse agreement)
   C17  gen_unary_hess_correct, gen_power_hess_correct (+ completeness, agreement) *)
From Coq Require Import String List QArith ZArith Bool Reals Qreals Lra.
From Optyx Require Import Syntax SemR ArrTerm Sanitize Autodiff Jacobian.
From Optyx.Gen Require Import GenTables.
Import ListNotations.
Close Scope Q_scope.
Open Scope R_scope.

(* ================================================================== *)
(* 0. Table-independent helper lemmas                                  *)
(* ================================================================== *)

Lemma uop_eqb_true : forall o o' : uop, uop_eqb o o' = true -> o = o'.
Proof.
  intros o o' H. destruct o, o'; simpl in H; try discriminate H; reflexivity.
Qed.

Lemma pick_unary_spec : forall (tbl : list centry) (sparse : bool) (o : uop) (ce : centry),
    pick_unary tbl sparse o = Some ce ->
    In ce tbl /\ c_sparse ce = sparse /\ c_case ce = CaseOp o.
Proof.
  intros tbl sparse o ce H. unfold pick_unary in H.
  apply find_some in H. destruct H as [Hin Hb].
  apply andb_true_iff in Hb. destruct Hb as [Hs Hc].
  split; [ exact Hin | split ].
  - apply eqb_prop. exact Hs.
  - destruct (c_case ce) as [o' | z | | ]; try discriminate Hc.
    apply uop_eqb_true in Hc. rewrite Hc. reflexivity.
Qed.

Lemma pick_power_spec : forall (tbl : list centry) (sparse : bool) (k : Q) (ce : centry),
    pick_power tbl sparse k = Some ce ->
    In ce tbl /\ c_sparse ce = sparse /\ case_matches_k k (c_case ce) = true.
Proof.
  intros tbl sparse k ce H. unfold pick_power in H.
  apply find_some in H. destruct H as [Hin Hb].
  apply andb_true_iff in Hb. destruct Hb as [Hs Hc].
  split; [ exact Hin | split ].
  - apply eqb_prop. exact Hs.
  - exact Hc.
Qed.

(* a ** q for an exponent that is (Q-)equal to an integer *)
Lemma powQ_int : forall (a : R) (q : Q) (z : Z), (q == inject_Z z)%Q -> powQ a q = powerRZ a z.
Proof.
  intros a q z H. unfold Qeq in H. simpl in H. rewrite Z.mul_1_r in H.
  unfold powQ, Qis_int, Qfloor'. rewrite H.
  rewrite Z_mod_mult. simpl.
  rewrite Z_div_mult_full by discriminate. reflexivity.
Qed.

Lemma powQ_lit : forall (a : R) (z : Z), powQ a (z # 1) = powerRZ a z.
Proof. intros a z. apply powQ_int. reflexivity. Qed.

Lemma powQ_sub_int : forall (a : R) (k : Q) (z m : Z),
    (k == inject_Z z)%Q -> powQ a (k - (m # 1)) = powerRZ a (z - m).
Proof.
  intros a k z m Hk. apply powQ_int. rewrite Hk.
  unfold Qeq, Qminus, Qplus, Qopp, inject_Z. simpl. ring.
Qed.

Lemma Qeq_bool_lit : forall (k : Q) (z : Z), Qeq_bool k (z # 1) = true -> (k == inject_Z z)%Q.
Proof. intros k z H. apply Qeq_bool_iff in H. exact H. Qed.

Lemma Q2R_of_int : forall (k : Q) (z : Z), (k == inject_Z z)%Q -> Q2R k = IZR z.
Proof.
  intros k z H. rewrite (Qeq_eqR _ _ H). unfold Q2R, inject_Z. simpl. field.
Qed.

(* np.sign(t) = t / |t| away from 0 *)
Lemma sgn_div_abs : forall t : R, t <> 0 -> sgn t = t / Rabs t.
Proof.
  intros t Ht. unfold sgn.
  destruct (Rlt_dec 0 t) as [Hp | Hp].
  - rewrite Rabs_right by lra. field. exact Ht.
  - destruct (Rlt_dec t 0) as [Hn | Hn].
    + rewrite Rabs_left by exact Hn. field. exact Ht.
    + exfalso. lra.
Qed.

(* ---- generic tactics ---- *)

(* run [tac] on the current table entry; on failure report the closure's name *)
Ltac check_entry tac :=
  first [ solve [ tac ]
        | match goal with
          | |- context [c_body (mk_centry ?n _ _ _ _)] =>
              fail 5 "generated closure" n "does not satisfy its obligation"
          end ].

(* go through  Hin : In ce <table>  entry by entry, whatever the order *)
Ltac for_each_entry Hin tac :=
  cbn [In] in Hin;
  repeat (destruct Hin as [<- | Hin]; [ check_entry tac | ]);
  contradiction.

(* side conditions produced by [field] *)
Ltac nonzero_side :=
  repeat split;
  first [ assumption
        | lra
        | apply Rgt_not_eq; apply sqrt_lt_R0; lra
        | apply Rgt_not_eq; apply sqrt_lt_R0; assumption
        | apply Rabs_no_R0; assumption
        | apply Rabs_no_R0; lra ].

(* close a goal  <closure body value> = <reference value>  over the reals *)
Ltac real_close :=
  unfold c0, c1, c2;
  cbn [eden econst evalR uopR bopR c_body];
  rewrite ?powQ_lit;
  simpl (powerRZ _ _);
  rewrite ?Q2R_minus;
  first [ reflexivity
        | apply sgn_div_abs; assumption
        | unfold Q2R; cbn [Qnum Qden];
          first [ reflexivity | ring | lra | field; nonzero_side ] ].

(* ================================================================== *)
(* 1. C19: every closure is sanitised or built from bounded primitives *)
(* ================================================================== *)

Theorem gen_all_guarded :
  forallb guarded (gen_unary_grad ++ gen_power_grad ++ gen_unary_hess ++ gen_power_hess) = true.
Proof. vm_compute; reflexivity. Qed.

(* ================================================================== *)
(* 2. Dispatch completeness and well-formedness of the tables           *)
(* ================================================================== *)

(* the ops accepted by VectorUnarySum, as listed by the generated file *)
Theorem gen_vunarysum_ops_expected :
  map snd gen_vunarysum_ops = [Sin; Cos; Tan; Exp; Log; Abs; Sqrt; Sinh; Cosh; Tanh].
Proof. vm_compute; reflexivity. Qed.

Theorem gen_unary_grad_complete :
  forallb (fun o => match pick_unary gen_unary_grad false o, pick_unary gen_unary_grad true o with
                    | Some _, Some _ => true
                    | _, _ => false
                    end) (map snd gen_vunarysum_ops) = true.
Proof. vm_compute; reflexivity. Qed.

(* every unary gradient entry is an op case for which the model has a rule
   (so [gen_unary_grad_correct] below says something about every entry) *)
Theorem gen_unary_grad_wellformed :
  forallb (fun ce => match c_case ce with
                     | CaseOp o => match vunary_deriv o "x" with Some _ => true | None => false end
                     | _ => false
                     end) gen_unary_grad = true.
Proof. vm_compute; reflexivity. Qed.

Theorem gen_unary_hess_complete :
  forallb (fun o => match pick_unary gen_unary_hess false o, pick_unary gen_unary_hess true o with
                    | Some _, Some _ => true
                    | _, _ => false
                    end) hess_fast_ops = true.
Proof. vm_compute; reflexivity. Qed.

(* every power entry is a k-case *)
Theorem gen_power_tables_wellformed :
  forallb (fun ce => match c_case ce with CaseOp _ => false | _ => true end)
          (gen_power_grad ++ gen_power_hess) = true.
Proof. vm_compute; reflexivity. Qed.

Ltac split_ifs :=
  repeat match goal with
         | |- context [if ?c then _ else _] => destruct c
         end.

Theorem gen_power_grad_complete : forall (k : Q) (sparse : bool),
    exists ce, pick_power gen_power_grad sparse k = Some ce.
Proof.
  intros k sparse. unfold pick_power, gen_power_grad.
  destruct sparse;
    cbn [find c_sparse c_case Bool.eqb andb case_matches_k];
    split_ifs; eexists; reflexivity.
Qed.

Theorem gen_power_hess_complete : forall (k : Q) (sparse : bool),
    exists ce, pick_power gen_power_hess sparse k = Some ce.
Proof.
  intros k sparse. unfold pick_power, gen_power_hess.
  destruct sparse;
    cbn [find c_sparse c_case Bool.eqb andb case_matches_k];
    split_ifs; eexists; reflexivity.
Qed.

(* ================================================================== *)
(* 3a. C03: unary gradient closures                                     *)
(* ================================================================== *)

Ltac unary_grad_entry Hcase Hd Hreg :=
  cbn [c_case] in Hcase;
  first [ discriminate Hcase
        | injection Hcase as <-;
          cbn [vunary_deriv] in Hd;
          first [ discriminate Hd
                | injection Hd as <-;
                  cbn [uop_reg] in Hreg;
                  real_close ] ].

Theorem gen_unary_grad_correct : forall (ce : centry) (o : uop),
    In ce gen_unary_grad -> c_case ce = CaseOp o ->
    forall d : expr, vunary_deriv o "x" = Some d ->
    forall t : R, uop_reg o t ->
    eden 0%Q t (c_body ce) = evalR (fun _ => t) (fun _ => 0) d.
Proof.
  intros ce o Hin Hcase d Hd t Hreg.
  unfold gen_unary_grad in Hin.
  for_each_entry Hin ltac:(unary_grad_entry Hcase Hd Hreg).
Qed.

(* the same, through the dispatch function used by the model of the closures *)
Corollary gen_unary_grad_dispatch_correct : forall (o : uop) (sparse : bool) (ce : centry),
    pick_unary gen_unary_grad sparse o = Some ce ->
    forall d : expr, vunary_deriv o "x" = Some d ->
    forall t : R, uop_reg o t ->
    eden 0%Q t (c_body ce) = evalR (fun _ => t) (fun _ => 0) d.
Proof.
  intros o sparse ce Hpick d Hd t Hreg.
  apply pick_unary_spec in Hpick. destruct Hpick as [Hin [_ Hcase]].
  exact (gen_unary_grad_correct ce o Hin Hcase d Hd t Hreg).
Qed.

(* ================================================================== *)
(* 3b. C03: power gradient closures                                     *)
(* ================================================================== *)

(* turn the boolean facts about k into Q- and R-facts, then close the goal *)
Ltac k_facts :=
  unfold inject_Z in *;
  try congruence;
  repeat match goal with
         | H : Qeq_bool ?k (?z # 1) = true |- _ =>
             apply Qeq_bool_lit in H;
             let HR := fresh "HkR" in
             pose proof (Q2R_of_int _ _ H) as HR
         end.

Ltac k_close :=
  k_facts;
  unfold c0, c1, c2;
  cbn [eden econst evalR uopR bopR c_body];
  try match goal with
      | H : (?k == inject_Z ?z)%Q |- _ => rewrite ?(powQ_sub_int _ k z _ H)
      end;
  rewrite ?powQ_lit;
  simpl (powerRZ _ _);
  rewrite ?Q2R_minus;
  repeat match goal with
         | HR : Q2R ?k = IZR _ |- _ => rewrite ?HR in *; clear HR
         end;
  first [ reflexivity
        | exfalso; lra
        | unfold Q2R; cbn [Qnum Qden];
          first [ reflexivity | ring | lra | field; nonzero_side ] ].

Ltac power_grad_entry k Hm :=
  cbn [c_case case_matches_k] in Hm;
  first [ discriminate Hm
        | unfold vpow_deriv;
          let H1 := fresh "Hk1" in
          let H2 := fresh "Hk2" in
          destruct (Qeq_bool k 1) eqn:H1;
          [ | destruct (Qeq_bool k 2) eqn:H2 ];
          k_close ].

(* every entry is correct for every k its case covers (whatever the order) *)
Theorem gen_power_grad_entry_correct : forall (ce : centry) (k : Q),
    In ce gen_power_grad -> case_matches_k k (c_case ce) = true ->
    forall t : R,
    eden k t (c_body ce) = evalR (fun _ => t) (fun _ => 0) (vpow_deriv k "x").
Proof.
  intros ce k Hin Hm t.
  unfold gen_power_grad in Hin.
  for_each_entry Hin ltac:(power_grad_entry k Hm).
Qed.

Theorem gen_power_grad_correct : forall (ce : centry) (k : Q) (sparse : bool),
    pick_power gen_power_grad sparse k = Some ce ->
    forall t : R,
    eden k t (c_body ce) = evalR (fun _ => t) (fun _ => 0) (vpow_deriv k "x").
Proof.
  intros ce k sparse Hpick t.
  apply pick_power_spec in Hpick. destruct Hpick as [Hin [_ Hm]].
  exact (gen_power_grad_entry_correct ce k Hin Hm t).
Qed.

(* ================================================================== *)
(* 3c. C17: diagonal Hessian closures                                   *)
(* ================================================================== *)

(* second derivative of the four ops with a Hessian fast path *)
Definition uop_second (o : uop) (t : R) : option R :=
  match o with
  | Sin => Some (- sin t)
  | Cos => Some (- cos t)
  | Exp => Some (exp t)
  | Log => Some (- (1 / (t * t)))
  | _ => None
  end.

Theorem uop_second_defined_on_fast_ops :
  forall o : uop, In o hess_fast_ops -> forall t : R, uop_second o t <> None.
Proof.
  intros o Hin t. unfold hess_fast_ops in Hin. cbn [In] in Hin.
  repeat (destruct Hin as [<- | Hin]; [ discriminate | ]).
  contradiction.
Qed.

(* every unary Hessian entry is a case of one of the fast-path ops *)
Theorem gen_unary_hess_wellformed :
  forallb (fun ce => match c_case ce with
                     | CaseOp o => existsb (uop_eqb o) hess_fast_ops
                     | _ => false
                     end) gen_unary_hess = true.
Proof. vm_compute; reflexivity. Qed.

Ltac unary_hess_entry Hcase Hs Hreg :=
  cbn [c_case] in Hcase;
  first [ discriminate Hcase
        | injection Hcase as <-;
          cbn [uop_second] in Hs;
          first [ discriminate Hs
                | injection Hs as <-;
                  cbn [uop_reg] in Hreg;
                  real_close ] ].

Theorem gen_unary_hess_correct : forall (ce : centry) (o : uop),
    In ce gen_unary_hess -> c_case ce = CaseOp o ->
    forall (t s : R), uop_second o t = Some s -> uop_reg o t ->
    eden 0%Q t (c_body ce) = s.
Proof.
  intros ce o Hin Hcase t s Hs Hreg.
  unfold gen_unary_hess in Hin.
  for_each_entry Hin ltac:(unary_hess_entry Hcase Hs Hreg).
Qed.

Corollary gen_unary_hess_dispatch_correct : forall (o : uop) (sparse : bool) (ce : centry),
    pick_unary gen_unary_hess sparse o = Some ce ->
    forall (t s : R), uop_second o t = Some s -> uop_reg o t ->
    eden 0%Q t (c_body ce) = s.
Proof.
  intros o sparse ce Hpick t s Hs Hreg.
  apply pick_unary_spec in Hpick. destruct Hpick as [Hin [_ Hcase]].
  exact (gen_unary_hess_correct ce o Hin Hcase t s Hs Hreg).
Qed.

(* second derivative of t |-> t ** k *)
Definition second_pow (k : Q) (t : R) : R :=
  if Qeq_bool k 1 then 0
  else if Qeq_bool k 2 then 2
  else Q2R k * Q2R (k - 1) * powQ t (k - 2).

(* the special cases are instances of the general formula k (k-1) t^(k-2) *)
Theorem second_pow_general : forall (k : Q) (t : R),
    second_pow k t = Q2R k * Q2R (k - 1) * powQ t (k - 2).
Proof.
  intros k t. unfold second_pow.
  destruct (Qeq_bool k 1) eqn:Hk1; [ | destruct (Qeq_bool k 2) eqn:Hk2 ]; k_close.
Qed.

Ltac power_hess_entry k Hm :=
  cbn [c_case case_matches_k] in Hm;
  first [ discriminate Hm
        | unfold second_pow;
          let H1 := fresh "Hk1" in
          let H2 := fresh "Hk2" in
          destruct (Qeq_bool k 1) eqn:H1;
          [ | destruct (Qeq_bool k 2) eqn:H2 ];
          k_close ].

Theorem gen_power_hess_entry_correct : forall (ce : centry) (k : Q),
    In ce gen_power_hess -> case_matches_k k (c_case ce) = true ->
    forall t : R, eden k t (c_body ce) = second_pow k t.
Proof.
  intros ce k Hin Hm t.
  unfold gen_power_hess in Hin.
  for_each_entry Hin ltac:(power_hess_entry k Hm).
Qed.

Theorem gen_power_hess_correct : forall (ce : centry) (k : Q) (sparse : bool),
    pick_power gen_power_hess sparse k = Some ce ->
    forall t : R, eden k t (c_body ce) = second_pow k t.
Proof.
  intros ce k sparse Hpick t.
  apply pick_power_spec in Hpick. destruct Hpick as [Hin [_ Hm]].
  exact (gen_power_hess_entry_correct ce k Hin Hm t).
Qed.

(* ================================================================== *)
(* 4. Full and sparse closures compute the same per-element function    *)
(* ================================================================== *)

Ltac same_body H1 H2 :=
  vm_compute in H1; vm_compute in H2;
  first [ discriminate H1 | discriminate H2
        | injection H1 as <-; injection H2 as <-; reflexivity ].

Theorem gen_unary_grad_full_sparse : forall (o : uop) (ce1 ce2 : centry),
    pick_unary gen_unary_grad false o = Some ce1 ->
    pick_unary gen_unary_grad true o = Some ce2 ->
    c_body ce1 = c_body ce2.
Proof.
  intros o ce1 ce2 H1 H2. destruct o; same_body H1 H2.
Qed.

Theorem gen_unary_hess_full_sparse : forall (o : uop) (ce1 ce2 : centry),
    pick_unary gen_unary_hess false o = Some ce1 ->
    pick_unary gen_unary_hess true o = Some ce2 ->
    c_body ce1 = c_body ce2.
Proof.
  intros o ce1 ce2 H1 H2. destruct o; same_body H1 H2.
Qed.

(* the full path has special closures for k = 1, 2 while the sparse path uses
   the general formula: the VALUES agree *)
Theorem gen_power_grad_full_sparse : forall (k : Q) (ce1 ce2 : centry),
    pick_power gen_power_grad false k = Some ce1 ->
    pick_power gen_power_grad true k = Some ce2 ->
    forall t : R, eden k t (c_body ce1) = eden k t (c_body ce2).
Proof.
  intros k ce1 ce2 H1 H2 t.
  rewrite (gen_power_grad_correct ce1 k false H1 t).
  rewrite (gen_power_grad_correct ce2 k true H2 t).
  reflexivity.
Qed.

Theorem gen_power_hess_full_sparse : forall (k : Q) (ce1 ce2 : centry),
    pick_power gen_power_hess false k = Some ce1 ->
    pick_power gen_power_hess true k = Some ce2 ->
    forall t : R, eden k t (c_body ce1) = eden k t (c_body ce2).
Proof.
  intros k ce1 ce2 H1 H2 t.
  rewrite (gen_power_hess_correct ce1 k false H1 t).
  rewrite (gen_power_hess_correct ce2 k true H2 t).
  reflexivity.
Qed.

Print Assumptions gen_all_guarded.
Print Assumptions gen_unary_grad_complete.
Print Assumptions gen_power_grad_complete.
Print Assumptions gen_power_hess_complete.
Print Assumptions gen_unary_hess_complete.
Print Assumptions gen_unary_grad_correct.
Print Assumptions gen_power_grad_correct.
Print Assumptions gen_unary_hess_correct.
Print Assumptions gen_power_hess_correct.
Print Assumptions second_pow_general.
Print Assumptions gen_unary_grad_full_sparse.
Print Assumptions gen_unary_hess_full_sparse.
Print Assumptions gen_power_grad_full_sparse.
Print Assumptions gen_power_hess_full_sparse.
