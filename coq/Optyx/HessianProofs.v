(* HessianProofs.v — property C17: the symbolic Hessian entries evaluate to the
   true second partial derivatives and the compiled Hessian callable returns
   that matrix, symmetric, for any permutation or superset of the variables;
   the diagonal shortcuts for vectorised sums agree with the general path.

   Contents
   1. [gradient_eq_grad] (the depth switch of gradient() is immaterial),
      [hessian_exprs_eq] / [hessian_exprs_entry] (entry (i,j) of the symbolic
      Hessian is grad vj (grad vi e)), [hessian_entry_correct] (its value is the
      vj-derivative of the value of grad vi e), [hessian_first_order],
      [hessian_entry_second_partial] (… hence the second partial derivative of
      [[e]], when e is regular in a neighbourhood along vj).
   2. compiled general path: [mirrored_symmetric] (symmetric BY CONSTRUCTION, no
      hypothesis on the closures), [hess_general_upper] (upper triangle = value
      of the symbolic entry, any NoDup variable list V — permutation or
      superset), [hess_general_entry] / [hess_general_lower] (lower triangle =
      mirrored upper value), [hess_general_symmetric],
      [hess_general_any_order].
   3. diagonal fast paths: [vpowsum_hess_value], [vunsum_hess_value] (values of
      the general path's symbolic entries for VectorPowerSum / VectorUnarySum:
      second_pow / uop_second on the diagonal for members, 0 elsewhere — these
      are equalities of real numbers and need NO regularity hypothesis),
      [scatter_map_nth] (semantics of zeros(n)[idx] = f(x[idx])),
      [hess_power_agrees], [hess_unary_agrees] (run_hess of HPower / HUnary, full
      AND sparse, returns entry for entry the values of the general path), and
      the full-case corollaries [hess_power_full], [hess_unary_full];
      [vpowsum_second_derivative], [vunsum_second_derivative] (at regular
      points those diagonal values are the second derivatives).
   4. [hessian_neg] (maximize f hands over the Hessian of -f).
   5. non-vacuity examples: x^2*y at (3,5) gives [[10,6],[6,0]], symbolically
      and through the compiled callable; sum(x^3) against a permuted superset
      (sparse shortcut); sum(log x) (full shortcut).

   NOT proved here (and not needed for the statement above): Schwarz's theorem
   (equality of the mixed partials of a C² function).  The compiled matrix is
   symmetric by construction: its lower triangle is the mirrored upper value,
   i.e. entry (i,j) with j < i is the value of grad v_i (grad v_j e), the
   (j,i) second partial. *)
(* Coquelicot first: its AutoDerive exports [expr], [Var], ... which the later
   imports must shadow. *)
From Coquelicot Require Import Coquelicot.
From Coq Require Import Reals QArith Qreals String List Bool ZArith Arith Lia Lra.
From Optyx Require Import Syntax Occ SemR Machine Autodiff AutodiffLemmas AutodiffProofs
     Compile CompileProofs MachineProofs ArrTerm Jacobian.
From Optyx.Gen Require Import GenTables GenObligations.
Import ListNotations.
Close Scope Q_scope.
Close Scope nat_scope.
Open Scope R_scope.

(* ================================================================== *)
(** * 1. Symbolic Hessian *)

Lemma fold_rec_grad : forall ln2c ln10c v e,
  fold_rec expr (grad ln2c ln10c v) binary_grad (unary_grad ln2c ln10c) e
  = grad ln2c ln10c v e.
Proof.
  intros ln2c ln10c v e.
  induction e as [ q | x | p | o l IHl r IHr | o a IHa | vid xs | cs k es
                 | kl dls kr drs | k es | k es | k es m | vid xs p | vid xs o
                 | es | isvar es | es ]; try reflexivity.
  - simpl. rewrite IHl, IHr. reflexivity.
  - simpl. rewrite IHa. reflexivity.
Qed.

Lemma grad_iter_eq : forall ln2c ln10c v e,
  grad_iter ln2c ln10c v e = Some (grad ln2c ln10c v e).
Proof.
  intros ln2c ln10c v e. unfold grad_iter.
  rewrite fold_iter_correct, fold_rec_grad. reflexivity.
Qed.

(* gradient(): the recursion-depth switch does not change the tree *)
Theorem gradient_eq_grad : forall ln2c ln10c v th e,
  gradient ln2c ln10c v th e = grad ln2c ln10c v e.
Proof.
  intros ln2c ln10c v th e. unfold gradient.
  destruct e; try reflexivity;
    (destruct (Nat.leb th _); [rewrite grad_iter_eq|]; reflexivity).
Qed.

Theorem hessian_exprs_eq : forall ln2c ln10c e V,
  hessian_exprs ln2c ln10c e V = compute_hessian ln2c ln10c e V.
Proof.
  intros ln2c ln10c e V. unfold hessian_exprs, compute_hessian.
  apply map_ext. intros vi. apply map_ext. intros vj.
  rewrite !gradient_eq_grad. reflexivity.
Qed.

Lemma nth_map_in {A B} (f : A -> B) (l : list A) (i : nat) (dA : A) (dB : B) :
  (i < length l)%nat -> nth i (map f l) dB = f (nth i l dA).
Proof.
  intros Hi. rewrite (nth_indep _ dB (f dA)) by (rewrite map_length; exact Hi).
  apply map_nth.
Qed.

(* entry (i,j) of the symbolic Hessian *)
Theorem compute_hessian_entry : forall ln2c ln10c e V i j,
  (i < length V)%nat -> (j < length V)%nat ->
  nth j (nth i (compute_hessian ln2c ln10c e V) []) c0
  = grad ln2c ln10c (nth j V ""%string) (grad ln2c ln10c (nth i V ""%string) e).
Proof.
  intros ln2c ln10c e V i j Hi Hj. unfold compute_hessian.
  rewrite (nth_map_in _ V i ""%string) by exact Hi.
  rewrite (nth_map_in _ V j ""%string) by exact Hj. reflexivity.
Qed.

Theorem hessian_exprs_entry : forall ln2c ln10c e V i j,
  (i < length V)%nat -> (j < length V)%nat ->
  nth j (nth i (hessian_exprs ln2c ln10c e V) []) c0
  = grad ln2c ln10c (nth j V ""%string) (grad ln2c ln10c (nth i V ""%string) e).
Proof.
  intros. rewrite hessian_exprs_eq. now apply compute_hessian_entry.
Qed.

(* the value of entry (i,j) is the vj-derivative of the value of grad vi e *)
Theorem hessian_entry_correct : forall ln2c ln10c e vi vj rho penv,
  wf e = true -> exact_ops e = true -> dot_same_ok e = true ->
  regular rho penv (grad ln2c ln10c vi e) ->
  is_derive (fun t => evalR (upd rho vj t) penv (grad ln2c ln10c vi e)) (rho vj)
            (evalR rho penv (grad ln2c ln10c vj (grad ln2c ln10c vi e))).
Proof.
  intros ln2c ln10c e vi vj rho penv Hwf Hex Hdot Hreg.
  apply grad_correct.
  - apply grad_wf, Hwf.
  - apply grad_exact_ops, Hex.
  - apply grad_dot_same_ok, Hdot.
  - exact Hreg.
Qed.

(* ... and the value of grad vi e is the vi-derivative of [[e]] *)
Theorem hessian_first_order : forall ln2c ln10c e vi rho penv,
  wf e = true -> exact_ops e = true -> dot_same_ok e = true ->
  regular rho penv e ->
  is_derive (fun t => evalR (upd rho vi t) penv e) (rho vi)
            (evalR rho penv (grad ln2c ln10c vi e)).
Proof. intros. now apply grad_correct. Qed.

(* both together: entry (i,j) is d/dvj of (d/dvi [[e]]), the first-order
   partial being taken (as Coquelicot's [Derive]) at every point of a
   neighbourhood of rho along the vj axis where e is regular *)
Theorem hessian_entry_second_partial : forall ln2c ln10c e vi vj rho penv,
  wf e = true -> exact_ops e = true -> dot_same_ok e = true ->
  locally (rho vj) (fun t => regular (upd rho vj t) penv e) ->
  regular rho penv (grad ln2c ln10c vi e) ->
  is_derive
    (fun t => Derive (fun s => evalR (upd (upd rho vj t) vi s) penv e) (upd rho vj t vi))
    (rho vj)
    (evalR rho penv (grad ln2c ln10c vj (grad ln2c ln10c vi e))).
Proof.
  intros ln2c ln10c e vi vj rho penv Hwf Hex Hdot Hloc Hreg.
  apply (is_derive_ext_loc (fun t => evalR (upd rho vj t) penv (grad ln2c ln10c vi e))).
  - revert Hloc. apply filter_imp. intros t Ht.
    symmetry. apply is_derive_unique.
    exact (grad_correct ln2c ln10c e vi (upd rho vj t) penv Hwf Hex Hdot Ht).
  - now apply hessian_entry_correct.
Qed.

(* ================================================================== *)
(** * 4. maximize f: the Hessian handed over is that of -f *)

Lemma grad_s_neg_ev : forall ln2c ln10c v rho penv g,
  evalR rho penv (grad ln2c ln10c v (s_neg g)) = - evalR rho penv (grad ln2c ln10c v g).
Proof.
  intros ln2c ln10c v rho penv g. unfold s_neg.
  destruct (is_zero g) eqn:Ez.
  - destruct g; try discriminate Ez. simpl. rewrite Q2R_0'. ring.
  - destruct g; try (simpl grad at 1; unfold unary_grad; apply s_neg_ev).
    destruct o; try (simpl grad at 1; unfold unary_grad; apply s_neg_ev).
    (* g = Un Neg a, s_neg g = a *)
    simpl grad at 2. unfold unary_grad. rewrite s_neg_ev. ring.
Qed.

Theorem hessian_neg : forall ln2c ln10c e vi vj rho penv,
  evalR rho penv (grad ln2c ln10c vj (grad ln2c ln10c vi (Un Neg e)))
  = - evalR rho penv (grad ln2c ln10c vj (grad ln2c ln10c vi e)).
Proof.
  intros ln2c ln10c e vi vj rho penv.
  change (grad ln2c ln10c vi (Un Neg e)) with (s_neg (grad ln2c ln10c vi e)).
  apply grad_s_neg_ev.
Qed.

(* ================================================================== *)
(** * 2a. The compiled general path is symmetric by construction *)

Lemma mirrored_entry : forall x penv n upper i j,
  (i < n)%nat -> (j < n)%nat ->
  nth j (nth i (mirrored x penv n upper) []) 0 =
  if Nat.leb i j
  then match nth j (nth i upper []) None with
       | Some c => Compile.run x penv c | None => 0 end
  else match nth i (nth j upper []) None with
       | Some c => Compile.run x penv c | None => 0 end.
Proof.
  intros x penv n upper i j Hi Hj. unfold mirrored.
  rewrite (nth_map_seq _ n i []) by exact Hi.
  rewrite (nth_map_seq _ n j 0) by exact Hj. reflexivity.
Qed.

Theorem mirrored_symmetric : forall x penv n upper i j,
  (i < n)%nat -> (j < n)%nat ->
  nth j (nth i (mirrored x penv n upper) []) 0
  = nth i (nth j (mirrored x penv n upper) []) 0.
Proof.
  intros x penv n upper i j Hi Hj.
  rewrite (mirrored_entry x penv n upper i j Hi Hj).
  rewrite (mirrored_entry x penv n upper j i Hj Hi).
  destruct (Nat.leb i j) eqn:Eij; destruct (Nat.leb j i) eqn:Eji; try reflexivity.
  - apply Nat.leb_le in Eij. apply Nat.leb_le in Eji.
    assert (i = j) by lia. subst. reflexivity.
  - apply Nat.leb_gt in Eij. apply Nat.leb_gt in Eji. lia.
Qed.

(* ================================================================== *)
(** * 2b. Upper triangle of the compiled general path *)

Lemma nth_map_combine_seq {A B} (f : nat * A -> B) (l : list A) (dA : A) (dB : B) :
  forall s n i, length l = n -> (i < n)%nat ->
  nth i (map f (combine (seq s n) l)) dB = f ((s + i)%nat, nth i l dA).
Proof.
  induction l as [|a l IH]; intros s n i Hl Hi; simpl in Hl; subst n; [lia|].
  destruct i as [|i]; simpl.
  - rewrite Nat.add_0_r. reflexivity.
  - rewrite (IH (S s) (length l) i eq_refl) by lia.
    f_equal. f_equal. lia.
Qed.

Lemma forallb_combine_seq {A} (f : nat * A -> bool) (l : list A) (dA : A) :
  forall s n i, length l = n -> (i < n)%nat ->
  forallb f (combine (seq s n) l) = true -> f ((s + i)%nat, nth i l dA) = true.
Proof.
  induction l as [|a l IH]; intros s n i Hl Hi H; simpl in Hl; subst n; [lia|].
  simpl in H. apply andb_true_iff in H. destruct H as [H0 H1].
  destruct i as [|i]; simpl.
  - rewrite Nat.add_0_r. exact H0.
  - replace (s + S i)%nat with (S s + i)%nat by lia.
    apply (IH (S s) (length l) i eq_refl); [lia|exact H1].
Qed.

(* the two components of compile_hessian's general path *)
Definition upper_of (ln2c ln10c : Q) (e : expr) (V : list string)
  : list (list (option clo)) :=
  let n := length V in
  map (fun irow : nat * list expr =>
         let '(i, row) := irow in
         map (fun je : nat * expr =>
                let '(j, ent) := je in
                if Nat.leb i j then build V ent else None)
             (combine (seq 0 n) row))
      (combine (seq 0 n) (hessian_exprs ln2c ln10c e V)).

Definition upper_ok (n : nat) (upper : list (list (option clo))) : bool :=
  forallb (fun irow : nat * list (option clo) =>
             let '(i, row) := irow in
             forallb (fun jc : nat * option clo =>
                        let '(j, c) := jc in
                        if Nat.leb i j
                        then match c with Some _ => true | None => false end
                        else true)
                     (combine (seq 0 n) row))
          (combine (seq 0 n) upper).

Lemma compile_hessian_general_inv : forall ln2c ln10c tbl e V upper,
  compile_hessian ln2c ln10c tbl e V = HGeneral upper ->
  upper = upper_of ln2c ln10c e V /\ upper_ok (length V) upper = true.
Proof.
  intros ln2c ln10c tbl e V upper H.
  assert (Hg : (if upper_ok (length V) (upper_of ln2c ln10c e V)
                then HGeneral (upper_of ln2c ln10c e V) else HError) = HGeneral upper).
  { unfold compile_hessian in H.
    destruct e; try exact H.
    - destruct (indices V xs); discriminate H.
    - destruct (pick_unary tbl false o); [|exact H].
      destruct (indices V xs); discriminate H. }
  destruct (upper_ok (length V) (upper_of ln2c ln10c e V)) eqn:Eok; [|discriminate Hg].
  injection Hg as <-. split; [reflexivity|exact Eok].
Qed.

Lemma hessian_exprs_length : forall ln2c ln10c e V,
  length (hessian_exprs ln2c ln10c e V) = length V.
Proof. intros. unfold hessian_exprs. apply map_length. Qed.

Lemma hessian_exprs_row_length : forall ln2c ln10c e V i,
  (i < length V)%nat -> length (nth i (hessian_exprs ln2c ln10c e V) []) = length V.
Proof.
  intros ln2c ln10c e V i Hi. unfold hessian_exprs.
  rewrite (nth_map_in _ V i ""%string) by exact Hi. apply map_length.
Qed.

Lemma upper_of_entry : forall ln2c ln10c e V i j,
  (i < length V)%nat -> (j < length V)%nat ->
  nth j (nth i (upper_of ln2c ln10c e V) []) None =
  if Nat.leb i j
  then build V (grad ln2c ln10c (nth j V ""%string) (grad ln2c ln10c (nth i V ""%string) e))
  else None.
Proof.
  intros ln2c ln10c e V i j Hi Hj. unfold upper_of.
  rewrite (nth_map_combine_seq _ _ [] [] 0 (length V) i
             (hessian_exprs_length ln2c ln10c e V) Hi).
  rewrite (nth_map_combine_seq _ _ c0 None 0 (length V) j
             (hessian_exprs_row_length ln2c ln10c e V i Hi) Hj).
  simpl. rewrite hessian_exprs_entry by assumption. reflexivity.
Qed.

Lemma upper_of_length : forall ln2c ln10c e V,
  length (upper_of ln2c ln10c e V) = length V.
Proof.
  intros. unfold upper_of. rewrite map_length, combine_length, seq_length.
  rewrite hessian_exprs_length. apply Nat.min_id.
Qed.

Lemma upper_of_row_length : forall ln2c ln10c e V i,
  (i < length V)%nat -> length (nth i (upper_of ln2c ln10c e V) []) = length V.
Proof.
  intros ln2c ln10c e V i Hi. unfold upper_of.
  rewrite (nth_map_combine_seq _ _ [] [] 0 (length V) i
             (hessian_exprs_length ln2c ln10c e V) Hi).
  simpl. rewrite map_length, combine_length, seq_length.
  rewrite (hessian_exprs_row_length ln2c ln10c e V i Hi). apply Nat.min_id.
Qed.

(* every needed entry of the upper triangle was built *)
Lemma upper_ok_entry : forall ln2c ln10c e V i j,
  upper_ok (length V) (upper_of ln2c ln10c e V) = true ->
  (i <= j)%nat -> (j < length V)%nat ->
  exists c, nth j (nth i (upper_of ln2c ln10c e V) []) None = Some c.
Proof.
  intros ln2c ln10c e V i j Hok Hij Hj. unfold upper_ok in Hok.
  assert (Hi : (i < length V)%nat) by lia.
  pose proof (forallb_combine_seq _ _ [] 0 (length V) i
                (upper_of_length ln2c ln10c e V) Hi Hok) as Hrow.
  simpl in Hrow.
  pose proof (forallb_combine_seq _ _ None 0 (length V) j
                (upper_of_row_length ln2c ln10c e V i Hi) Hj Hrow) as Hent.
  simpl in Hent. apply Nat.leb_le in Hij. rewrite Hij in Hent.
  destruct (nth j (nth i (upper_of ln2c ln10c e V) []) None) as [c|]; [|discriminate].
  exists c. reflexivity.
Qed.

Lemma run_hess_general_inv : forall x penv pt ut upper M,
  run_hess x penv pt ut (HGeneral upper) = Some M -> M = mirrored x penv (length x) upper.
Proof. intros x penv pt ut upper M H. simpl in H. now injection H as <-. Qed.

(* upper triangle: the value of the symbolic entry, for ANY ordered variable
   list without repetition (any permutation / any superset of vars e: that the
   listed variables cover the entries follows from "HGeneral was returned") *)
Theorem hess_general_upper : forall ln2c ln10c tbl pt ut e V x penv upper M i j,
  wf e = true -> NoDup V -> length x = length V ->
  compile_hessian ln2c ln10c tbl e V = HGeneral upper ->
  run_hess x penv pt ut (HGeneral upper) = Some M ->
  (i <= j)%nat -> (j < length V)%nat ->
  nth j (nth i M []) 0 =
  evalR (env_of V x) penv
        (grad ln2c ln10c (nth j V ""%string) (grad ln2c ln10c (nth i V ""%string) e)).
Proof.
  intros ln2c ln10c tbl pt ut e V x penv upper M i j Hwf HV Hlen Hc Hr Hij Hj.
  apply compile_hessian_general_inv in Hc. destruct Hc as [-> Hok].
  apply run_hess_general_inv in Hr. subst M. rewrite Hlen.
  assert (Hi : (i < length V)%nat) by lia.
  rewrite (mirrored_entry x penv (length V) _ i j Hi Hj).
  destruct (upper_ok_entry ln2c ln10c e V i j Hok Hij Hj) as [c Hcs].
  pose proof Hij as Hij'. apply Nat.leb_le in Hij'. rewrite Hij', Hcs.
  rewrite (upper_of_entry ln2c ln10c e V i j Hi Hj), Hij' in Hcs.
  apply (build_correct V _ c x penv); try assumption.
  apply grad_wf, grad_wf, Hwf.
Qed.

(* 2c. every entry: the mirrored upper value *)
Theorem hess_general_entry : forall ln2c ln10c tbl pt ut e V x penv upper M i j,
  wf e = true -> NoDup V -> length x = length V ->
  compile_hessian ln2c ln10c tbl e V = HGeneral upper ->
  run_hess x penv pt ut (HGeneral upper) = Some M ->
  (i < length V)%nat -> (j < length V)%nat ->
  nth j (nth i M []) 0 =
  evalR (env_of V x) penv
        (grad ln2c ln10c (nth (Nat.max i j) V ""%string)
              (grad ln2c ln10c (nth (Nat.min i j) V ""%string) e)).
Proof.
  intros ln2c ln10c tbl pt ut e V x penv upper M i j Hwf HV Hlen Hc Hr Hi Hj.
  destruct (Nat.le_gt_cases i j) as [Hij|Hji].
  - rewrite Nat.max_r, Nat.min_l by lia.
    eapply hess_general_upper; eassumption.
  - rewrite Nat.max_l, Nat.min_r by lia.
    pose proof (run_hess_general_inv _ _ _ _ _ _ Hr) as HM.
    rewrite HM, Hlen, mirrored_symmetric by assumption. rewrite <- Hlen, <- HM.
    eapply hess_general_upper; try eassumption. lia.
Qed.

Theorem hess_general_symmetric : forall x penv pt ut upper M i j,
  run_hess x penv pt ut (HGeneral upper) = Some M ->
  (i < length x)%nat -> (j < length x)%nat ->
  nth j (nth i M []) 0 = nth i (nth j M []) 0.
Proof.
  intros x penv pt ut upper M i j Hr Hi Hj.
  apply run_hess_general_inv in Hr. subst M. now apply mirrored_symmetric.
Qed.

Theorem hess_general_lower : forall ln2c ln10c tbl pt ut e V x penv upper M i j,
  wf e = true -> NoDup V -> length x = length V ->
  compile_hessian ln2c ln10c tbl e V = HGeneral upper ->
  run_hess x penv pt ut (HGeneral upper) = Some M ->
  (j < i)%nat -> (i < length V)%nat ->
  nth j (nth i M []) 0 = nth i (nth j M []) 0 /\
  nth j (nth i M []) 0 =
  evalR (env_of V x) penv
        (grad ln2c ln10c (nth i V ""%string) (grad ln2c ln10c (nth j V ""%string) e)).
Proof.
  intros ln2c ln10c tbl pt ut e V x penv upper M i j Hwf HV Hlen Hc Hr Hji Hi.
  assert (Hsym : nth j (nth i M []) 0 = nth i (nth j M []) 0).
  { eapply hess_general_symmetric; [exact Hr| |]; lia. }
  split; [exact Hsym|]. rewrite Hsym.
  eapply hess_general_upper; try eassumption. lia.
Qed.

(* the same pair of variables, compiled against two different variable lists
   (permutation / superset) in which the pair keeps its relative order, gives
   the same number when the two points agree on the common variables.  (If the
   relative order flips the two numbers are the two mixed partials, whose
   equality is Schwarz's theorem - not proved here.) *)
Theorem hess_general_any_order :
  forall ln2c ln10c tbl pt ut e V1 V2 x1 x2 penv upper1 upper2 M1 M2 i1 j1 i2 j2,
  wf e = true -> NoDup V1 -> NoDup V2 ->
  length x1 = length V1 -> length x2 = length V2 ->
  compile_hessian ln2c ln10c tbl e V1 = HGeneral upper1 ->
  compile_hessian ln2c ln10c tbl e V2 = HGeneral upper2 ->
  run_hess x1 penv pt ut (HGeneral upper1) = Some M1 ->
  run_hess x2 penv pt ut (HGeneral upper2) = Some M2 ->
  (i1 <= j1)%nat -> (j1 < length V1)%nat -> (i2 <= j2)%nat -> (j2 < length V2)%nat ->
  nth i1 V1 ""%string = nth i2 V2 ""%string ->
  nth j1 V1 ""%string = nth j2 V2 ""%string ->
  (forall v, In v V1 -> In v V2 -> env_of V1 x1 v = env_of V2 x2 v) ->
  nth j1 (nth i1 M1 []) 0 = nth j2 (nth i2 M2 []) 0.
Proof.
  intros ln2c ln10c tbl pt ut e V1 V2 x1 x2 penv upper1 upper2 M1 M2 i1 j1 i2 j2
         Hwf HV1 HV2 Hl1 Hl2 Hc1 Hc2 Hr1 Hr2 Hij1 Hj1 Hij2 Hj2 Hi Hj Hagree.
  rewrite (hess_general_upper ln2c ln10c tbl pt ut e V1 x1 penv upper1 M1 i1 j1) by assumption.
  rewrite (hess_general_upper ln2c ln10c tbl pt ut e V2 x2 penv upper2 M2 i2 j2) by assumption.
  rewrite <- Hi, <- Hj.
  set (ent := grad ln2c ln10c (nth j1 V1 ""%string) (grad ln2c ln10c (nth i1 V1 ""%string) e)).
  assert (Hwe : wf ent = true) by (apply grad_wf, grad_wf, Hwf).
  assert (Hin : forall V upper i j, compile_hessian ln2c ln10c tbl e V = HGeneral upper ->
            (i <= j)%nat -> (j < length V)%nat ->
            incl (vars (grad ln2c ln10c (nth j V ""%string)
                             (grad ln2c ln10c (nth i V ""%string) e))) V).
  { intros V upper i j Hc Hij Hjn.
    apply compile_hessian_general_inv in Hc. destruct Hc as [-> Hok].
    destruct (upper_ok_entry ln2c ln10c e V i j Hok Hij Hjn) as [c Hcs].
    rewrite upper_of_entry in Hcs by lia.
    apply Nat.leb_le in Hij. rewrite Hij in Hcs.
    apply (build_some_iff V); [apply grad_wf, grad_wf, Hwf|]. exists c. exact Hcs. }
  apply evalR_ext_vars. intros v Hv. apply Hagree.
  - exact (Hin V1 upper1 i1 j1 Hc1 Hij1 Hj1 v Hv).
  - pose proof (Hin V2 upper2 i2 j2 Hc2 Hij2 Hj2) as H2.
    rewrite <- Hi, <- Hj in H2. exact (H2 v Hv).
Qed.
(* ================================================================== *)
(** * 3. Diagonal fast paths for vectorised sums *)

(** ** 3a. values of the general path's symbolic entries *)

Lemma Qis_int_Qeq : forall q r, (q == r)%Q -> Qis_int q = true ->
  Qis_int r = true /\ Qfloor' r = Qfloor' q.
Proof.
  intros q r Hqr Hq.
  pose proof (Qint_floor_eq q (Qfloor' q) Hq eq_refl) as H.
  apply Qeq_bool_iff in H.
  apply (Qint_of_Z r (Qfloor' q)). apply Qeq_bool_iff.
  rewrite <- Hqr. exact H.
Qed.

Lemma powQ_Qeq : forall a q r, (q == r)%Q -> powQ a q = powQ a r.
Proof.
  intros a q r Hqr. unfold powQ.
  destruct (Qis_int q) eqn:Eq.
  - destruct (Qis_int_Qeq q r Hqr Eq) as [Er Hf]. rewrite Er, Hf. reflexivity.
  - destruct (Qis_int r) eqn:Er.
    + destruct (Qis_int_Qeq r q (Qeq_sym _ _ Hqr) Er) as [Eq' _]. congruence.
    + rewrite (Qeq_eqR _ _ Hqr). reflexivity.
Qed.

Lemma Qeq_bool_pred_0 : forall k, Qeq_bool (k - 1) 0 = true -> Qeq_bool k 1 = true.
Proof.
  intros k H. apply Qeq_bool_iff in H. apply Qeq_bool_iff.
  rewrite <- (Qplus_0_l 1), <- H. ring.
Qed.

Lemma Qeq_bool_pred_1 : forall k, Qeq_bool (k - 1) 1 = true -> Qeq_bool k 2 = true.
Proof.
  intros k H. apply Qeq_bool_iff in H. apply Qeq_bool_iff.
  setoid_replace 2%Q with (1 + 1)%Q by reflexivity. rewrite <- H at 1. ring.
Qed.

Lemma grad_Var_ev : forall ln2c ln10c vj vi rho penv,
  evalR rho penv (grad ln2c ln10c vj (Var vi)) = if String.eqb vi vj then 1 else 0.
Proof.
  intros. cbn [grad]. destruct (String.eqb vi vj); [apply ev_c1|apply ev_c0].
Qed.

(* VectorPowerSum: entry (vi,vj) of the symbolic Hessian has the value
   k (k-1) x_vi^(k-2) if vi = vj is an element of the vector, 0 otherwise.
   An equality of real numbers at EVERY point: the only simplifier with a side
   condition, s_pow, is applied to the base [Var vi], which is never the
   literal 0, so no regularity hypothesis is needed for the VALUE (regularity
   of [grad vi e], i.e. powQ_reg (rho vi) (k-1), is what makes this value a
   derivative, in [hessian_entry_correct]). *)
Theorem vpowsum_hess_value : forall ln2c ln10c vid xs k vi vj rho penv,
  evalR rho penv (grad ln2c ln10c vj (grad ln2c ln10c vi (VPowSum vid xs k)))
  = if mem_name vi xs && String.eqb vi vj then second_pow k (rho vi) else 0.
Proof.
  intros ln2c ln10c vid xs k vi vj rho penv.
  cbn [grad]. destruct (mem_name vi xs); cbn [andb]; [|apply ev_c0].
  unfold vpow_deriv, second_pow.
  destruct (Qeq_bool k 1) eqn:E1.
  { cbn [grad c1]. rewrite ev_c0. destruct (String.eqb vi vj); reflexivity. }
  destruct (Qeq_bool k 2) eqn:E2.
  { unfold c2 at 1. cbn [grad]. unfold binary_grad.
    rewrite s_add_ev, !s_mul_ev, ev_c0, ev_c2.
    destruct (String.eqb vi vj); rewrite ?ev_c1, ?ev_c0; ring. }
  cbn [grad]. unfold binary_grad.
  destruct (Qeq_bool (k - 1) 0) eqn:E10.
  { apply Qeq_bool_pred_0 in E10. congruence. }
  destruct (Qeq_bool (k - 1) 1) eqn:E11.
  { apply Qeq_bool_pred_1 in E11. congruence. }
  rewrite s_add_ev, !s_mul_ev, ev_c0.
  rewrite s_pow_ev by (intros Hz; discriminate Hz).
  cbn [evalR].
  rewrite (powQ_Qeq (rho vi) (k - 1 - 1) (k - 2)) by ring.
  destruct (String.eqb vi vj); rewrite ?ev_c1, ?ev_c0; ring.
Qed.

(* VectorUnarySum, the four operators with a Hessian fast path *)
Theorem vunsum_hess_value : forall ln2c ln10c vid xs o vi vj rho penv s,
  uop_second o (rho vi) = Some s ->
  evalR rho penv (grad ln2c ln10c vj (grad ln2c ln10c vi (VUnSum vid xs o)))
  = if mem_name vi xs && String.eqb vi vj then s else 0.
Proof.
  intros ln2c ln10c vid xs o vi vj rho penv s Hs.
  destruct o; try discriminate Hs; cbn [uop_second] in Hs; injection Hs as <-;
    cbn [grad vunary_deriv]; (destruct (mem_name vi xs); cbn [andb]; [|apply ev_c0]).
  - (* Sin *) cbn [grad]. unfold unary_grad.
    rewrite s_mul_ev, s_neg_ev. cbn [evalR uopR].
    destruct (String.eqb vi vj); rewrite ?ev_c1, ?ev_c0; ring.
  - (* Cos *) cbn [grad]. unfold binary_grad, unary_grad.
    rewrite s_add_ev, !s_mul_ev, ev_c0. cbn [evalR uopR]. rewrite Q2R_m1'.
    destruct (String.eqb vi vj); rewrite ?ev_c1, ?ev_c0; ring.
  - (* Exp *) cbn [grad]. unfold unary_grad.
    rewrite s_mul_ev. cbn [evalR uopR].
    destruct (String.eqb vi vj); rewrite ?ev_c1, ?ev_c0; ring.
  - (* Log *) unfold c1 at 1. cbn [grad]. unfold binary_grad.
    rewrite s_div_ev, s_sub_ev, !s_mul_ev, ev_c0, ev_c1. cbn [evalR].
    destruct (String.eqb vi vj); rewrite ?ev_c1, ?ev_c0; unfold Rdiv; ring.
Qed.

(** ** 3b. scatter: zeros(n) with result[idx] = vals *)

Lemma scatter_one_length : forall n i v acc,
  length (scatter_one n i v acc) = length acc.
Proof.
  intros n i v acc. revert i.
  induction acc as [|a r IH]; intros [|i]; simpl; try reflexivity.
  now rewrite IH.
Qed.

Lemma scatter_one_nth : forall n i v acc p d,
  nth p (scatter_one n i v acc) d =
  if Nat.eqb p i && Nat.ltb i (length acc) then v else nth p acc d.
Proof.
  intros n i v acc. revert i.
  induction acc as [|a r IH]; intros i p d.
  - destruct i; simpl; rewrite andb_false_r; reflexivity.
  - destruct i as [|i]; destruct p as [|p]; simpl; try reflexivity.
    rewrite IH. reflexivity.
Qed.

Notation scatter_step n :=
  (fun (acc : list R) (iv : nat * R) => scatter_one n (fst iv) (snd iv) acc).

Lemma scatter_fold_length : forall n (l : list (nat * R)) acc,
  length (fold_left (scatter_step n) l acc) = length acc.
Proof.
  intros n l. induction l as [|[i v] l IH]; intros acc; simpl; [reflexivity|].
  rewrite IH. apply scatter_one_length.
Qed.

Lemma scatter_fold_notin : forall n idx vals acc p d,
  ~ In p idx ->
  nth p (fold_left (scatter_step n) (combine idx vals) acc) d = nth p acc d.
Proof.
  intros n idx. induction idx as [|a idx IH]; intros vals acc p d Hnin; [reflexivity|].
  destruct vals as [|v vals]; [reflexivity|]. simpl.
  rewrite IH by (intros H; apply Hnin; now right).
  rewrite scatter_one_nth.
  destruct (Nat.eqb_spec p a) as [->|Hne]; [exfalso; apply Hnin; now left|reflexivity].
Qed.

Lemma scatter_fold_in : forall n idx vals acc q d,
  NoDup idx -> length vals = length idx -> (q < length idx)%nat ->
  (nth q idx 0%nat < length acc)%nat ->
  nth (nth q idx 0%nat) (fold_left (scatter_step n) (combine idx vals) acc) d = nth q vals d.
Proof.
  intros n idx. induction idx as [|a idx IH]; intros vals acc q d Hnd Hlen Hq Hlt;
    [simpl in Hq; lia|].
  destruct vals as [|v vals]; [discriminate Hlen|].
  inversion Hnd as [|a' idx' Hnin Hnd']; subst.
  destruct q as [|q]; simpl.
  - simpl in Hlt. rewrite scatter_fold_notin by exact Hnin.
    rewrite scatter_one_nth, Nat.eqb_refl.
    apply Nat.ltb_lt in Hlt. rewrite Hlt. reflexivity.
  - simpl in Hlt, Hq, Hlen. apply IH; try assumption; try lia.
    rewrite scatter_one_length. exact Hlt.
Qed.

Lemma nth_repeat_0 : forall n p, nth p (repeat 0 n) 0 = 0.
Proof. induction n as [|n IH]; intros [|p]; simpl; auto. Qed.

(* result[idx[q]] = vals[q] ... *)
Theorem scatter_nth_in : forall n idx vals q,
  NoDup idx -> length vals = length idx -> (q < length idx)%nat ->
  (nth q idx 0%nat < n)%nat ->
  nth (nth q idx 0%nat) (scatter n idx vals) 0 = nth q vals 0.
Proof.
  intros n idx vals q Hnd Hlen Hq Hlt. unfold scatter.
  apply scatter_fold_in; try assumption. now rewrite repeat_length.
Qed.

(* ... and 0 at the positions not listed *)
Theorem scatter_nth_notin : forall n idx vals p,
  ~ In p idx -> nth p (scatter n idx vals) 0 = 0.
Proof.
  intros n idx vals p Hnin. unfold scatter.
  rewrite scatter_fold_notin by exact Hnin. apply nth_repeat_0.
Qed.

Theorem scatter_length : forall n idx vals, length (scatter n idx vals) = n.
Proof. intros. unfold scatter. rewrite scatter_fold_length. apply repeat_length. Qed.

(* the form used by the closures: vals = f(idx); repeated indices are harmless *)
Lemma scatter_fold_map : forall n (f : nat -> R) idx acc p,
  (p < length acc)%nat ->
  nth p (fold_left (scatter_step n) (combine idx (map f idx)) acc) 0 =
  if existsb (Nat.eqb p) idx then f p else nth p acc 0.
Proof.
  intros n f idx. induction idx as [|a idx IH]; intros acc p Hp; [reflexivity|].
  simpl. rewrite IH by (rewrite scatter_one_length; exact Hp).
  rewrite scatter_one_nth.
  destruct (Nat.eqb_spec p a) as [->|Hne]; simpl.
  - apply Nat.ltb_lt in Hp. rewrite Hp. destruct (existsb (Nat.eqb a) idx); reflexivity.
  - reflexivity.
Qed.

Theorem scatter_map_nth : forall n (f : nat -> R) idx p,
  (p < n)%nat ->
  nth p (scatter n idx (map f idx)) 0 = if existsb (Nat.eqb p) idx then f p else 0.
Proof.
  intros n f idx p Hp. unfold scatter.
  rewrite scatter_fold_map by (now rewrite repeat_length).
  now rewrite nth_repeat_0.
Qed.

(** ** 3c. index bookkeeping *)

Lemma index_some_nth : forall V v i d, index V v = Some i -> nth i V d = v.
Proof.
  induction V as [|v0 V IH]; intros v i d H; [discriminate H|].
  rewrite index_cons in H. destruct (index V v) as [j|] eqn:Ej.
  - injection H as <-. simpl. now apply IH.
  - destruct (String.eqb_spec v0 v) as [->|Hne]; [|discriminate H].
    injection H as <-. reflexivity.
Qed.

Lemma index_nth : forall V i d, NoDup V -> (i < length V)%nat ->
  index V (nth i V d) = Some i.
Proof.
  intros V i d Hnd Hi.
  destruct (index_in V (nth i V d) (nth_In V d Hi)) as [j Hj].
  rewrite Hj. f_equal.
  pose proof (index_lt _ _ _ Hj) as Hjl.
  pose proof (index_some_nth _ _ _ d Hj) as Hn.
  exact (proj1 (NoDup_nth V d) Hnd j i Hjl Hi Hn).
Qed.

Lemma env_of_nth : forall V (x : list R) i, NoDup V -> (i < length V)%nat ->
  env_of V x (nth i V ""%string) = nth i x 0.
Proof.
  intros V x i Hnd Hi. symmetry. apply index_env_of; [exact Hnd|].
  now apply index_nth.
Qed.

Lemma indices_In : forall V xs idx p, indices V xs = Some idx ->
  (In p idx <-> exists v, In v xs /\ index V v = Some p).
Proof.
  intros V. induction xs as [|a xs IH]; intros idx p H.
  - rewrite indices_nil in H. injection H as <-. split; [intros []|intros [v [[] _]]].
  - rewrite indices_cons in H.
    destruct (index V a) as [i|] eqn:Ei; [|discriminate H].
    destruct (indices V xs) as [r|] eqn:Er; [|discriminate H].
    injection H as <-. specialize (IH r p eq_refl). split.
    + intros [<-|Hin].
      * exists a. split; [now left|exact Ei].
      * destruct (proj1 IH Hin) as [v [Hv Hi]]. exists v. split; [now right|exact Hi].
    + intros [v [[<-|Hv] Hi]].
      * left. congruence.
      * right. apply IH. exists v. split; assumption.
Qed.

Lemma indices_In_nth : forall V xs idx i, NoDup V -> (i < length V)%nat ->
  indices V xs = Some idx -> (In i idx <-> In (nth i V ""%string) xs).
Proof.
  intros V xs idx i Hnd Hi H. rewrite (indices_In V xs idx i H). split.
  - intros [v [Hv Hiv]]. now rewrite (index_some_nth _ _ _ ""%string Hiv).
  - intros Hin. exists (nth i V ""%string). split; [exact Hin|now apply index_nth].
Qed.

Lemma existsb_nat_In : forall p l, existsb (Nat.eqb p) l = true <-> In p l.
Proof.
  intros p l. rewrite existsb_exists. split.
  - intros [q [Hq E]]. apply Nat.eqb_eq in E. now subst.
  - intros H. exists p. split; [exact H|apply Nat.eqb_refl].
Qed.

Lemma list_eqb_nat_eq : forall l1 l2 : list nat, list_eqb Nat.eqb l1 l2 = true -> l1 = l2.
Proof.
  induction l1 as [|a l1 IH]; intros [|b l2] H; simpl in H; try discriminate H; [reflexivity|].
  apply andb_true_iff in H. destruct H as [H1 H2].
  apply Nat.eqb_eq in H1. subst. f_equal. now apply IH.
Qed.

Lemma is_full_seq : forall n idx, is_full n idx = true -> idx = seq 0 n.
Proof.
  intros n idx H. unfold is_full in H. apply andb_true_iff in H.
  apply list_eqb_nat_eq, H.
Qed.

(* which boolean selects the diagonal entries of the vector's own elements *)
Lemma diag_select : forall V xs idx i j, NoDup V ->
  (i < length V)%nat -> (j < length V)%nat -> indices V xs = Some idx ->
  mem_name (nth i V ""%string) xs && String.eqb (nth i V ""%string) (nth j V ""%string)
  = Nat.eqb i j && existsb (Nat.eqb i) idx.
Proof.
  intros V xs idx i j Hnd Hi Hj Hidx.
  assert (H1 : mem_name (nth i V ""%string) xs = existsb (Nat.eqb i) idx).
  { apply eq_true_iff_eq. rewrite mem_name_In, existsb_nat_In.
    symmetry. now apply indices_In_nth. }
  assert (H2 : String.eqb (nth i V ""%string) (nth j V ""%string) = Nat.eqb i j).
  { apply eq_true_iff_eq. rewrite String.eqb_eq, Nat.eqb_eq. split.
    - intros H. exact (proj1 (NoDup_nth V ""%string) Hnd i j Hi Hj H).
    - now intros ->. }
  rewrite H1, H2. apply andb_comm.
Qed.

(** ** 3d. what run_hess returns on the diagonal paths *)

Lemma diag_matrix_entry : forall n d i j, (i < n)%nat -> (j < n)%nat ->
  nth j (nth i (diag_matrix n d) []) 0 = if Nat.eqb i j then nth i d 0 else 0.
Proof.
  intros n d i j Hi Hj. unfold diag_matrix.
  rewrite (nth_map_seq _ n i []) by exact Hi.
  rewrite (nth_map_seq _ n j 0) by exact Hj. reflexivity.
Qed.

Lemma vec_apply_nth : forall x ce k idx i,
  (i < length x)%nat -> (c_sparse ce = false -> idx = seq 0 (length x)) ->
  nth i (vec_apply x ce k (length x) idx) 0 =
  if existsb (Nat.eqb i) idx then eden k (nth i x 0) (c_body ce) else 0.
Proof.
  intros x ce k idx i Hi Hfull. unfold vec_apply.
  destruct (c_sparse ce).
  - now rewrite (scatter_map_nth (length x) (fun i => eden k (nth i x 0) (c_body ce))).
  - rewrite (Hfull eq_refl).
    replace (existsb (Nat.eqb i) (seq 0 (length x))) with true.
    + now rewrite (nth_map_in (fun t => eden k t (c_body ce)) x i 0).
    + symmetry. apply existsb_nat_In, in_seq. lia.
Qed.

Lemma diag_vec_entry : forall x ce k idx i j,
  (i < length x)%nat -> (j < length x)%nat ->
  (c_sparse ce = false -> idx = seq 0 (length x)) ->
  nth j (nth i (diag_matrix (length x) (vec_apply x ce k (length x) idx)) []) 0 =
  if Nat.eqb i j && existsb (Nat.eqb i) idx then eden k (nth i x 0) (c_body ce) else 0.
Proof.
  intros x ce k idx i j Hi Hj Hfull.
  rewrite diag_matrix_entry by assumption.
  destruct (Nat.eqb i j); cbn [andb]; [|reflexivity].
  now apply vec_apply_nth.
Qed.

Lemma compile_hessian_power_inv : forall ln2c ln10c tbl vid xs k V full idx k',
  compile_hessian ln2c ln10c tbl (VPowSum vid xs k) V = HPower full idx k' ->
  indices V xs = Some idx /\ full = is_full (length V) idx /\ k' = k.
Proof.
  intros ln2c ln10c tbl vid xs k V full idx k' H. unfold compile_hessian in H.
  destruct (indices V xs) as [idx0|]; [|discriminate H].
  injection H as <- <- <-. repeat split.
Qed.

Lemma compile_hessian_unary_inv : forall ln2c ln10c tbl vid xs o V full idx o',
  compile_hessian ln2c ln10c tbl (VUnSum vid xs o) V = HUnary full idx o' ->
  indices V xs = Some idx /\ full = is_full (length V) idx /\ o' = o.
Proof.
  intros ln2c ln10c tbl vid xs o V full idx o' H. unfold compile_hessian in H.
  destruct (pick_unary tbl false o).
  - destruct (indices V xs) as [idx0|]; [|discriminate H].
    injection H as <- <- <-. repeat split.
  - match type of H with (if ?b then _ else _) = _ => destruct b end; discriminate H.
Qed.

(* VectorPowerSum: the matrix returned by the diagonal shortcut (full or sparse
   closure) is, entry for entry, the value of the general path's symbolic
   Hessian - for any ordered variable list without repetition. *)
Theorem hess_power_agrees : forall ln2c ln10c tbl ut vid xs k V x penv full idx k' M i j,
  NoDup V -> length x = length V ->
  compile_hessian ln2c ln10c tbl (VPowSum vid xs k) V = HPower full idx k' ->
  run_hess x penv gen_power_hess ut (HPower full idx k') = Some M ->
  (i < length V)%nat -> (j < length V)%nat ->
  nth j (nth i M []) 0 =
  evalR (env_of V x) penv
        (grad ln2c ln10c (nth j V ""%string)
              (grad ln2c ln10c (nth i V ""%string) (VPowSum vid xs k))).
Proof.
  intros ln2c ln10c tbl ut vid xs k V x penv full idx k' M i j HV Hlen Hc Hr Hi Hj.
  apply compile_hessian_power_inv in Hc. destruct Hc as [Hidx [Hfull ->]].
  cbn [run_hess] in Hr.
  destruct (pick_power gen_power_hess (negb full) k) as [ce|] eqn:Hp; [|discriminate Hr].
  injection Hr as <-.
  destruct (pick_power_spec _ _ _ _ Hp) as [_ [Hsp _]].
  rewrite diag_vec_entry; try lia.
  2:{ intros Hs. rewrite Hs in Hsp. destruct full; [|discriminate Hsp].
      rewrite Hlen. apply is_full_seq. now symmetry. }
  rewrite vpowsum_hess_value, (diag_select V xs idx i j HV Hi Hj Hidx).
  destruct (Nat.eqb i j && existsb (Nat.eqb i) idx); [|reflexivity].
  rewrite (gen_power_hess_correct ce k (negb full) Hp).
  now rewrite env_of_nth.
Qed.

(* VectorUnarySum with sin, cos, exp, log.  The generated log closure is
   -1 / x**2; the obligation proved about it (GenObligations) carries the
   regularity hypothesis of the operator, which is therefore needed here for
   the diagonal entries that belong to the vector. *)
Theorem hess_unary_agrees : forall ln2c ln10c tbl pt vid xs o V x penv full idx o' M i j,
  NoDup V -> length x = length V ->
  compile_hessian ln2c ln10c tbl (VUnSum vid xs o) V = HUnary full idx o' ->
  run_hess x penv pt gen_unary_hess (HUnary full idx o') = Some M ->
  (i < length V)%nat -> (j < length V)%nat ->
  (In (nth i V ""%string) xs -> uop_reg o (nth i x 0)) ->
  nth j (nth i M []) 0 =
  evalR (env_of V x) penv
        (grad ln2c ln10c (nth j V ""%string)
              (grad ln2c ln10c (nth i V ""%string) (VUnSum vid xs o))).
Proof.
  intros ln2c ln10c tbl pt vid xs o V x penv full idx o' M i j HV Hlen Hc Hr Hi Hj Hreg.
  apply compile_hessian_unary_inv in Hc. destruct Hc as [Hidx [Hfull ->]].
  cbn [run_hess] in Hr.
  destruct (pick_unary gen_unary_hess (negb full) o) as [ce|] eqn:Hp; [|discriminate Hr].
  injection Hr as <-.
  destruct (pick_unary_spec _ _ _ _ Hp) as [_ [Hsp _]].
  rewrite diag_vec_entry; try lia.
  2:{ intros Hs. rewrite Hs in Hsp. destruct full; [|discriminate Hsp].
      rewrite Hlen. apply is_full_seq. now symmetry. }
  assert (Hsec : exists s, uop_second o (env_of V x (nth i V ""%string)) = Some s).
  { destruct o; try (eexists; reflexivity);
      exfalso; clear -Hp; destruct full; vm_compute in Hp; discriminate Hp. }
  destruct Hsec as [s Hs].
  rewrite (vunsum_hess_value ln2c ln10c vid xs o _ _ _ penv s Hs).
  rewrite (diag_select V xs idx i j HV Hi Hj Hidx).
  destruct (Nat.eqb i j && existsb (Nat.eqb i) idx) eqn:Eb; [|reflexivity].
  apply andb_true_iff in Eb. destruct Eb as [_ Eb].
  apply existsb_nat_In in Eb. apply (indices_In_nth V xs idx i HV Hi Hidx) in Eb.
  rewrite env_of_nth in Hs by assumption.
  exact (gen_unary_hess_dispatch_correct o (negb full) ce Hp _ s Hs (Hreg Eb)).
Qed.

(* the FULL case spelled out (idx = 0..n-1, i.e. the vector is the whole
   variable list in order): a diagonal matrix of per-element second derivatives *)
Theorem hess_power_full : forall ln2c ln10c tbl ut vid xs k V x penv idx k' M i j,
  length x = length V ->
  compile_hessian ln2c ln10c tbl (VPowSum vid xs k) V = HPower true idx k' ->
  run_hess x penv gen_power_hess ut (HPower true idx k') = Some M ->
  (i < length V)%nat -> (j < length V)%nat ->
  idx = seq 0 (length V) /\
  nth j (nth i M []) 0 = if Nat.eqb i j then second_pow k (nth i x 0) else 0.
Proof.
  intros ln2c ln10c tbl ut vid xs k V x penv idx k' M i j Hlen Hc Hr Hi Hj.
  apply compile_hessian_power_inv in Hc. destruct Hc as [Hidx [Hfull ->]].
  symmetry in Hfull. apply is_full_seq in Hfull. split; [exact Hfull|].
  cbn [run_hess negb] in Hr.
  destruct (pick_power gen_power_hess false k) as [ce|] eqn:Hp; [|discriminate Hr].
  injection Hr as <-.
  rewrite diag_vec_entry; try lia.
  2:{ intros _. now rewrite Hlen. }
  rewrite Hfull.
  replace (existsb (Nat.eqb i) (seq 0 (length V))) with true
    by (symmetry; apply existsb_nat_In, in_seq; lia).
  rewrite andb_true_r. destruct (Nat.eqb i j); [|reflexivity].
  apply (gen_power_hess_correct ce k false Hp).
Qed.

Theorem hess_unary_full : forall ln2c ln10c tbl pt vid xs o V x penv idx o' M i j s,
  length x = length V ->
  compile_hessian ln2c ln10c tbl (VUnSum vid xs o) V = HUnary true idx o' ->
  run_hess x penv pt gen_unary_hess (HUnary true idx o') = Some M ->
  (i < length V)%nat -> (j < length V)%nat ->
  uop_second o (nth i x 0) = Some s -> uop_reg o (nth i x 0) ->
  idx = seq 0 (length V) /\
  nth j (nth i M []) 0 = if Nat.eqb i j then s else 0.
Proof.
  intros ln2c ln10c tbl pt vid xs o V x penv idx o' M i j s Hlen Hc Hr Hi Hj Hs Hreg.
  apply compile_hessian_unary_inv in Hc. destruct Hc as [Hidx [Hfull ->]].
  symmetry in Hfull. apply is_full_seq in Hfull. split; [exact Hfull|].
  cbn [run_hess negb] in Hr.
  destruct (pick_unary gen_unary_hess false o) as [ce|] eqn:Hp; [|discriminate Hr].
  injection Hr as <-.
  rewrite diag_vec_entry; try lia.
  2:{ intros _. now rewrite Hlen. }
  rewrite Hfull.
  replace (existsb (Nat.eqb i) (seq 0 (length V))) with true
    by (symmetry; apply existsb_nat_In, in_seq; lia).
  rewrite andb_true_r. destruct (Nat.eqb i j); [|reflexivity].
  exact (gen_unary_hess_dispatch_correct o false ce Hp _ s Hs Hreg).
Qed.

(* the shortcut never fails where the general path's dispatch applies: the
   generated tables have a closure for every k and for the four operators *)
Theorem hess_power_runs : forall x penv ut full idx k,
  exists M, run_hess x penv gen_power_hess ut (HPower full idx k) = Some M.
Proof.
  intros x penv ut full idx k. cbn [run_hess].
  destruct (gen_power_hess_complete k (negb full)) as [ce ->]. eexists. reflexivity.
Qed.

(** ** 3e. ... and these values ARE second derivatives at regular points *)

(* regularity of the first-order entry of a VectorPowerSum: only the general
   branch k x^(k-1) contains a power node *)
Lemma vpowsum_grad_regular : forall ln2c ln10c vid xs k vi rho penv,
  (Qeq_bool k 1 = false -> Qeq_bool k 2 = false -> powQ_reg (rho vi) (k - 1)) ->
  regular rho penv (grad ln2c ln10c vi (VPowSum vid xs k)).
Proof.
  intros ln2c ln10c vid xs k vi rho penv H. cbn [grad].
  destruct (mem_name vi xs); [|exact I]. unfold vpow_deriv.
  destruct (Qeq_bool k 1); [exact I|].
  destruct (Qeq_bool k 2); simpl; auto.
  repeat split. now apply H.
Qed.

Theorem vpowsum_second_derivative : forall ln2c ln10c vid xs k vi rho penv,
  NoDupb xs = true -> mem_name vi xs = true ->
  (Qeq_bool k 1 = false -> Qeq_bool k 2 = false -> powQ_reg (rho vi) (k - 1)) ->
  is_derive (fun t => evalR (upd rho vi t) penv (grad ln2c ln10c vi (VPowSum vid xs k)))
            (rho vi) (second_pow k (rho vi)).
Proof.
  intros ln2c ln10c vid xs k vi rho penv Hnd Hin Hreg.
  eapply is_derive_eq.
  - apply hessian_entry_correct; try reflexivity; [exact Hnd|].
    apply vpowsum_grad_regular, Hreg.
  - rewrite vpowsum_hess_value, Hin, String.eqb_refl. reflexivity.
Qed.

Theorem vunsum_second_derivative : forall ln2c ln10c vid xs o vi rho penv s,
  NoDupb xs = true -> mem_name vi xs = true ->
  uop_second o (rho vi) = Some s -> uop_reg o (rho vi) ->
  is_derive (fun t => evalR (upd rho vi t) penv (grad ln2c ln10c vi (VUnSum vid xs o)))
            (rho vi) s.
Proof.
  intros ln2c ln10c vid xs o vi rho penv s Hnd Hin Hs Hreg.
  eapply is_derive_eq.
  - apply hessian_entry_correct; try exact Hnd.
    + destruct o; try discriminate Hs; reflexivity.
    + reflexivity.
    + cbn [grad]. rewrite Hin.
      destruct o; try discriminate Hs; simpl; repeat split.
      simpl in Hreg. lra.
  - rewrite (vunsum_hess_value ln2c ln10c vid xs o vi vi rho penv s Hs), Hin, String.eqb_refl.
    reflexivity.
Qed.

(* ================================================================== *)
(** * 5. Non-vacuity *)

Open Scope string_scope.

(* f(x,y) = x^2 * y; Hessian [[2y, 2x],[2x, 0]]; at (3,5): [[10,6],[6,0]] *)
Definition hx_e : expr := Bin Mul (Bin Pow (Var "x") (Const 2%Q)) (Var "y").
Definition hx_V : list string := ["x"; "y"].
Definition hx_x : list R := [3; 5].
Definition hx_penv : env := fun _ => 0.

(* the four trees autodiff builds *)
Example hx_trees :
  hessian_exprs ln2c ln10c hx_e hx_V =
  [[Bin Mul (Var "y") (Const 2%Q); Bin Mul (Const 2%Q) (Var "x")];
   [Bin Mul (Const 2%Q) (Var "x"); Const 0%Q]].
Proof. vm_compute. reflexivity. Qed.

Lemma hx_env_x : env_of hx_V hx_x "x" = 3.
Proof. reflexivity. Qed.
Lemma hx_env_y : env_of hx_V hx_x "y" = 5.
Proof. reflexivity. Qed.

Example hx_values :
  map (map (evalR (env_of hx_V hx_x) hx_penv)) (hessian_exprs ln2c ln10c hx_e hx_V)
  = [[10; 6]; [6; 0]].
Proof.
  rewrite hx_trees. cbn [map evalR bopR]. rewrite hx_env_x, hx_env_y.
  unfold Q2R; cbn [Qnum Qden]. repeat f_equal; lra.
Qed.

(* e is regular everywhere and so are its first-order entries: the entries are
   second partial derivatives in the sense of [hessian_entry_second_partial] *)
Example hx_second_partial_xy :
  is_derive
    (fun t => Derive (fun s => evalR (upd (upd (env_of hx_V hx_x) "y" t) "x" s) hx_penv hx_e)
                     (upd (env_of hx_V hx_x) "y" t "x"))
    (env_of hx_V hx_x "y") 6.
Proof.
  eapply is_derive_eq.
  - apply (hessian_entry_second_partial ln2c ln10c hx_e "x" "y"); try reflexivity.
    + apply filter_forall. intros t. simpl. repeat split. unfold powQ_reg. simpl. left. vm_compute. discriminate.
    + vm_compute. auto.
  - change (grad ln2c ln10c "y" (grad ln2c ln10c "x" hx_e))
      with (Bin Mul (Const 2%Q) (Var "x")).
    cbn [evalR bopR]. rewrite hx_env_x. unfold Q2R; cbn [Qnum Qden]. lra.
Qed.

(* the compiled callable: general path, evaluated at (3,5) *)
Example hx_compiled :
  exists upper M,
    compile_hessian ln2c ln10c gen_unary_hess hx_e hx_V = HGeneral upper /\
    run_hess hx_x hx_penv gen_power_hess gen_unary_hess (HGeneral upper) = Some M /\
    nth 0 (nth 0 M []) 0 = 10 /\ nth 1 (nth 0 M []) 0 = 6 /\
    nth 0 (nth 1 M []) 0 = 6 /\ nth 1 (nth 1 M []) 0 = 0.
Proof.
  destruct (compile_hessian ln2c ln10c gen_unary_hess hx_e hx_V) as [| |upper|] eqn:Hc;
    try (vm_compute in Hc; discriminate Hc).
  exists upper, (mirrored hx_x hx_penv (length hx_x) upper).
  split; [reflexivity|]. split; [reflexivity|].
  assert (HV : NoDup hx_V) by (apply NoDupb_NoDup; reflexivity).
  assert (Hval : forall i j, (i <= j)%nat -> (j < 2)%nat ->
            nth j (nth i (mirrored hx_x hx_penv (length hx_x) upper) []) 0 =
            evalR (env_of hx_V hx_x) hx_penv
                  (grad ln2c ln10c (nth j hx_V "") (grad ln2c ln10c (nth i hx_V "") hx_e))).
  { intros i j Hij Hj.
    apply (hess_general_upper ln2c ln10c gen_unary_hess gen_power_hess gen_unary_hess
             hx_e hx_V hx_x hx_penv upper); auto. }
  assert (Hsym : nth 0 (nth 1 (mirrored hx_x hx_penv (length hx_x) upper) []) 0 =
                 nth 1 (nth 0 (mirrored hx_x hx_penv (length hx_x) upper) []) 0).
  { apply mirrored_symmetric; simpl; lia. }
  rewrite Hsym, !Hval by lia.
  change (grad ln2c ln10c (nth 0 hx_V "") (grad ln2c ln10c (nth 0 hx_V "") hx_e))
    with (Bin Mul (Var "y") (Const 2%Q)).
  change (grad ln2c ln10c (nth 1 hx_V "") (grad ln2c ln10c (nth 0 hx_V "") hx_e))
    with (Bin Mul (Const 2%Q) (Var "x")).
  change (grad ln2c ln10c (nth 1 hx_V "") (grad ln2c ln10c (nth 1 hx_V "") hx_e))
    with (Const 0%Q).
  cbn [evalR bopR]. rewrite hx_env_x, hx_env_y. unfold Q2R; cbn [Qnum Qden].
  repeat split; lra.
Qed.

(* the diagonal shortcut on sum(x_i^3) over the permuted superset [z; b; a] of
   the vector [a; b]: sparse path, entries 6*x on the diagonal of a and b, 0 at z *)
Definition hp_e : expr := VPowSum 1%N ["a"; "b"] 3%Q.
Definition hp_V : list string := ["z"; "b"; "a"].

Example hp_path :
  compile_hessian ln2c ln10c gen_unary_hess hp_e hp_V = HPower false [2%nat; 1%nat] 3%Q.
Proof. vm_compute. reflexivity. Qed.

Example hp_matrix : forall tz tb ta M,
  run_hess [tz; tb; ta] hx_penv gen_power_hess gen_unary_hess
           (HPower false [2%nat; 1%nat] 3%Q) = Some M ->
  nth 0 (nth 0 M []) 0 = 0 /\ nth 1 (nth 1 M []) 0 = 6 * tb /\
  nth 2 (nth 2 M []) 0 = 6 * ta /\ nth 2 (nth 1 M []) 0 = 0.
Proof.
  intros tz tb ta M Hr.
  assert (HV : NoDup hp_V) by (apply NoDupb_NoDup; reflexivity).
  assert (Hent : forall i j, (i < 3)%nat -> (j < 3)%nat ->
            nth j (nth i M []) 0 =
            evalR (env_of hp_V [tz; tb; ta]) hx_penv
                  (grad ln2c ln10c (nth j hp_V "") (grad ln2c ln10c (nth i hp_V "") hp_e))).
  { intros i j Hi Hj.
    apply (hess_power_agrees ln2c ln10c gen_unary_hess gen_unary_hess 1%N ["a"; "b"] 3%Q
             hp_V [tz; tb; ta] hx_penv false [2%nat; 1%nat] 3%Q M i j HV eq_refl hp_path Hr);
      assumption. }
  rewrite !Hent by lia. unfold hp_e. rewrite !vpowsum_hess_value.
  cbn [nth hp_V mem_name existsb String.eqb Ascii.eqb Bool.eqb orb andb].
  unfold second_pow. cbn [Qeq_bool Qnum Qden Z.mul Pos.mul Zeq_bool Z.compare Pos.compare Pos.compare_cont].
  cbn [env_of String.eqb Ascii.eqb Bool.eqb].
  rewrite !(powQ_exp1 _ (3 - 2)%Q) by reflexivity.
  unfold Q2R; cbn. repeat split; try reflexivity; field.
Qed.

(* the unary shortcut, full path: sum(log x_i) over exactly [a; b] *)
Example hu_matrix : forall ta tb M, 0 < ta -> 0 < tb ->
  compile_hessian ln2c ln10c gen_unary_hess (VUnSum 1%N ["a"; "b"]%string Log) ["a"; "b"]%string
    = HUnary true [0%nat; 1%nat] Log /\
  (run_hess [ta; tb] hx_penv gen_power_hess gen_unary_hess
            (HUnary true [0%nat; 1%nat] Log) = Some M ->
   nth 0 (nth 0 M []) 0 = - (1 / (ta * ta)) /\ nth 1 (nth 0 M []) 0 = 0 /\
   nth 0 (nth 1 M []) 0 = 0 /\ nth 1 (nth 1 M []) 0 = - (1 / (tb * tb))).
Proof.
  intros ta tb M Ha Hb.
  assert (Hc : compile_hessian ln2c ln10c gen_unary_hess
                 (VUnSum 1%N ["a"; "b"]%string Log) ["a"; "b"]%string
               = HUnary true [0%nat; 1%nat] Log) by (vm_compute; reflexivity).
  split; [exact Hc|]. intros Hr.
  assert (Hent : forall i j s, (i < 2)%nat -> (j < 2)%nat ->
            uop_second Log (nth i [ta; tb] 0) = Some s -> uop_reg Log (nth i [ta; tb] 0) ->
            nth j (nth i M []) 0 = if Nat.eqb i j then s else 0).
  { intros i j s Hi Hj Hs Hreg.
    exact (proj2 (hess_unary_full ln2c ln10c gen_unary_hess gen_power_hess 1%N
                    ["a"; "b"]%string Log ["a"; "b"]%string [ta; tb] hx_penv
                    [0%nat; 1%nat] Log M i j s eq_refl Hc Hr Hi Hj Hs Hreg)). }
  repeat split.
  - apply (Hent 0%nat 0%nat); simpl; auto.
  - apply (Hent 0%nat 1%nat (- (1 / (ta * ta)))); simpl; auto.
  - apply (Hent 1%nat 0%nat (- (1 / (tb * tb)))); simpl; auto.
  - apply (Hent 1%nat 1%nat); simpl; auto.
Qed.
Close Scope string_scope.

(* ================================================================== *)
Print Assumptions gradient_eq_grad.
Print Assumptions hessian_exprs_eq.
Print Assumptions hessian_exprs_entry.
Print Assumptions hessian_entry_correct.
Print Assumptions hessian_first_order.
Print Assumptions hessian_entry_second_partial.
Print Assumptions hessian_neg.
Print Assumptions mirrored_symmetric.
Print Assumptions hess_general_upper.
Print Assumptions hess_general_entry.
Print Assumptions hess_general_lower.
Print Assumptions hess_general_symmetric.
Print Assumptions hess_general_any_order.
Print Assumptions vpowsum_hess_value.
Print Assumptions vunsum_hess_value.
Print Assumptions vpowsum_second_derivative.
Print Assumptions vunsum_second_derivative.
Print Assumptions scatter_nth_in.
Print Assumptions scatter_nth_notin.
Print Assumptions scatter_map_nth.
Print Assumptions hess_power_agrees.
Print Assumptions hess_unary_agrees.
Print Assumptions hess_power_full.
Print Assumptions hess_unary_full.
Print Assumptions hess_power_runs.
Print Assumptions hx_values.
Print Assumptions hx_compiled.
Print Assumptions hp_matrix.
Print Assumptions hu_matrix.
