(* ProblemSM.v — the Problem object as a state machine.
   Mirrors src/optyx/problem.py: __init__, _invalidate_caches, minimize,
   maximize, subject_to (single and list), variables (lazy cache),
   _is_linear_problem (lazy cache), _auto_select_method, solve (routing), and the
   cache handling of solvers/lp_solver.py (_lp_cache, bounds refreshed at every
   solve) and solvers/scipy_solver.py (_solver_cache, lazily added hess_fn,
   bounds read at every solve).  A cached compiled callable is modelled by WHAT
   it was compiled from.  Variable bounds live in a store outside the problem
   (they are attributes of Variable objects) and may be edited at any time.
   The observation of a solve is the argument tuple handed to the SciPy seam. *)
From Coq Require Import String List Arith Bool QArith ZArith.
From Optyx Require Import Syntax Occ Degree Linear Vars SolveWrap.
Import ListNotations.
Close Scope Q_scope.

Definition bnd := (option Q * option Q)%type.
Definition bstore := list (string * bnd).
Fixpoint lookup_b (st : bstore) (v : string) : bnd :=
  match st with
  | [] => (None, None)
  | (k, b) :: r => if String.eqb k v then b else lookup_b r v
  end.

Record solver_cache := { sc_V : list string; sc_obj : expr; sc_neg : bool;
                         sc_cons : list (expr * sense); sc_hess : bool }.

Record pstate := {
  p_obj : option expr; p_max : bool; p_cons : list (expr * sense);
  vars_c : option (list string); solver_c : option solver_cache;
  lp_c : option lpdata; lin_c : option bool }.

Definition init : pstate :=
  {| p_obj := None; p_max := false; p_cons := []; vars_c := None; solver_c := None; lp_c := None; lin_c := None |}.

Inductive op :=
| OMin (e : expr) | OMax (e : expr)
| OSubj (c : expr * sense) | OSubjList (cs : list (expr * sense))
| OSetLb (v : string) (b : option Q) | OSetUb (v : string) (b : option Q)
| OReadVars
| ORejected                       (* a call that is rejected: minimize / maximize of a non-expression, subject_to of a list holding
                                     an invalid element - it raises before anything of the problem is touched *)
| OSolve (m : string).

(* what reaches the solver seam *)
Inductive obs :=
| ONone
| OVars (V : list string)
| ONoObjective
| ONonLinear                                        (* solve_lp on a non-linear model raises *)
| OLinprog (c : list Q) (aub : list (list Q)) (bub : list Q) (aeq : list (list Q)) (beq : list Q)
           (bounds : list bnd) (c0 : Q) (mx : bool) (m : option string)
| OMinimize (m : string) (V : list string) (obj : expr) (neg : bool) (cons : list (expr * sense))
            (bounds : option (list bnd)) (hess : bool) (x0 : list Q).

Definition set_edit (s : pstate) (o : option expr) (mx : bool) (cs : list (expr * sense)) : pstate :=
  {| p_obj := o; p_max := mx; p_cons := cs; vars_c := None; solver_c := None; lp_c := None; lin_c := None |}.

Definition compute_vars (s : pstate) : list string :=
  problem_variables (p_obj s) (map fst (p_cons s)).

Definition variables_of (s : pstate) : list string * pstate :=
  match vars_c s with
  | Some vs => (vs, s)
  | None => let vs := compute_vars s in
            (vs, {| p_obj := p_obj s; p_max := p_max s; p_cons := p_cons s; vars_c := Some vs;
                    solver_c := solver_c s; lp_c := lp_c s; lin_c := lin_c s |})
  end.

Definition compute_lin (s : pstate) : bool :=
  match p_obj s with Some o => is_linear_problem o (p_cons s) | None => false end.

Definition linear_of (s : pstate) : bool * pstate :=
  match lin_c s with
  | Some b => (b, s)
  | None => let b := compute_lin s in
            (b, {| p_obj := p_obj s; p_max := p_max s; p_cons := p_cons s; vars_c := vars_c s;
                   solver_c := solver_c s; lp_c := lp_c s; lin_c := Some b |})
  end.

(* _auto_select_method *)
Definition high_degree (e : expr) : bool :=
  match degree e with Some d => Nat.ltb 2 d | None => true end.
Definition auto_method (s : pstate) : string :=
  match p_cons s with
  | [] => "L-BFGS-B"
  | _ => if (match p_obj s with Some o => high_degree o | None => false end)
            || existsb (fun c => high_degree (fst c)) (p_cons s)
         then "trust-constr" else "SLSQP"
  end.

Section Step.
  Variable bounds_methods hessian_methods : list string.
  Variable st : bstore.              (* current bounds of the variables *)

  Definition cur_bounds (V : list string) : list bnd := map (lookup_b st) V.

  (* solve_lp: validation, variables, LP cache, fresh bounds *)
  Definition do_lp (s : pstate) (o : expr) (m : option string) : pstate * obs :=
    if negb (is_linear_problem o (p_cons s)) then (s, ONonLinear)
    else
      let '(V, s1) := variables_of s in
      let d := match lp_c s1 with Some d => d | None => extract_lp V o (p_max s1) (p_cons s1) end in
      let s2 := {| p_obj := p_obj s1; p_max := p_max s1; p_cons := p_cons s1; vars_c := vars_c s1;
                   solver_c := solver_c s1; lp_c := Some d; lin_c := lin_c s1 |} in
      (s2, OLinprog (linprog_c d) (lp_Aub d) (lp_bub d) (lp_Aeq d) (lp_beq d) (cur_bounds V) (lp_c0 d) (lp_max d) m).

  (* solve_scipy: variables, solver cache (built once), hess_fn added lazily, fresh bounds *)
  Definition do_scipy (s : pstate) (o : expr) (m : string) : pstate * obs :=
    let '(V, s1) := variables_of s in
    let c0 := match solver_c s1 with
              | Some c => c
              | None => {| sc_V := V; sc_obj := o; sc_neg := p_max s1; sc_cons := p_cons s1; sc_hess := false |}
              end in
    let want_h := existsb (String.eqb m) hessian_methods in
    let c1 := {| sc_V := sc_V c0; sc_obj := sc_obj c0; sc_neg := sc_neg c0; sc_cons := sc_cons c0;
                 sc_hess := sc_hess c0 || want_h |} in
    let s2 := {| p_obj := p_obj s1; p_max := p_max s1; p_cons := p_cons s1; vars_c := vars_c s1;
                 solver_c := Some c1; lp_c := lp_c s1; lin_c := lin_c s1 |} in
    let bs := cur_bounds V in
    (s2, OMinimize m (sc_V c1) (sc_obj c1) (sc_neg c1) (sc_cons c1)
                   (bounds_arg bounds_methods m bs) want_h (initial_point bs)).

  Definition step (s : pstate) (o : op) : pstate * obs :=
    match o with
    | OMin e => (set_edit s (Some e) false (p_cons s), ONone)
    | OMax e => (set_edit s (Some e) true (p_cons s), ONone)
    | OSubj c => (set_edit s (p_obj s) (p_max s) (p_cons s ++ [c]), ONone)
    | OSubjList cs => (set_edit s (p_obj s) (p_max s) (p_cons s ++ cs), ONone)
    | OSetLb _ _ | OSetUb _ _ => (s, ONone)      (* bound edits change the store, not the problem *)
    | OReadVars => let '(V, s1) := variables_of s in (s1, OVars V)
    | ORejected => (s, ONone)
    | OSolve m =>
        match p_obj s with
        | None => (s, ONoObjective)
        | Some o =>
            if String.eqb m "auto" then
              let '(lin, s1) := linear_of s in
              if lin then do_lp s1 o None else do_scipy s1 o (auto_method s1)
            else if String.eqb m "linprog" then do_lp s o None
            else if existsb (String.eqb m) lp_methods then do_lp s o (Some m)
            else do_scipy s o m
        end
    end.
End Step.

(* the store after a bound edit *)
Definition store_step (st : bstore) (o : op) : bstore :=
  match o with
  | OSetLb v b => (v, (b, snd (lookup_b st v))) :: st
  | OSetUb v b => (v, (fst (lookup_b st v), b)) :: st
  | _ => st
  end.

(* a history: problem state and store evolve together *)
Fixpoint run_ops (bm hm : list string) (s : pstate) (st : bstore) (ops : list op) : pstate * bstore * list obs :=
  match ops with
  | [] => (s, st, [])
  | o :: r =>
      let '(s1, ob) := step bm hm st s o in
      let st1 := store_step st o in
      let '(s2, st2, obs) := run_ops bm hm s1 st1 r in
      (s2, st2, ob :: obs)
  end.

(* the same model with nothing cached: what a freshly constructed Problem holds *)
Definition fresh (s : pstate) : pstate :=
  {| p_obj := p_obj s; p_max := p_max s; p_cons := p_cons s; vars_c := None; solver_c := None; lp_c := None; lin_c := None |}.

(* everything cached was derived from the CURRENT model *)
Definition cache_inv (s : pstate) : Prop :=
  (forall vs, vars_c s = Some vs -> vs = compute_vars s) /\
  (forall c, solver_c s = Some c ->
     sc_V c = compute_vars s /\ Some (sc_obj c) = p_obj s /\ sc_neg c = p_max s /\ sc_cons c = p_cons s) /\
  (forall d o, lp_c s = Some d -> p_obj s = Some o -> d = extract_lp (compute_vars s) o (p_max s) (p_cons s)) /\
  (forall b, lin_c s = Some b -> b = compute_lin s).
