(* SanitizeProofs.v — property C19: the derivative sanitiser
   (compiler.py _sanitize_derivatives, modelled by Sanitize.sanitize) and the
   guard discipline [bounded_body] of the vectorised closures.
   Part 1 is generic over the carrier [T] of finite values and the three
   replacement values; part 2 proves that a closure body accepted by
   [bounded_body] has a value bounded uniformly over all inputs. *)
From Coq Require Import String List Bool QArith ZArith Reals Qreals Lra.
From Optyx Require Import Syntax SemR ArrTerm Sanitize DegreeProofs.
Import ListNotations.
Close Scope Q_scope.

(* ------------------------------------------------------------------ *)
(* Part 1: the sanitiser                                               *)
(* ------------------------------------------------------------------ *)
Section SanitizeGeneric.
  Variable T : Type.
  Variable zero large neg_large : T.

  Local Notation san := (sanitize zero large neg_large).
  Local Notation fx := (fix1 zero large neg_large).

  Lemma fix1_is_fin : forall a : xfloat T, is_fin (fx a) = true.
  Proof. intros a. destruct a; reflexivity. Qed.

  Lemma fix1_fin_id : forall a : xfloat T, is_fin a = true -> fx a = a.
  Proof. intros a Ha. destruct a; simpl in Ha; try discriminate Ha; reflexivity. Qed.

  Lemma map_fix1_all_finite : forall v : list (xfloat T), forallb is_fin (map fx v) = true.
  Proof.
    intros v. induction v as [| a v IHv]; simpl.
    - reflexivity.
    - rewrite fix1_is_fin, IHv. reflexivity.
  Qed.

  Lemma map_fix1_finite_id : forall v : list (xfloat T),
      forallb is_fin v = true -> map fx v = v.
  Proof.
    intros v. induction v as [| a v IHv]; simpl; intros Hv.
    - reflexivity.
    - apply andb_true_iff in Hv. destruct Hv as [Ha Hv].
      rewrite (fix1_fin_id a Ha), (IHv Hv). reflexivity.
  Qed.

  (* the sanitiser acts element-wise as fix1, whichever branch is taken *)
  Lemma sanitize_as_map : forall v : list (xfloat T), san v = map fx v.
  Proof.
    intros v. unfold sanitize. destruct (forallb is_fin v) eqn:Hv.
    - symmetry. apply map_fix1_finite_id. exact Hv.
    - reflexivity.
  Qed.

  Theorem sanitize_all_finite : forall v : list (xfloat T),
      forallb is_fin (san v) = true.
  Proof. intros v. rewrite sanitize_as_map. apply map_fix1_all_finite. Qed.

  Theorem sanitize_length : forall v : list (xfloat T), length (san v) = length v.
  Proof. intros v. rewrite sanitize_as_map. apply map_length. Qed.

  Theorem sanitize_nth : forall (v : list (xfloat T)) (i : nat) (a : xfloat T),
      nth_error v i = Some a -> nth_error (san v) i = Some (fx a).
  Proof.
    intros v i a Hi. rewrite sanitize_as_map.
    apply map_nth_error. exact Hi.
  Qed.

  Theorem sanitize_regular_unchanged : forall (v : list (xfloat T)) (i : nat) (r : T),
      nth_error v i = Some (Fin r) -> nth_error (san v) i = Some (Fin r).
  Proof. intros v i r Hi. exact (sanitize_nth v i (Fin r) Hi). Qed.

  Theorem sanitize_values_nan : forall (v : list (xfloat T)) (i : nat),
      nth_error v i = Some NaN -> nth_error (san v) i = Some (Fin zero).
  Proof. intros v i Hi. exact (sanitize_nth v i NaN Hi). Qed.

  Theorem sanitize_values_pinf : forall (v : list (xfloat T)) (i : nat),
      nth_error v i = Some PInf -> nth_error (san v) i = Some (Fin large).
  Proof. intros v i Hi. exact (sanitize_nth v i PInf Hi). Qed.

  Theorem sanitize_values_ninf : forall (v : list (xfloat T)) (i : nat),
      nth_error v i = Some NInf -> nth_error (san v) i = Some (Fin neg_large).
  Proof. intros v i Hi. exact (sanitize_nth v i NInf Hi). Qed.

  Theorem sanitize_values : forall (v : list (xfloat T)) (i : nat),
      (nth_error v i = Some NaN -> nth_error (san v) i = Some (Fin zero)) /\
      (nth_error v i = Some PInf -> nth_error (san v) i = Some (Fin large)) /\
      (nth_error v i = Some NInf -> nth_error (san v) i = Some (Fin neg_large)).
  Proof.
    intros v i. split; [ | split ].
    - apply sanitize_values_nan.
    - apply sanitize_values_pinf.
    - apply sanitize_values_ninf.
  Qed.

  Theorem sanitize_finite_id : forall v : list (xfloat T),
      forallb is_fin v = true -> san v = v.
  Proof. intros v Hv. unfold sanitize. rewrite Hv. reflexivity. Qed.

  Theorem sanitize_idempotent : forall v : list (xfloat T), san (san v) = san v.
  Proof. intros v. apply sanitize_finite_id. apply sanitize_all_finite. Qed.

  (* nothing outside the list is produced: positions beyond the end stay absent *)
  Theorem sanitize_nth_none : forall (v : list (xfloat T)) (i : nat),
      nth_error v i = None -> nth_error (san v) i = None.
  Proof.
    intros v i Hi. apply nth_error_None. rewrite sanitize_length.
    apply nth_error_None. exact Hi.
  Qed.
End SanitizeGeneric.

(* ------------------------------------------------------------------ *)
(* Part 2: bounded closure bodies                                      *)
(* ------------------------------------------------------------------ *)
Open Scope R_scope.

Lemma sin_abs_le_1 : forall t : R, Rabs (sin t) <= 1.
Proof.
  intros t. pose proof (SIN_bound t) as Hb.
  apply Rabs_le. lra.
Qed.

Lemma cos_abs_le_1 : forall t : R, Rabs (cos t) <= 1.
Proof.
  intros t. pose proof (COS_bound t) as Hb.
  apply Rabs_le. lra.
Qed.

Lemma tanh_abs_le_1 : forall t : R, Rabs (tanh t) <= 1.
Proof.
  intros t. unfold tanh, sinh, cosh.
  pose proof (exp_pos t) as Ha. pose proof (exp_pos (- t)) as Hb.
  set (a := exp t) in *. set (b := exp (- t)) in *.
  assert (Hs : 0 < a + b) by lra.
  assert (Heq : (a - b) / 2 / ((a + b) / 2) = (a - b) * / (a + b)).
  { field. lra. }
  rewrite Heq.
  pose proof (Rinv_0_lt_compat (a + b) Hs) as Hc.
  assert (Hone : (a + b) * / (a + b) = 1).
  { apply Rinv_r. lra. }
  set (c := / (a + b)) in *.
  assert (Hac : 0 < a * c) by (apply Rmult_lt_0_compat; assumption).
  assert (Hbc : 0 < b * c) by (apply Rmult_lt_0_compat; assumption).
  apply Rabs_le. split; lra.
Qed.

Lemma sgn_abs_le_1 : forall a : R, Rabs (sgn a) <= 1.
Proof.
  intros a. unfold sgn.
  destruct (Rlt_dec 0 a) as [Hp | Hp].
  - apply Rabs_le. lra.
  - destruct (Rlt_dec a 0) as [Hn | Hn].
    + apply Rabs_le. lra.
    + apply Rabs_le. lra.
Qed.

Lemma Rabs_pow_le : forall (x M : R) (n : nat), Rabs x <= M -> Rabs (x ^ n) <= M ^ n.
Proof.
  intros x M n Hx. rewrite <- RPow_abs. apply pow_incr.
  split; [ apply Rabs_pos | exact Hx ].
Qed.

Lemma eden_pow_lit : forall (k : Q) (t : R) (a : eterm) (q : Q),
    eden k t (EBin Pow a (ELit q)) = powQ (eden k t a) q.
Proof. intros k t a q. reflexivity. Qed.

Theorem bounded_body_sound : forall e : eterm, bounded_body e = true ->
    forall k : Q, exists M : R, forall t : R, Rabs (eden k t e) <= M.
Proof.
  intros e. induction e as [| q | | a IHa | o a IHa | a IHa | o a IHa b IHb];
    intros Hb k.
  - (* EX *) discriminate Hb.
  - (* ELit *) exists (Rabs (Q2R q)). intros t. simpl. lra.
  - (* EK *) exists (Rabs (Q2R k)). intros t. simpl. lra.
  - (* ENeg *)
    simpl in Hb. destruct (IHa Hb k) as [M HM].
    exists M. intros t. simpl. rewrite Rabs_Ropp. apply HM.
  - (* ENp *)
    exists 1. intros t.
    destruct o; simpl in Hb; try discriminate Hb; simpl.
    + apply sin_abs_le_1.
    + apply cos_abs_le_1.
    + apply tanh_abs_le_1.
  - (* ESign *)
    exists 1. intros t. simpl. apply sgn_abs_le_1.
  - (* EBin *)
    destruct o; simpl in Hb.
    + (* Add *)
      apply andb_true_iff in Hb. destruct Hb as [Hba Hbb].
      destruct (IHa Hba k) as [Ma HMa]. destruct (IHb Hbb k) as [Mb HMb].
      exists (Ma + Mb). intros t. simpl.
      pose proof (Rabs_triang (eden k t a) (eden k t b)) as Htri.
      pose proof (HMa t) as H1. pose proof (HMb t) as H2. lra.
    + (* Sub *)
      apply andb_true_iff in Hb. destruct Hb as [Hba Hbb].
      destruct (IHa Hba k) as [Ma HMa]. destruct (IHb Hbb k) as [Mb HMb].
      exists (Ma + Mb). intros t. simpl.
      pose proof (Rabs_triang (eden k t a) (- eden k t b)) as Htri.
      rewrite Rabs_Ropp in Htri.
      pose proof (HMa t) as H1. pose proof (HMb t) as H2.
      unfold Rminus. lra.
    + (* Mul *)
      apply andb_true_iff in Hb. destruct Hb as [Hba Hbb].
      destruct (IHa Hba k) as [Ma HMa]. destruct (IHb Hbb k) as [Mb HMb].
      exists (Ma * Mb). intros t. simpl. rewrite Rabs_mult.
      apply Rmult_le_compat; [ apply Rabs_pos | apply Rabs_pos | apply HMa | apply HMb ].
    + (* Div *) discriminate Hb.
    + (* Pow *)
      apply andb_true_iff in Hb. destruct Hb as [Hba Hbb].
      destruct b as [| q | | b' | o' b' | b' | o' b1 b2]; try discriminate Hbb.
      destruct (natural_power q) as [n |] eqn:Hn; [ | discriminate Hbb ].
      destruct (IHa Hba k) as [Ma HMa].
      exists (Ma ^ n). intros t.
      rewrite eden_pow_lit, (powQ_natural _ q n Hn).
      apply Rabs_pow_le. apply HMa.
Qed.

(* a guarded closure is either sanitised or uniformly bounded *)
Corollary guarded_sound : forall ce : centry, guarded ce = true ->
    c_sanitized ce = true \/
    (forall k : Q, exists M : R, forall t : R, Rabs (eden k t (c_body ce)) <= M).
Proof.
  intros ce Hg. unfold guarded in Hg. apply orb_true_iff in Hg.
  destruct Hg as [Hs | Hb].
  - left. exact Hs.
  - right. intros k. exact (bounded_body_sound (c_body ce) Hb k).
Qed.

Print Assumptions sanitize_all_finite.
Print Assumptions sanitize_regular_unchanged.
Print Assumptions sanitize_values.
Print Assumptions sanitize_length.
Print Assumptions sanitize_idempotent.
Print Assumptions sanitize_finite_id.
Print Assumptions bounded_body_sound.
Print Assumptions guarded_sound.
