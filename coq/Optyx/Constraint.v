(* Constraint.v — constraints.
   Mirrors src/optyx/constraints.py (Constraint.evaluate / violation /
   is_satisfied, _make_constraint), the element-wise builders
   vectors.py _vector_constraint and matrices.py _matrix_constraint, and the
   SciPy constraint dicts of scipy_solver.py _build_solver_cache
   ("ineq": fun(x) >= 0, "eq": fun(x) == 0; sign flipped for "<=").
   No proofs here (see ConstraintProofs.v). *)
From Coq Require Import String List Arith Bool QArith Reals Qreals.
From Optyx Require Import Syntax SemR Linear SolveWrap.
Import ListNotations.
Close Scope Q_scope.

(* lhs <sense> rhs  is normalised to  (lhs - rhs) <sense> 0 *)
Definition make_constraint (lhs : expr) (s : sense) (rhs : expr) : expr * sense := (Bin Sub lhs rhs, s).

(* reflected comparisons: Python evaluates  k <= e  as  e >= k *)
Definition flip (s : sense) : sense := match s with Le => Ge | Ge => Le | Eq => Eq end.

Inductive build_result (A : Type) := Built (a : A) | DimMismatch | WrongDim | InvalidOp.
Arguments Built {A}. Arguments DimMismatch {A}. Arguments WrongDim {A}. Arguments InvalidOp {A}.

(* right operand of an element-wise comparison *)
Inductive operand :=
| OScalar (q : Q)                       (* int / float: broadcast *)
| OVector (es : list expr)              (* VectorVariable / VectorExpression / 1-d array / list *)
| ONd (ndim : nat)                      (* array of another dimensionality *)
| OOther.                               (* unsupported type *)

(* _vector_constraint *)
Definition vector_constraint (ls : list expr) (s : sense) (r : operand) : build_result (list (expr * sense)) :=
  match r with
  | OScalar q => Built (map (fun l => make_constraint l s (Const q)) ls)
  | OVector rs =>
      if Nat.eqb (List.length rs) (List.length ls)
      then Built (map (fun lr => make_constraint (fst lr) s (snd lr)) (combine ls rs))
      else DimMismatch
  | ONd _ => WrongDim
  | OOther => InvalidOp
  end.

Section Sem.
  Local Open Scope R_scope.

  (* Constraint.violation on the value v of expr = lhs - rhs *)
  Definition violationR (s : sense) (v : R) : R :=
    match s with
    | Le => Rmax 0 v
    | Ge => Rmax 0 (- v)
    | Eq => Rabs v
    end.

  Definition satisfiedR (s : sense) (v tol : R) : Prop := violationR s v <= tol.

  (* SciPy dict: type and fun in terms of the value v of expr *)
  Definition dict_type (s : sense) : ctype := match s with Eq => EqC | _ => Ineq end.
  Definition dict_fun (s : sense) (v : R) : R := match s with Le => - v | _ => v end.
  (* jac in terms of the Jacobian row of expr *)
  Definition dict_jac (s : sense) (row : list R) : list R :=
    match s with Le => map Ropp row | _ => row end.

  (* _build_solver_cache, the loop over problem.constraints: ONE dict per constraint, in the order written
     (no constraint skipped, merged or re-ordered).  A dict is kept as its type and the constraint it was built from. *)
  Definition dict_of (c : expr * sense) : ctype * (expr * sense) := (dict_type (snd c), c).
  Definition scipy_constraints (cs : list (expr * sense)) : list (ctype * (expr * sense)) := map dict_of cs.

  (* what SciPy requires of a point for one dict, and what the user wrote *)
  Definition dict_accepts (rho : string -> R) (penv : string -> R) (d : ctype * (expr * sense)) : Prop :=
    let v := evalR rho penv (fst (snd d)) in
    match fst d with Ineq => 0 <= dict_fun (snd (snd d)) v | EqC => dict_fun (snd (snd d)) v = 0 end.
  Definition relation_holds (rho : string -> R) (penv : string -> R) (c : expr * sense) : Prop :=
    let v := evalR rho penv (fst c) in
    match snd c with Le => v <= 0 | Ge => v >= 0 | Eq => v = 0 end.
End Sem.
