(* Sanitize.v — non-finite values in derivative arrays.
   Mirrors compiler.py _sanitize_derivatives (fast exit when everything is
   finite, otherwise NaN -> 0, +Inf -> +_LARGE_GRADIENT, -Inf -> -_LARGE_GRADIENT)
   and the guard discipline of the vectorised closures (generated tables):
   a closure either passes its result through the sanitiser or is built only
   from primitives whose value is bounded on all finite inputs.
   No proofs here (see SanitizeProofs.v). *)
From Coq Require Import String List Bool QArith ZArith.
From Optyx Require Import Syntax ArrTerm.
Import ListNotations.
Close Scope Q_scope.

Section X.
  Variable T : Type.               (* carrier of finite values (Q or R) *)
  Variable zero large neg_large : T.

  Inductive xfloat := Fin (r : T) | PInf | NInf | NaN.

  Definition is_fin (a : xfloat) : bool := match a with Fin _ => true | _ => false end.

  Definition fix1 (a : xfloat) : xfloat :=
    match a with
    | Fin r => Fin r
    | NaN => Fin zero
    | PInf => Fin large
    | NInf => Fin neg_large
    end.

  (* np.all(np.isfinite(arr)) ? arr : np.nan_to_num(arr, nan=0, posinf=L, neginf=-L) *)
  Definition sanitize (v : list xfloat) : list xfloat :=
    if forallb is_fin v then v else map fix1 v.
End X.

Arguments Fin {T}.
Arguments PInf {T}.
Arguments NInf {T}.
Arguments NaN {T}.
Arguments is_fin {T}.
Arguments fix1 {T}.
Arguments sanitize {T}.

(* ---- guard discipline of the generated closures ---- *)

(* the per-element value is bounded uniformly over all inputs *)
Fixpoint bounded_body (e : eterm) : bool :=
  match e with
  | EX => false
  | ELit _ => true
  | EK => true
  | ENeg a => bounded_body a
  | ENp o a => match o with Sin | Cos | Tanh => true | _ => false end
  | ESign _ => true
  | EBin o a b =>
      match o with
      | Add | Sub | Mul => bounded_body a && bounded_body b
      | Pow => bounded_body a && match b with
                                 | ELit q => match natural_power q with Some _ => true | None => false end
                                 | _ => false end
      | Div => false
      end
  end.

Definition guarded (ce : centry) : bool := c_sanitized ce || bounded_body (c_body ce).
