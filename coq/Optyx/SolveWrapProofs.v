(* SolveWrapProofs.v — theorems about the solver wrappers, for EVERY oracle answer.
   The status chains, the accepted-exit condition and the method sets are the
   GENERATED ones (Gen/GenTables.v), so these proofs are re-checked against the
   current source on every run. *)
From Coq Require Import String List Arith Bool QArith Qabs ZArith Lia Lqa.
From Optyx Require Import Syntax Vars SolveWrap.
From Optyx.Gen Require Import GenTables.
Import ListNotations.
Open Scope Q_scope.

Ltac split_ifs :=
  repeat match goal with
         | |- context [if ?b then _ else _] => let E := fresh "E" in destruct b eqn:E
         | H : context [if ?b then _ else _] |- _ => let E := fresh "E" in destruct b eqn:E
         end.

(* ---- C06: OPTIMAL is only ever produced after a passed feasibility scan ---- *)

(* the generated chain yields OPTIMAL only for an accepted exit that is not violated *)
Lemma chain_optimal : forall r viol,
  decide gen_status_chain gen_status_default r viol = OPTIMAL ->
  cond_holds r false gen_accepted = true /\ viol = false.
Proof.
  intros r viol. unfold gen_status_chain, gen_status_default, gen_accepted.
  cbn [decide cond_holds].
  destruct (r_success r); destruct viol; cbn [negb andb orb];
    repeat match goal with
           | |- context [existsb ?f (r_kws r)] =>
               let b := fresh "b" in remember (existsb f (r_kws r)) as b; destruct b
           end; cbn [negb andb orb]; intro H; try discriminate H; auto.
Qed.

Definition scan_passed (atol rtol : Q) (x : list Q) (bounds : list (option Q * option Q))
           (cvals : list Q -> list (ctype * Q)) : Prop :=
  (forall xb, In xb (combine x bounds) -> bound_violated atol rtol xb = false) /\
  (forall c, In c (cvals x) -> con_violated atol rtol c = false).

Lemma not_violated_scan : forall atol rtol r bounds cvals x,
  cond_holds r false gen_accepted = true -> r_x r = Some x ->
  violated gen_accepted atol rtol r bounds cvals = false ->
  scan_passed atol rtol x bounds cvals.
Proof.
  intros atol rtol r bounds cvals x Hacc Hx Hv. unfold violated in Hv.
  rewrite Hacc, Hx in Hv. apply orb_false_elim in Hv. destruct Hv as [Hb Hc].
  split; intros a Ha.
  - destruct (bound_violated atol rtol a) eqn:E; auto.
    assert (existsb (bound_violated atol rtol) (combine x bounds) = true) by (apply existsb_exists; eauto).
    congruence.
  - destruct (con_violated atol rtol a) eqn:E; auto.
    assert (existsb (con_violated atol rtol) (cvals x) = true) by (apply existsb_exists; eauto).
    congruence.
Qed.

(* what "not violated" means numerically *)
Lemma con_ok_meaning : forall atol rtol t v, con_violated atol rtol (t, v) = false ->
  match t with
  | Ineq => - scaled_tol atol rtol v <= v
  | EqC => Qabs v <= scaled_tol atol rtol v
  end.
Proof.
  intros atol rtol t v H. unfold con_violated in H. destruct t;
    apply negb_false_iff in H; apply Qle_bool_iff in H; exact H.
Qed.

Lemma bound_ok_meaning : forall atol rtol x lb ub, bound_violated atol rtol (x, (lb, ub)) = false ->
  (forall l, lb = Some l -> l - x <= atol + rtol * Qmax 1 (Qabs l)) /\
  (forall u, ub = Some u -> x - u <= atol + rtol * Qmax 1 (Qabs u)).
Proof.
  intros atol rtol x lb ub H. unfold bound_violated in H. apply orb_false_elim in H. destruct H as [H1 H2].
  split; intros b Hb; subst.
  - apply negb_false_iff in H1. apply Qle_bool_iff in H1. exact H1.
  - apply negb_false_iff in H2. apply Qle_bool_iff in H2. exact H2.
Qed.

(* main statement: for every method, every pair of oracle answers (first call and
   possible retry), if the wrapper reports OPTIMAL then the point it reports was
   accepted by the scan: every declared bound and every constraint function is
   within the scaled tolerance at that point *)
Theorem optimal_implies_scan_passed :
  forall method maximize V atol rtol bounds cvals r1 r2 out,
  out = post_minimize gen_accepted gen_status_chain gen_status_default method maximize V atol rtol bounds cvals r1 r2 ->
  o_status out = OPTIMAL ->
  exists r, (r = r1 \/ r = r2) /\
            o_values out = match r_x r with Some x => combine V x | None => [] end /\
            (forall x, r_x r = Some x -> scan_passed atol rtol x bounds cvals).
Proof.
  intros method maximize V atol rtol bounds cvals r1 r2 out Hout Hst. subst out.
  unfold post_minimize in *.
  destruct (violated gen_accepted atol rtol r1 bounds cvals && (method =? "SLSQP")%string) eqn:Eretry;
    cbn [o_status o_values finish] in *.
  - exists r2. split; [right; reflexivity|]. split; [reflexivity|].
    intros x Hx. apply chain_optimal in Hst. destruct Hst as [Hacc Hv].
    eapply not_violated_scan; eauto.
  - exists r1. split; [left; reflexivity|]. split; [reflexivity|].
    intros x Hx. apply chain_optimal in Hst. destruct Hst as [Hacc Hv].
    eapply not_violated_scan; eauto.
Qed.

(* the retry is attempted at most once: never more than two oracle calls *)
Theorem at_most_two_calls : forall method maximize V atol rtol bounds cvals r1 r2,
  (o_calls (post_minimize gen_accepted gen_status_chain gen_status_default method maximize V atol rtol bounds cvals r1 r2) <= 2)%nat.
Proof. intros. unfold post_minimize. split_ifs; cbn; lia. Qed.

(* linprog: OPTIMAL only for result.success *)
Theorem lp_optimal_iff_success : forall maximize c0 names r,
  o_status (post_linprog gen_lp_chain gen_lp_default maximize c0 names r) = OPTIMAL <-> r_success r = true.
Proof.
  intros. unfold post_linprog, gen_lp_chain, gen_lp_default. cbn [o_status decide cond_holds].
  destruct (r_success r); [tauto|].
  repeat match goal with |- context [Z.eqb ?a ?b] => destruct (Z.eqb a b) end; split; intro H; discriminate H.
Qed.

(* linprog status map is the documented one *)
Theorem lp_status_map : forall maximize c0 names r, r_success r = false ->
  o_status (post_linprog gen_lp_chain gen_lp_default maximize c0 names r) =
  if Z.eqb (r_status r) 2 then INFEASIBLE else if Z.eqb (r_status r) 3 then UNBOUNDED
  else if Z.eqb (r_status r) 1 then MAX_ITERATIONS else FAILED.
Proof.
  intros maximize c0 names r Hs. unfold post_linprog, gen_lp_chain, gen_lp_default.
  cbn [o_status decide cond_holds]. rewrite Hs. reflexivity.
Qed.

(* ---- C07: reported objective and values ---- *)

(* NLP path: the reported objective undoes the sign flip exactly *)
Theorem nlp_objective_sign : forall maximize V r viol calls f,
  r_fun r = Some f ->
  o_objective (finish gen_status_chain gen_status_default maximize V r viol calls) = Some (if maximize then - f else f).
Proof. intros. unfold finish. cbn. rewrite H. reflexivity. Qed.

(* if the oracle's fun is s * obj(x) (what it was handed), the report is obj(x) *)
Theorem nlp_objective_value : forall (maximize : bool) V r viol calls (objx : Q),
  r_fun r = Some (if maximize then - objx else objx) ->
  exists o, o_objective (finish gen_status_chain gen_status_default maximize V r viol calls) = Some o /\ o == objx.
Proof.
  intros. unfold finish. cbn. rewrite H. destruct maximize; eexists; split; try reflexivity. apply Qopp_involutive.
Qed.

(* values: exactly one entry per problem variable, in the problem's order *)
Theorem values_keys : forall maximize V r viol calls x,
  r_x r = Some x -> List.length x = List.length V ->
  map fst (o_values (finish gen_status_chain gen_status_default maximize V r viol calls)) = V.
Proof.
  intros maximize V r viol calls x Hx Hl. unfold finish. cbn. rewrite Hx. clear Hx.
  revert x Hl. clear. induction V as [|v V IH]; intros [|a x] Hl; simpl in *; try discriminate; auto.
  f_equal. apply IH. lia.
Qed.

Theorem lp_values_keys : forall maximize c0 names r x,
  r_x r = Some x -> List.length x = List.length names ->
  map fst (o_values (post_linprog gen_lp_chain gen_lp_default maximize c0 names r)) = names.
Proof.
  intros maximize c0 names r x Hx Hl. unfold post_linprog. cbn. rewrite Hx. clear Hx.
  revert x Hl. clear. induction names as [|v V IH]; intros [|a x] Hl; simpl in *; try discriminate; auto.
  f_equal. apply IH. lia.
Qed.

Theorem lp_objective_value : forall maximize c0 names r f,
  r_fun r = Some f ->
  o_objective (post_linprog gen_lp_chain gen_lp_default maximize c0 names r) = Some ((if maximize then - f else f) + c0).
Proof. intros. unfold post_linprog. cbn. rewrite H. reflexivity. Qed.

(* ---- C09: what is handed to scipy.optimize.minimize ---- *)

Lemma Qle_bool_false : forall a b, Qle_bool a b = false -> b < a.
Proof. intros a b H. apply Qnot_le_lt. intro Hle. apply Qle_bool_iff in Hle. congruence. Qed.

(* the default starting point respects the declared bounds *)
Ltac qle_hyps :=
  repeat match goal with
         | H : Qle_bool _ _ = true |- _ => apply Qle_bool_iff in H
         | H : Qle_bool _ _ = false |- _ => apply Qle_bool_false in H
         end.

Lemma half_between : forall l u : Q, l <= u -> l <= (l + u) / 2 /\ (l + u) / 2 <= u.
Proof.
  intros l u H. assert (E : (l + u) / 2 == (1 # 2) * (l + u)) by field.
  rewrite E. split; lra.
Qed.

Theorem initial_point_within_bounds : forall b,
  (forall l u, b = (Some l, Some u) -> l <= u -> l <= initial_coord b /\ initial_coord b <= u) /\
  (forall l, b = (Some l, None) -> l <= initial_coord b) /\
  (forall u, b = (None, Some u) -> initial_coord b <= u).
Proof.
  intros b. split; [|split].
  - intros l u -> Hlu. destruct (half_between l u Hlu) as [H1 H2].
    unfold initial_coord, Qmin, Qmax, eps_interior, frac_interior.
    remember ((l + u) / 2) as h.
    split_ifs; qle_hyps; split; try lra.
  - intros l ->. unfold initial_coord, eps_interior. lra.
  - intros u ->. unfold initial_coord. lra.
Qed.

Theorem initial_point_length : forall bounds, List.length (initial_point bounds) = List.length bounds.
Proof. intros. unfold initial_point. apply map_length. Qed.

(* bounds are handed over exactly for the generated bounds-capable methods *)
Theorem bounds_arg_spec : forall method bounds, bounds <> [] ->
  bounds_arg bounds_methods method bounds = if mem method bounds_methods then Some bounds else None.
Proof. intros method [|b bs] H; [congruence|reflexivity]. Qed.

(* ---- C18: the integrality gate ---- *)
Theorem gate_strict_raises : forall st V, non_continuous st V <> [] ->
  gate st V true = Raise (non_continuous st V).
Proof. intros st V H. unfold gate. destruct (non_continuous st V); congruence. Qed.

Theorem gate_warns : forall st V, non_continuous st V <> [] ->
  gate st V false = Warn (non_continuous st V).
Proof. intros st V H. unfold gate. destruct (non_continuous st V); congruence. Qed.

Theorem gate_pass_iff : forall st V strict, gate st V strict = Pass <-> non_continuous st V = [].
Proof. intros. unfold gate. destruct (non_continuous st V); destruct strict; split; intro H; congruence. Qed.

Theorem non_continuous_exact : forall st V v,
  In v (non_continuous st V) <-> In v V /\ vdom (st v) <> Continuous.
Proof.
  intros. unfold non_continuous. rewrite filter_In. split; intros [H1 H2]; split; auto.
  - destruct (vdom (st v)); congruence.
  - destruct (vdom (st v)); congruence.
Qed.

(* the generated source order: the gate precedes the oracle call in both wrappers *)
Theorem gate_precedes_oracle : gen_gate_before_oracle = (true, true).
Proof. reflexivity. Qed.

(* every method string reaches exactly one of the two wrappers *)
Theorem routing_total : forall is_lp auto_nlp m,
  (exists lm, route_of is_lp auto_nlp m = RouteLP lm) \/ (exists sm, route_of is_lp auto_nlp m = RouteScipy sm).
Proof. intros. unfold route_of. split_ifs; eauto. Qed.

Theorem routing_lp_methods : forall is_lp auto_nlp m,
  In m ["linprog"; "highs"; "highs-ds"; "highs-ipm"]%string ->
  exists lm, route_of is_lp auto_nlp m = RouteLP lm.
Proof.
  intros is_lp auto_nlp m H. simpl in H.
  destruct H as [<-|[<-|[<-|[<-|[]]]]]; vm_compute; eauto.
Qed.

Theorem routing_auto : forall auto_nlp,
  route_of true auto_nlp "auto" = RouteLP None /\ route_of false auto_nlp "auto" = RouteScipy auto_nlp.
Proof. intros. split; reflexivity. Qed.

(* every general derivative path passes through the sanitiser (generated fact) *)
Theorem general_paths_sanitized : forallb snd gen_general_paths_sanitized = true.
Proof. reflexivity. Qed.

(* ---- C07: handles retrieve the right entries ---- *)
Theorem handle_lookup : forall V x i v,
  NoDup V -> List.length x = List.length V -> nth_error V i = Some v ->
  lookup_val (combine V x) v = nth_error x i.
Proof.
  induction V as [|a V IH]; intros x i v Hnd Hl Hi.
  - destruct i; discriminate.
  - destruct x as [|b x]; [discriminate|]. inversion Hnd as [|? ? Hna Hnd']; subst.
    destruct i as [|i]; cbn in *.
    + injection Hi as <-. rewrite String.eqb_refl. reflexivity.
    + destruct (String.eqb a v) eqn:E.
      * apply String.eqb_eq in E. subst. exfalso. apply Hna. eapply nth_error_In; eauto.
      * apply IH; auto.
Qed.

Theorem get_vector_spec : forall V x names,
  NoDup V -> List.length x = List.length V ->
  (forall n, In n names -> In n V) ->
  forall k n, nth_error names k = Some n ->
  exists i, nth_error V i = Some n /\ nth_error (get_vector (combine V x) names) k = Some (nth_error x i).
Proof.
  intros V x names Hnd Hl Hin k n Hk.
  assert (HinV : In n V) by (apply Hin; eapply nth_error_In; eauto).
  apply In_nth_error in HinV. destruct HinV as [i Hi]. exists i. split; auto.
  unfold get_vector. rewrite nth_error_map, Hk. cbn. f_equal. eapply handle_lookup; eauto.
Qed.

Theorem get_matrix_shape : forall vals rows,
  List.length (get_matrix vals rows) = List.length rows /\
  forall i r, nth_error rows i = Some r ->
              exists r', nth_error (get_matrix vals rows) i = Some r' /\ List.length r' = List.length r.
Proof.
  intros. unfold get_matrix. split; [apply map_length|].
  intros i r Hr. rewrite nth_error_map, Hr. eexists; split; [reflexivity|]. unfold get_vector. apply map_length.
Qed.

(* ---- C18: integrality is never relaxed silently ---- *)
Theorem strict_never_reaches_oracle : forall has_obj is_lp auto_nlp st V method,
  non_continuous st V <> [] ->
  oracle_called (solve_front has_obj is_lp auto_nlp st V method true) = false.
Proof.
  intros has_obj is_lp auto_nlp st V method H. unfold solve_front.
  destruct (negb has_obj); auto.
  destruct (route_of is_lp auto_nlp method); [destruct (negb is_lp); auto|destruct V; auto];
    rewrite gate_strict_raises by auto; reflexivity.
Qed.

(* when the request can be served at all (an objective, and a linear model if an LP
   method is forced), strict raises IntegerVariableError naming exactly the
   non-continuous variables, in problem order *)
Theorem strict_raises_integer_error : forall is_lp auto_nlp st V method,
  non_continuous st V <> [] ->
  (forall lm, route_of is_lp auto_nlp method = RouteLP lm -> is_lp = true) ->
  solve_front true is_lp auto_nlp st V method true = SInteger (non_continuous st V).
Proof.
  intros is_lp auto_nlp st V method H Hr. unfold solve_front. cbn [negb].
  destruct (route_of is_lp auto_nlp method) as [lm|sm] eqn:E.
  - rewrite (Hr lm eq_refl). cbn [negb]. rewrite gate_strict_raises by auto. reflexivity.
  - destruct V as [|v V]; [exfalso; apply H; reflexivity|].
    rewrite gate_strict_raises by auto. reflexivity.
Qed.

(* without strict: a warning naming exactly those variables, then the very same
   oracle call as for the relaxed (all-continuous) problem *)
Definition relax (st : store) : store :=
  fun v => {| lb := lb (st v); ub := ub (st v); vdom := Continuous |}.

Lemma relax_continuous : forall st V, non_continuous (relax st) V = [].
Proof. intros. unfold non_continuous, relax. induction V; cbn; auto. Qed.

Theorem nonstrict_warns_and_relaxes : forall has_obj is_lp auto_nlp st V method r ws,
  non_continuous st V <> [] ->
  solve_front has_obj is_lp auto_nlp st V method false = SRan ws r ->
  ws = non_continuous st V /\
  solve_front has_obj is_lp auto_nlp (relax st) V method false = SRan [] r.
Proof.
  intros has_obj is_lp auto_nlp st V method r ws H Hs. unfold solve_front in *.
  destruct (negb has_obj); [discriminate|].
  destruct (route_of is_lp auto_nlp method) as [lm|sm] eqn:E.
  - destruct (negb is_lp); [discriminate|].
    rewrite gate_warns in Hs by auto. injection Hs as <- <-. split; auto.
    assert (Hp : gate (relax st) V false = Pass) by (apply gate_pass_iff, relax_continuous).
    rewrite Hp. reflexivity.
  - destruct V as [|v V]; [discriminate|].
    rewrite gate_warns in Hs by auto. injection Hs as <- <-. split; auto.
    assert (Hp : gate (relax st) (v :: V) false = Pass) by (apply gate_pass_iff, relax_continuous).
    rewrite Hp. reflexivity.
Qed.

(* binary variables always carry [0, 1] *)
Theorem binary_bounds : forall l u, lb (declare l u Binary) = Some 0 /\ ub (declare l u Binary) = Some 1.
Proof. intros. split; reflexivity. Qed.

Theorem declare_keeps_domain : forall l u d, vdom (declare l u d) = d.
Proof. intros l u []; reflexivity. Qed.
