(* LPSpec.v — specification-level reading of "the true LP optimum and status",
   independent of any algorithm: a linear program is a feasible set and an
   objective over real points; its verdict is defined on those alone.  Two data
   sets denoting the same feasible set and objective have the same verdict and
   the same optimal value - so it is immaterial WHICH correct matrix form a
   reference solver is given. *)
From Coq Require Import Reals List Lra.
Open Scope R_scope.

Record lp_den := { feas : list R -> Prop; objf : list R -> R }.

Definition same_lp (a b : lp_den) : Prop :=
  (forall x, feas a x <-> feas b x) /\ (forall x, feas a x -> objf a x = objf b x).

Definition is_min (p : lp_den) (x : list R) : Prop := feas p x /\ forall y, feas p y -> objf p x <= objf p y.
Definition infeasible (p : lp_den) : Prop := forall x, ~ feas p x.
Definition unbounded_below (p : lp_den) : Prop := forall m, exists x, feas p x /\ objf p x < m.
Definition min_value (p : lp_den) (v : R) : Prop := exists x, is_min p x /\ objf p x = v.

Theorem same_lp_min : forall a b x, same_lp a b -> (is_min a x <-> is_min b x).
Proof.
  intros a b x [Hf Ho]. unfold is_min. split; intros [Hx Hy]; split.
  - apply Hf; auto.
  - intros y Hyb. rewrite <- (Ho x Hx), <- (Ho y (proj2 (Hf y) Hyb)). apply Hy, Hf; auto.
  - apply Hf; auto.
  - intros y Hya. rewrite (Ho x (proj2 (Hf x) Hx)), (Ho y Hya). apply Hy, Hf; auto.
Qed.

Theorem same_lp_infeasible : forall a b, same_lp a b -> (infeasible a <-> infeasible b).
Proof. intros a b [Hf _]. unfold infeasible. split; intros H x Hx; apply (H x), Hf; auto. Qed.

Theorem same_lp_unbounded : forall a b, same_lp a b -> (unbounded_below a <-> unbounded_below b).
Proof.
  intros a b [Hf Ho]. unfold unbounded_below. split; intros H m; destruct (H m) as [x [Hx Hm]]; exists x; split.
  - apply Hf; auto.
  - rewrite <- (Ho x Hx); auto.
  - apply Hf; auto.
  - rewrite (Ho x (proj2 (Hf x) Hx)); auto.
Qed.

Theorem same_lp_value : forall a b v, same_lp a b -> (min_value a v <-> min_value b v).
Proof.
  intros a b v H. pose proof H as [Hf Ho]. unfold min_value. split; intros [x [Hm Hv]]; exists x; split.
  - apply (same_lp_min a b x H); auto.
  - destruct Hm as [Hx _]. rewrite <- (Ho x Hx); auto.
  - apply (same_lp_min a b x H); auto.
  - destruct Hm as [Hx _]. rewrite (Ho x (proj2 (Hf x) Hx)); auto.
Qed.

(* maximise f  =  - minimise (-f): the orientation handling of the wrapper *)
Definition negate (p : lp_den) : lp_den := {| feas := feas p; objf := fun x => - objf p x |}.
Definition is_max (p : lp_den) (x : list R) : Prop := feas p x /\ forall y, feas p y -> objf p y <= objf p x.

Theorem max_is_min_of_negation : forall p x, is_max p x <-> is_min (negate p) x.
Proof.
  intros p x. unfold is_max, is_min, negate; cbn. split; intros [Hx H]; split; auto; intros y Hy; specialize (H y Hy); lra.
Qed.

Theorem max_value_sign : forall p x, is_min (negate p) x -> objf p x = - objf (negate p) x.
Proof. intros. cbn. lra. Qed.
