(* Fault.v — a solve with a fault injected at an arbitrary point.
   Mirrors the control structure of solvers/scipy_solver.py solve_scipy
     variables -> integrality gate -> build solver cache (assigned only AFTER the
     builder returns) -> lazily add hess_fn (assigned only after it is compiled) ->
     save warnings.showwarning -> try: install handler; call minimize (callbacks run
     inside) / except Exception: restore hook, return FAILED / finally: restore hook
     -> post-processing
   of solvers/lp_solver.py solve_lp (try: linprog / except Exception: FAILED), and of
   autodiff.py increased_recursion_limit (try/finally bracket).
   Python's exception lattice matters: ValueError, FloatingPointError and MemoryError
   are Exceptions (caught by `except Exception`), KeyboardInterrupt is not.
   No proofs here (see FaultProofs.v). *)
From Coq Require Import String List Arith Bool.
Import ListNotations.

Inductive exc := ValueError | FloatingPointError | MemoryError | KeyboardInterrupt.
Definition is_exception (e : exc) : bool :=
  match e with KeyboardInterrupt => false | _ => true end.

(* where the fault strikes during solve_scipy *)
Inductive phase :=
| PVariables          (* while discovering variables *)
| PGate               (* the integrality gate itself raises (strict) - modelled as a fault *)
| PBuildCache         (* inside _build_solver_cache (a compile raises) *)
| PBuildHess          (* inside compile_hessian *)
| PBeforeTry          (* after the hook was saved, before the try block *)
| POracle             (* inside minimize: solver entry, any callback evaluation, solver exit *)
| PPost.              (* after the finally: feasibility scan / result mapping *)

(* process-global state and the per-problem cache flags *)
Record world := {
  hook : nat;                 (* identity of warnings.showwarning *)
  vars_cached : bool; solver_cached : bool; hess_cached : bool
}.

Inductive outcome := Returned_OK | Returned_FAILED | Propagated (e : exc).

Definition handler_id : nat := 1000.   (* the temporary warning handler *)

(* needs_hess: the method is Hessian-capable and hess_fn is not cached yet *)
Definition solve_scipy (w : world) (needs_hess : bool) (fault : option (phase * exc)) : world * outcome :=
  let at_ p := match fault with Some (q, e) => if (match p, q with
                                                   | PVariables, PVariables | PGate, PGate | PBuildCache, PBuildCache
                                                   | PBuildHess, PBuildHess | PBeforeTry, PBeforeTry | POracle, POracle
                                                   | PPost, PPost => true | _, _ => false end) then Some e else None
                              | None => None end in
  match at_ PVariables with
  | Some e => (w, Propagated e)
  | None =>
    let w1 := {| hook := hook w; vars_cached := true; solver_cached := solver_cached w; hess_cached := hess_cached w |} in
    match at_ PGate with
    | Some e => (w1, Propagated e)
    | None =>
      match (if solver_cached w1 then None else at_ PBuildCache) with
      | Some e => (w1, Propagated e)                       (* cache assigned only after the builder returns *)
      | None =>
        let w2 := {| hook := hook w1; vars_cached := true; solver_cached := true; hess_cached := hess_cached w1 |} in
        match (if needs_hess && negb (hess_cached w2) then at_ PBuildHess else None) with
        | Some e => (w2, Propagated e)                     (* hess_fn assigned only after compile_hessian returns *)
        | None =>
          let w3 := {| hook := hook w2; vars_cached := true; solver_cached := true;
                       hess_cached := hess_cached w2 || needs_hess |} in
          let saved := hook w3 in
          match at_ PBeforeTry with
          | Some e => (w3, Propagated e)                   (* hook not yet replaced *)
          | None =>
            (* try: warnings.showwarning = handler; minimize(...) *)
            let w4 := {| hook := handler_id; vars_cached := true; solver_cached := true; hess_cached := hess_cached w3 |} in
            let restored := {| hook := saved; vars_cached := true; solver_cached := true; hess_cached := hess_cached w3 |} in
            match at_ POracle with
            | Some e =>
                if is_exception e
                then (restored, Returned_FAILED)           (* except Exception: restore; return FAILED; finally: restore *)
                else (restored, Propagated e)              (* finally: restore; propagate *)
            | None =>
                (* finally: restore *)
                match at_ PPost with
                | Some e => (restored, Propagated e)
                | None => (restored, Returned_OK)
                end
            end
          end
        end
      end
    end
  end.

(* solve_lp: no global state is touched; only the linprog call is guarded *)
Inductive lp_phase := LValidate | LExtract | LOracle.
Definition solve_lp (w : world) (fault : option (lp_phase * exc)) : world * outcome :=
  match fault with
  | Some (LOracle, e) => if is_exception e then (w, Returned_FAILED) else (w, Propagated e)
  | Some (_, e) => (w, Propagated e)
  | None => (w, Returned_OK)
  end.

(* a solve nested inside a callback of an outer solve: the inner one sees the outer
   handler as the current hook and must restore exactly that *)
Definition nested (w : world) (needs_hess : bool) (inner_fault outer_fault : option (phase * exc)) : world * outcome :=
  let w_in := {| hook := handler_id; vars_cached := true; solver_cached := true; hess_cached := hess_cached w || needs_hess |} in
  let '(w_after_inner, _) := solve_scipy w_in needs_hess inner_fault in
  (* the outer solve continues (or faults) and finally restores ITS saved hook *)
  let saved := hook w in
  let restored := {| hook := saved; vars_cached := true; solver_cached := true; hess_cached := hess_cached w_after_inner |} in
  match outer_fault with
  | Some (_, e) => if is_exception e then (restored, Returned_FAILED) else (restored, Propagated e)
  | None => (restored, Returned_OK)
  end.

(* increased_recursion_limit(limit): old = get(); try: set(limit); yield; finally: set(old) *)
Inductive rl_fault := RLNone | RLBody (e : exc) | RLSet (e : exc).
Definition with_recursion_limit (current limit : nat) (fault : rl_fault) : nat * outcome :=
  match fault with
  | RLNone => (current, Returned_OK)
  | RLBody e => (current, Propagated e)          (* finally restores *)
  | RLSet e => (current, Propagated e)           (* the set itself failed inside try: finally still sets old *)
  end.
