(* ConstraintProofs.v — C10: constraints mean the relation the user wrote. *)
From Coq Require Import String List Arith Bool QArith Reals Qreals Lra Lia.
From Coquelicot Require Import Coquelicot.
From Optyx Require Import Syntax SemR Linear SolveWrap Constraint.
Import ListNotations.
Close Scope Q_scope.
Open Scope R_scope.

Lemma evalR_make : forall rho penv lhs s rhs,
  evalR rho penv (fst (make_constraint lhs s rhs)) = evalR rho penv lhs - evalR rho penv rhs.
Proof. intros. reflexivity. Qed.

(* reported violation is the amount by which the stated relation fails *)
Theorem violation_meaning : forall rho penv lhs s rhs,
  let L := evalR rho penv lhs in let R := evalR rho penv rhs in
  violationR s (evalR rho penv (fst (make_constraint lhs s rhs))) =
  match s with
  | Le => Rmax 0 (L - R)
  | Ge => Rmax 0 (R - L)
  | Eq => Rabs (L - R)
  end.
Proof.
  intros rho penv lhs s rhs L R. rewrite evalR_make. fold L R. destruct s; cbn [violationR]; try reflexivity.
  f_equal. lra.
Qed.

Theorem violation_nonneg : forall s v, 0 <= violationR s v.
Proof. intros [] v; cbn [violationR]; try apply Rmax_l. apply Rabs_pos. Qed.

(* satisfied (within tol >= 0) exactly when the relation holds within tol *)
Theorem satisfied_iff : forall s (L R tol : R), 0 <= tol ->
  (satisfiedR s (L - R) tol <->
   match s with
   | Le => L <= R + tol
   | Ge => L + tol >= R
   | Eq => Rabs (L - R) <= tol
   end).
Proof.
  intros s L R tol Ht. unfold satisfiedR. destruct s; cbn [violationR].
  - unfold Rmax. destruct (Rle_dec 0 (L - R)); split; intro; lra.
  - unfold Rmax. destruct (Rle_dec 0 (- (L - R))); split; intro; lra.
  - tauto.
Qed.

Corollary violation_zero_iff : forall s (L R : R),
  violationR s (L - R) = 0 <-> match s with Le => L <= R | Ge => L >= R | Eq => L = R end.
Proof.
  intros s L R. destruct s; cbn [violationR].
  - unfold Rmax. destruct (Rle_dec 0 (L - R)); split; intro; lra.
  - unfold Rmax. destruct (Rle_dec 0 (- (L - R))); split; intro; lra.
  - split; intro H.
    + destruct (Req_dec (L - R) 0) as [E|E]; [lra|]. apply Rabs_no_R0 in E. lra.
    + replace (L - R) with 0 by lra. apply Rabs_R0.
Qed.

(* the function handed to SciPy is non-negative (zero for equalities) exactly on the feasible set *)
Theorem dict_feasible_iff : forall s (L R : R),
  match dict_type s with
  | Ineq => 0 <= dict_fun s (L - R)
  | EqC => dict_fun s (L - R) = 0
  end <-> match s with Le => L <= R | Ge => L >= R | Eq => L = R end.
Proof. intros [] L R; cbn [dict_type dict_fun]; split; intro; lra. Qed.

(* the Jacobian handed over is the derivative of the function handed over *)
Theorem dict_jac_is_derivative : forall s (f : R -> R) (x df : R),
  is_derive f x df ->
  is_derive (fun t => dict_fun s (f t)) x (match s with Le => - df | _ => df end).
Proof.
  intros s f x df H. destruct s; cbn [dict_fun]; auto.
  apply (is_derive_opp f x df H).
Qed.

Theorem dict_jac_entry : forall s row i,
  nth i (dict_jac s row) 0 = match s with Le => - nth i row 0 | _ => nth i row 0 end.
Proof.
  intros s row i. destruct s; cbn [dict_jac]; auto.
  revert i. induction row as [|a r IH]; intros [|i]; simpl; auto; lra.
Qed.

(* element-wise builders: one constraint per element, never a silent truncation *)
Theorem vector_constraint_elementwise : forall ls s rs cs,
  vector_constraint ls s (OVector rs) = Built cs ->
  List.length cs = List.length ls /\ List.length rs = List.length ls /\
  forall i l r, nth_error ls i = Some l -> nth_error rs i = Some r ->
                nth_error cs i = Some (make_constraint l s r).
Proof.
  intros ls s rs cs H. unfold vector_constraint in H.
  destruct (Nat.eqb (List.length rs) (List.length ls)) eqn:E; [|discriminate].
  apply Nat.eqb_eq in E. injection H as <-. split; [|split; auto].
  - rewrite map_length, combine_length. lia.
  - intros i l r Hl Hr. rewrite nth_error_map.
    assert (Hc : nth_error (combine ls rs) i = Some (l, r)).
    { clear E. revert rs i Hl Hr. induction ls as [|a ls IH]; intros [|b rs] [|i] Hl Hr; simpl in *; try discriminate.
      - congruence.
      - apply IH; auto. }
    rewrite Hc. reflexivity.
Qed.

Theorem vector_constraint_scalar : forall ls s q,
  vector_constraint ls s (OScalar q) = Built (map (fun l => make_constraint l s (Const q)) ls).
Proof. reflexivity. Qed.

Theorem vector_constraint_mismatch : forall ls s rs,
  List.length rs <> List.length ls -> vector_constraint ls s (OVector rs) = DimMismatch.
Proof.
  intros ls s rs H. unfold vector_constraint.
  destruct (Nat.eqb (List.length rs) (List.length ls)) eqn:E; auto. apply Nat.eqb_eq in E. contradiction.
Qed.

(* reflected comparison: k <= e is e >= k, denoting the same relation *)
Theorem flip_meaning : forall s (L R : R),
  match flip s with Le => R <= L | Ge => R >= L | Eq => R = L end <->
  match s with Le => L <= R | Ge => L >= R | Eq => L = R end.
Proof. intros [] L R; cbn [flip]; split; intro; lra. Qed.

Example nonvacuous : violationR Le (3 - 1) = 2 /\ violationR Ge (3 - 1) = 0 /\ violationR Eq (1 - 3) = 2.
Proof.
  cbn [violationR]. repeat split.
  - unfold Rmax. destruct (Rle_dec 0 (3 - 1)); lra.
  - unfold Rmax. destruct (Rle_dec 0 (- (3 - 1))); lra.
  - replace (1 - 3) with (- (2)) by lra. rewrite Rabs_Ropp. apply Rabs_pos_eq. lra.
Qed.

(* the list handed to SciPy: one dict per written relation, position by position, and the points SciPy may return
   are exactly those at which EVERY written relation holds *)
Theorem handover_length : forall cs, List.length (scipy_constraints cs) = List.length cs.
Proof. intro cs. unfold scipy_constraints. apply map_length. Qed.

Theorem handover_nth : forall cs i c, nth_error cs i = Some c ->
  nth_error (scipy_constraints cs) i = Some (dict_type (snd c), c).
Proof. intros cs i c H. unfold scipy_constraints. rewrite nth_error_map, H. reflexivity. Qed.

Lemma dict_accepts_iff : forall rho penv c, dict_accepts rho penv (dict_of c) <-> relation_holds rho penv c.
Proof.
  intros rho penv [e s]. unfold dict_accepts, relation_holds, dict_of. cbn [fst snd].
  destruct s; cbn [dict_type dict_fun]; split; intro; lra.
Qed.

Theorem handover_feasible_iff : forall rho penv cs,
  List.Forall (dict_accepts rho penv) (scipy_constraints cs) <-> List.Forall (relation_holds rho penv) cs.
Proof.
  intros rho penv cs. unfold scipy_constraints. rewrite List.Forall_map.
  split; intro H; eapply List.Forall_impl; try exact H; intros c Hc; apply dict_accepts_iff; exact Hc.
Qed.

