(* VarsProofs.v — property C16: the variables of a problem are exactly the
   distinct variables occurring in objective and constraints, in natural
   (numeric-aware) name order, independent of construction order and of the
   single-vector shortcut; bounds are those declared.
   Proofs about the models in Vars.v.  No axioms. *)
From Coq Require Import String Ascii List Arith Bool NArith QArith Lia.
From Coq Require Import Permutation Sorting.Sorted.
Close Scope Q_scope.
From Optyx Require Import Syntax Occ Vars ExprInd.
Import ListNotations.
Open Scope nat_scope.

(* ================================================================== *)
(** * 1. Comparison functions that are total orders                    *)
(* ================================================================== *)

Record cmp_order {A : Type} (c : A -> A -> comparison) : Prop := {
  co_eq    : forall x y, c x y = Eq <-> x = y;
  co_anti  : forall x y, c y x = CompOpp (c x y);
  co_trans : forall x y z, c x y = Lt -> c y z = Lt -> c x z = Lt
}.

Lemma co_refl {A} (c : A -> A -> comparison) (Hc : cmp_order c) :
  forall x, c x x = Eq.
Proof. intros x. apply (co_eq c Hc). reflexivity. Qed.

(* one lexicographic step: compare heads with [c], fall through to [r] on Eq *)
Definition lex (h r : comparison) : comparison :=
  match h with Eq => r | ne => ne end.

Lemma lex_eq_iff : forall h r, lex h r = Eq <-> h = Eq /\ r = Eq.
Proof.
  intros h r. destruct h; simpl; split.
  - intros Hr. split; [reflexivity | exact Hr].
  - intros [_ Hr]. exact Hr.
  - intros Hd. discriminate Hd.
  - intros [Hd _]. discriminate Hd.
  - intros Hd. discriminate Hd.
  - intros [Hd _]. discriminate Hd.
Qed.

Lemma lex_anti {A} (c : A -> A -> comparison) (Hc : cmp_order c) :
  forall x y r r', r' = CompOpp r -> lex (c y x) r' = CompOpp (lex (c x y) r).
Proof.
  intros x y r r' Hr. rewrite (co_anti c Hc x y).
  destruct (c x y); simpl; [exact Hr | reflexivity | reflexivity].
Qed.

Lemma lex_trans {A} (c : A -> A -> comparison) (Hc : cmp_order c) :
  forall x y z r1 r2 r3,
    (r1 = Lt -> r2 = Lt -> r3 = Lt) ->
    lex (c x y) r1 = Lt -> lex (c y z) r2 = Lt -> lex (c x z) r3 = Lt.
Proof.
  intros x y z r1 r2 r3 Hr H1 H2.
  destruct (c x y) eqn:E1; destruct (c y z) eqn:E2; simpl in H1, H2;
    try discriminate H1; try discriminate H2.
  - apply (co_eq c Hc) in E1. apply (co_eq c Hc) in E2. subst y. subst z.
    rewrite (co_refl c Hc). simpl. apply Hr; assumption.
  - apply (co_eq c Hc) in E1. subst y. rewrite E2. reflexivity.
  - apply (co_eq c Hc) in E2. subst z. rewrite E1. reflexivity.
  - rewrite (co_trans c Hc x y z E1 E2). reflexivity.
Qed.

(* ---- N, ascii, string ---- *)
Lemma N_cmp_order : cmp_order N.compare.
Proof.
  constructor.
  - intros x y. apply N.compare_eq_iff.
  - intros x y. apply N.compare_antisym.
  - intros x y z H1 H2. rewrite N.compare_lt_iff in *. eapply N.lt_trans; eassumption.
Qed.

Lemma ascii_cmp_order : cmp_order Ascii.compare.
Proof.
  constructor.
  - intros x y. split.
    + apply Ascii.compare_eq_iff.
    + intros Hxy. subst y. unfold Ascii.compare. apply N.compare_refl.
  - intros x y. apply Ascii.compare_antisym.
  - intros x y z. unfold Ascii.compare. apply (co_trans _ N_cmp_order).
Qed.

Lemma string_compare_unfold : forall c1 s1 c2 s2,
  String.compare (String c1 s1) (String c2 s2)
  = lex (Ascii.compare c1 c2) (String.compare s1 s2).
Proof. intros c1 s1 c2 s2. simpl. destruct (Ascii.compare c1 c2); reflexivity. Qed.

Lemma string_compare_refl : forall s, String.compare s s = Eq.
Proof.
  induction s as [|a s IHs]; [reflexivity|].
  rewrite string_compare_unfold, (co_refl _ ascii_cmp_order). exact IHs.
Qed.

Lemma string_compare_trans : forall x y z,
  String.compare x y = Lt -> String.compare y z = Lt -> String.compare x z = Lt.
Proof.
  induction x as [|a x IHx]; intros y z H1 H2; destruct y as [|b y]; destruct z as [|d z];
    try discriminate H1; try discriminate H2; try reflexivity.
  rewrite string_compare_unfold in *.
  eapply (lex_trans _ ascii_cmp_order); [apply (IHx y z) | exact H1 | exact H2].
Qed.

Lemma string_cmp_order : cmp_order String.compare.
Proof.
  constructor.
  - intros x y. split.
    + apply String.compare_eq_iff.
    + intros Hxy. subst y. apply string_compare_refl.
  - intros x y. apply String.compare_antisym.
  - exact string_compare_trans.
Qed.

(* ---- parts and keys: total orders on ALL part lists (no alternation
        hypothesis needed: PText < PNum is a consistent convention) ---- *)
Lemma part_cmp_order : cmp_order part_cmp.
Proof.
  constructor.
  - intros [x|x] [y|y]; simpl.
    + rewrite (co_eq _ string_cmp_order). split; intros Hxy; [subst; reflexivity | inversion Hxy; reflexivity].
    + split; intros Hd; discriminate Hd.
    + split; intros Hd; discriminate Hd.
    + rewrite (co_eq _ N_cmp_order). split; intros Hxy; [subst; reflexivity | inversion Hxy; reflexivity].
  - intros [x|x] [y|y]; simpl; try reflexivity.
    + apply (co_anti _ string_cmp_order).
    + apply (co_anti _ N_cmp_order).
  - intros [x|x] [y|y] [z|z] H1 H2; simpl in *;
      try discriminate H1; try discriminate H2; try reflexivity.
    + eapply (co_trans _ string_cmp_order); eassumption.
    + eapply (co_trans _ N_cmp_order); eassumption.
Qed.

Lemma key_cmp_unfold : forall x a y b,
  key_cmp (x :: a) (y :: b) = lex (part_cmp x y) (key_cmp a b).
Proof. intros x a y b. simpl. destruct (part_cmp x y); reflexivity. Qed.

Lemma key_cmp_order : cmp_order key_cmp.
Proof.
  constructor.
  - induction x as [|p x IHx]; intros [|q y].
    + split; reflexivity.
    + split; intros Hd; discriminate Hd.
    + split; intros Hd; discriminate Hd.
    + rewrite key_cmp_unfold, lex_eq_iff, (co_eq _ part_cmp_order), IHx.
      split.
      * intros [Hp Hx]. subst. reflexivity.
      * intros Hpx. inversion Hpx. split; reflexivity.
  - induction x as [|p x IHx]; intros [|q y]; try reflexivity.
    rewrite !key_cmp_unfold. apply (lex_anti _ part_cmp_order). apply IHx.
  - induction x as [|p x IHx]; intros [|q y] [|r z] H1 H2;
      try discriminate H1; try discriminate H2; try reflexivity.
    rewrite key_cmp_unfold in *.
    eapply (lex_trans _ part_cmp_order); [apply (IHx y z) | exact H1 | exact H2].
Qed.

(* ---- var_cmp ---- *)
Lemma var_cmp_unfold : forall x y,
  var_cmp x y = lex (key_cmp (sort_key x) (sort_key y)) (String.compare x y).
Proof. intros x y. unfold var_cmp. destruct (key_cmp (sort_key x) (sort_key y)); reflexivity. Qed.

Theorem var_cmp_eq_iff : forall x y, var_cmp x y = Eq <-> x = y.
Proof.
  intros x y. rewrite var_cmp_unfold, lex_eq_iff. split.
  - intros [_ Hs]. apply String.compare_eq_iff. exact Hs.
  - intros Hxy. subst y. split.
    + apply (co_refl _ key_cmp_order).
    + apply string_compare_refl.
Qed.

Theorem var_cmp_antisym : forall x y, var_cmp y x = CompOpp (var_cmp x y).
Proof.
  intros x y. rewrite !var_cmp_unfold.
  apply (lex_anti _ key_cmp_order). apply String.compare_antisym.
Qed.

Theorem var_cmp_lt_trans : forall x y z,
  var_cmp x y = Lt -> var_cmp y z = Lt -> var_cmp x z = Lt.
Proof.
  intros x y z H1 H2. rewrite var_cmp_unfold in *.
  eapply (lex_trans _ key_cmp_order);
    [apply (string_compare_trans x y z) | exact H1 | exact H2].
Qed.

Theorem var_cmp_order : cmp_order var_cmp.
Proof.
  constructor.
  - exact var_cmp_eq_iff.
  - exact var_cmp_antisym.
  - exact var_cmp_lt_trans.
Qed.

(* ---- var_leb: reflexive, antisymmetric, transitive, total ---- *)
Definition var_le (a b : string) : Prop := var_leb a b = true.

Theorem var_leb_refl : forall x, var_leb x x = true.
Proof.
  intros x. unfold var_leb. rewrite (co_refl _ var_cmp_order). reflexivity.
Qed.

Theorem var_leb_total : forall x y, var_leb x y = true \/ var_leb y x = true.
Proof.
  intros x y. unfold var_leb. rewrite (var_cmp_antisym x y).
  destruct (var_cmp x y); simpl; auto.
Qed.

Theorem var_leb_antisym : forall x y,
  var_leb x y = true -> var_leb y x = true -> x = y.
Proof.
  intros x y. unfold var_leb. rewrite (var_cmp_antisym x y).
  destruct (var_cmp x y) eqn:E; simpl; intros H1 H2.
  - apply var_cmp_eq_iff. exact E.
  - discriminate H2.
  - discriminate H1.
Qed.

Theorem var_leb_trans : forall x y z,
  var_leb x y = true -> var_leb y z = true -> var_leb x z = true.
Proof.
  intros x y z. unfold var_leb.
  destruct (var_cmp x y) eqn:E1; intros H1; [| |discriminate H1].
  - apply var_cmp_eq_iff in E1. subst y. intros H2. exact H2.
  - destruct (var_cmp y z) eqn:E2; intros H2; [| |discriminate H2].
    + apply var_cmp_eq_iff in E2. subst z. rewrite E1. reflexivity.
    + rewrite (var_cmp_lt_trans x y z E1 E2). reflexivity.
Qed.

Lemma var_leb_false_flip : forall x y, var_leb x y = false -> var_leb y x = true.
Proof.
  intros x y Hxy. destruct (var_leb_total x y) as [H|H]; [congruence | exact H].
Qed.

(* ---- the mixed text/number convention of [part_cmp] is never exercised on
        keys of names: keys alternate text, number, text, ... so positions
        align (Python would raise TypeError on a str/int comparison) ---- *)
Fixpoint alternating (want_text : bool) (k : list part) : bool :=
  match k with
  | [] => true
  | PText _ :: r => want_text && alternating false r
  | PNum _ :: r => negb want_text && alternating true r
  end.

Lemma split_from_alternating : forall s txt,
  alternating true (split_from s txt None) = true /\
  forall n, alternating false (split_from s txt (Some n)) = true.
Proof.
  induction s as [|c s IHs]; intros txt.
  - split; [reflexivity | intros n; reflexivity].
  - simpl. destruct (is_digit c).
    + split.
      * simpl. apply (proj2 (IHs ""%string)).
      * intros n. apply (proj2 (IHs ""%string)).
    + split.
      * apply (proj1 (IHs _)).
      * intros n. simpl. apply (proj1 (IHs _)).
Qed.

Theorem sort_key_alternating : forall s, alternating true (sort_key s) = true.
Proof. intros s. apply (proj1 (split_from_alternating s ""%string)). Qed.

Definition part_cmp_strict (a b : part) : option comparison :=
  match a, b with
  | PText x, PText y => Some (String.compare x y)
  | PNum x, PNum y => Some (N.compare x y)
  | _, _ => None                                  (* TypeError in Python *)
  end.

Fixpoint key_cmp_strict (a b : list part) : option comparison :=
  match a, b with
  | [], [] => Some Eq
  | [], _ :: _ => Some Lt
  | _ :: _, [] => Some Gt
  | x :: a', y :: b' =>
      match part_cmp_strict x y with
      | Some Eq => key_cmp_strict a' b'
      | o => o
      end
  end.

Lemma key_cmp_strict_alternating : forall a b w,
  alternating w a = true -> alternating w b = true ->
  key_cmp_strict a b = Some (key_cmp a b).
Proof.
  induction a as [|x a IHa]; intros [|y b] w Ha Hb; try reflexivity.
  destruct x as [x|x]; destruct y as [y|y]; simpl in Ha, Hb;
    apply andb_true_iff in Ha; apply andb_true_iff in Hb;
    destruct Ha as [Hw Ha]; destruct Hb as [Hw' Hb].
  - simpl. destruct (String.compare x y); try reflexivity. eapply IHa; eassumption.
  - destruct w; discriminate.
  - destruct w; discriminate.
  - simpl. destruct (N.compare x y); try reflexivity. eapply IHa; eassumption.
Qed.

Theorem sort_key_never_mixed : forall x y,
  key_cmp_strict (sort_key x) (sort_key y) = Some (key_cmp (sort_key x) (sort_key y)).
Proof.
  intros x y. apply (key_cmp_strict_alternating _ _ true); apply sort_key_alternating.
Qed.

(* ================================================================== *)
(** * 2. sort_vars is a correct, deterministic sort                    *)
(* ================================================================== *)

Lemma insert_perm : forall x l, Permutation (insert x l) (x :: l).
Proof.
  intros x l. induction l as [|y r IHr]; simpl.
  - apply Permutation_refl.
  - destruct (var_leb x y).
    + apply Permutation_refl.
    + eapply perm_trans; [apply perm_skip; exact IHr | apply perm_swap].
Qed.

Theorem sort_vars_perm : forall l, Permutation (sort_vars l) l.
Proof.
  induction l as [|x r IHr]; simpl.
  - apply perm_nil.
  - eapply perm_trans; [apply insert_perm | apply perm_skip; exact IHr].
Qed.

Lemma insert_sorted : forall x l,
  StronglySorted var_le l -> StronglySorted var_le (insert x l).
Proof.
  intros x l. induction l as [|y r IHr]; intros Hs; simpl.
  - constructor; constructor.
  - apply StronglySorted_inv in Hs. destruct Hs as [Hr Hy].
    destruct (var_leb x y) eqn:Exy.
    + constructor.
      * constructor; assumption.
      * constructor; [exact Exy|].
        eapply Forall_impl; [|exact Hy].
        intros z Hyz. unfold var_le in *. eapply var_leb_trans; eassumption.
    + constructor.
      * apply IHr. exact Hr.
      * eapply (Permutation_Forall (Permutation_sym (insert_perm x r))).
        constructor; [apply var_leb_false_flip; exact Exy | exact Hy].
Qed.

Theorem sort_vars_sorted : forall l, StronglySorted var_le (sort_vars l).
Proof.
  induction l as [|x r IHr]; simpl.
  - constructor.
  - apply insert_sorted. exact IHr.
Qed.

(* Two sorted lists with the same elements are equal.  NoDup is not even
   needed because var_leb is antisymmetric on names. *)
Theorem sorted_unique_strong : forall l1 l2,
  Permutation l1 l2 -> StronglySorted var_le l1 -> StronglySorted var_le l2 -> l1 = l2.
Proof.
  induction l1 as [|a l1 IH]; intros l2 Hp H1 H2.
  - apply Permutation_nil in Hp. symmetry. exact Hp.
  - destruct l2 as [|b l2].
    + apply Permutation_sym, Permutation_nil in Hp. discriminate Hp.
    + apply StronglySorted_inv in H1. destruct H1 as [H1 Ha].
      apply StronglySorted_inv in H2. destruct H2 as [H2 Hb].
      assert (Hab : a = b).
      { assert (Hina : In a (b :: l2)) by (eapply Permutation_in; [exact Hp | left; reflexivity]).
        assert (Hinb : In b (a :: l1))
          by (eapply Permutation_in; [apply Permutation_sym; exact Hp | left; reflexivity]).
        destruct Hina as [Hba | Hina]; [symmetry; exact Hba|].
        destruct Hinb as [Hab | Hinb]; [exact Hab|].
        rewrite Forall_forall in Ha, Hb.
        apply var_leb_antisym; [apply Ha; exact Hinb | apply Hb; exact Hina]. }
      subst b. f_equal. apply IH; [|exact H1|exact H2].
      eapply Permutation_cons_inv. exact Hp.
Qed.

Theorem sorted_unique : forall l1 l2,
  NoDup l1 -> Permutation l1 l2 ->
  StronglySorted var_le l1 -> StronglySorted var_le l2 -> l1 = l2.
Proof. intros l1 l2 _. apply sorted_unique_strong. Qed.

Theorem order_independent_strong : forall l1 l2,
  Permutation l1 l2 -> sort_vars l1 = sort_vars l2.
Proof.
  intros l1 l2 Hp. apply sorted_unique_strong.
  - eapply perm_trans; [apply sort_vars_perm|].
    eapply perm_trans; [exact Hp | apply Permutation_sym, sort_vars_perm].
  - apply sort_vars_sorted.
  - apply sort_vars_sorted.
Qed.

Corollary order_independent : forall l1 l2,
  NoDup l1 -> Permutation l1 l2 -> sort_vars l1 = sort_vars l2.
Proof. intros l1 l2 _. apply order_independent_strong. Qed.

Lemma sort_vars_In : forall l x, In x (sort_vars l) <-> In x l.
Proof.
  intros l x. split; intros H.
  - eapply Permutation_in; [apply sort_vars_perm | exact H].
  - eapply Permutation_in; [apply Permutation_sym, sort_vars_perm | exact H].
Qed.

Lemma sort_vars_NoDup : forall l, NoDup l -> NoDup (sort_vars l).
Proof.
  intros l Hn. eapply Permutation_NoDup; [apply Permutation_sym, sort_vars_perm | exact Hn].
Qed.

(* a sorted list of names is fixed by sort_vars *)
Lemma sort_vars_id : forall l, StronglySorted var_le l -> sort_vars l = l.
Proof.
  intros l Hs. apply sorted_unique_strong;
    [apply sort_vars_perm | apply sort_vars_sorted | exact Hs].
Qed.

(* ================================================================== *)
(** * 3. dedup: one entry per name, same names                         *)
(* ================================================================== *)

Lemma existsb_eqb_In : forall x l, existsb (String.eqb x) l = true <-> In x l.
Proof.
  intros x l. rewrite existsb_exists. split.
  - intros [y [Hin Heq]]. apply String.eqb_eq in Heq. subst y. exact Hin.
  - intros Hin. exists x. split; [exact Hin | apply String.eqb_refl].
Qed.

Theorem dedup_In : forall l x, In x (dedup l) <-> In x l.
Proof.
  induction l as [|a r IHr]; intros x; simpl.
  - reflexivity.
  - destruct (existsb (String.eqb a) r) eqn:Ea.
    + rewrite IHr. split.
      * intros Hin. right. exact Hin.
      * intros [Hax | Hin]; [|exact Hin].
        subst x. apply existsb_eqb_In. exact Ea.
    + simpl. rewrite IHr. reflexivity.
Qed.

Theorem dedup_NoDup : forall l, NoDup (dedup l).
Proof.
  induction l as [|a r IHr]; simpl.
  - constructor.
  - destruct (existsb (String.eqb a) r) eqn:Ea.
    + exact IHr.
    + constructor; [|exact IHr].
      intros Hin. apply (proj1 (dedup_In r a)) in Hin.
      apply (proj2 (existsb_eqb_In a r)) in Hin. rewrite Hin in Ea. discriminate Ea.
Qed.

Definition same_names (xs ys : list string) : Prop := forall v, In v xs <-> In v ys.

Lemma same_names_refl : forall xs, same_names xs xs.
Proof. intros xs v. reflexivity. Qed.

Lemma same_names_sym : forall xs ys, same_names xs ys -> same_names ys xs.
Proof. intros xs ys H v. symmetry. apply H. Qed.

Lemma same_names_trans : forall xs ys zs,
  same_names xs ys -> same_names ys zs -> same_names xs zs.
Proof. intros xs ys zs H1 H2 v. rewrite (H1 v). apply H2. Qed.

(* sorting the de-duplicated list depends only on the SET of names *)
Theorem sort_dedup_ext : forall l1 l2,
  same_names l1 l2 -> sort_vars (dedup l1) = sort_vars (dedup l2).
Proof.
  intros l1 l2 Hs. apply order_independent_strong.
  apply NoDup_Permutation; [apply dedup_NoDup | apply dedup_NoDup |].
  intros x. rewrite !dedup_In. apply Hs.
Qed.

(* ================================================================== *)
(** * 4. The general path is exact, duplicate-free and sorted          *)
(* ================================================================== *)

Definition occurring (obj : option expr) (cons : list expr) : list string :=
  (match obj with Some o => vars o | None => [] end) ++ flat_map vars cons.

Lemma general_path_unfold : forall obj cons,
  general_path obj cons = sort_vars (dedup (occurring obj cons)).
Proof. intros obj cons. reflexivity. Qed.

Theorem general_exact : forall obj cons v,
  In v (general_path obj cons) <->
  In v (match obj with Some o => vars o | None => [] end ++ flat_map vars cons).
Proof.
  intros obj cons v. unfold general_path. rewrite sort_vars_In, dedup_In. reflexivity.
Qed.

Theorem general_NoDup : forall obj cons, NoDup (general_path obj cons).
Proof. intros obj cons. unfold general_path. apply sort_vars_NoDup, dedup_NoDup. Qed.

Theorem general_sorted : forall obj cons, StronglySorted var_le (general_path obj cons).
Proof. intros obj cons. unfold general_path. apply sort_vars_sorted. Qed.

(* the result depends only on the set of occurring names: not on the order of
   constraints, of operands, or on how often a variable is mentioned *)
Theorem general_construction_independent : forall obj cons obj' cons',
  same_names (occurring obj cons) (occurring obj' cons') ->
  general_path obj cons = general_path obj' cons'.
Proof.
  intros obj cons obj' cons' Hs. rewrite !general_path_unfold. apply sort_dedup_ext. exact Hs.
Qed.

Corollary general_perm_constraints : forall obj cons cons',
  Permutation cons cons' -> general_path obj cons = general_path obj cons'.
Proof.
  intros obj cons cons' Hp. apply general_construction_independent.
  intros v. unfold occurring. rewrite !in_app_iff, !in_flat_map.
  split; intros [Ho | [c [Hc Hv]]]; try (left; exact Ho); right; exists c; split; try exact Hv.
  - eapply Permutation_in; [exact Hp | exact Hc].
  - eapply Permutation_in; [apply Permutation_sym; exact Hp | exact Hc].
Qed.

(* ================================================================== *)
(** * 5. The single-vector shortcut agrees with the general path       *)
(* ================================================================== *)

(* (vid, element names) of every vector-variable operand that [source] reads:
   VSum / VPowSum / VUnSum nodes, KVar-tagged operands of LinComb and Dot,
   reached through the nodes [source] recurses into (Bin, Un, VExprSum). *)
Definition kv_entry (k : vkind) (es : list expr) : list (N * list string) :=
  match k with KVar i => [(i, vec_names es)] | KExpr => [] end.

Fixpoint vid_table (e : expr) {struct e} : list (N * list string) :=
  match e with
  | VSum vid xs | VPowSum vid xs _ | VUnSum vid xs _ => [(vid, xs)]
  | LinComb _ k es => kv_entry k es
  | Dot kl ls kr rs => kv_entry kl ls ++ kv_entry kr rs
  | VExprSum es => flat_map vid_table es
  | Bin _ l r => vid_table l ++ vid_table r
  | Un _ a => vid_table a
  | Const _ | Var _ | Param _ | L2n _ _ | L1n _ _ | QForm _ _ _ | MSum _ _ | Frob _ => []
  end.

(* what Python object identity guarantees: one vid, one VectorVariable, one
   element list.  [table_consistent_w] only asks for the same SET of names. *)
Definition table_consistent (T : list (N * list string)) : Prop :=
  forall i xs ys, In (i, xs) T -> In (i, ys) T -> xs = ys.
Definition table_consistent_w (T : list (N * list string)) : Prop :=
  forall i xs ys, In (i, xs) T -> In (i, ys) T -> same_names xs ys.

Definition vid_consistent (es : list expr) : Prop :=
  table_consistent (flat_map vid_table es).
Definition vid_consistent_w (es : list expr) : Prop :=
  table_consistent_w (flat_map vid_table es).

Lemma table_consistent_weaken : forall T, table_consistent T -> table_consistent_w T.
Proof.
  intros T HT i xs ys Hx Hy. rewrite (HT i xs ys Hx Hy). apply same_names_refl.
Qed.

Lemma vid_consistent_weaken : forall es, vid_consistent es -> vid_consistent_w es.
Proof. intros es. apply table_consistent_weaken. Qed.

Lemma table_consistent_w_incl : forall T T',
  incl T' T -> table_consistent_w T -> table_consistent_w T'.
Proof.
  intros T T' Hi HT i xs ys Hx Hy. apply (HT i); apply Hi; assumption.
Qed.

(* ---- merge ---- *)
Lemma merge_none : forall a b, merge a b = SNone -> a = SNone /\ b = SNone.
Proof.
  intros [|i xs|] [|j ys|] H; simpl in H; try discriminate H.
  - split; reflexivity.
  - destruct (N.eqb i j); discriminate H.
Qed.

Lemma merge_one : forall a b i xs,
  merge a b = SOne i xs ->
  (a = SOne i xs /\ b = SNone) \/ (a = SNone /\ b = SOne i xs) \/
  (a = SOne i xs /\ exists ys, b = SOne i ys).
Proof.
  intros [|i' xs'|] [|j ys|] i xs H; simpl in H; try discriminate H.
  - right. left. split; [reflexivity | exact H].
  - left. split; [exact H | reflexivity].
  - destruct (N.eqb i' j) eqn:E; [|discriminate H].
    apply N.eqb_eq in E. subst j. inversion H. subst.
    right. right. split; [reflexivity | exists ys; reflexivity].
Qed.

(* ---- source = SNone: no variables at all ---- *)
Lemma fold_merge_none : forall es,
  Forall (fun e => source e = SNone -> vars e = []) es ->
  fold_right (fun e acc => merge (source e) acc) SNone es = SNone ->
  flat_map vars es = [].
Proof.
  intros es HF. induction HF as [|e es He HF IH]; intros Hm; simpl in *.
  - reflexivity.
  - apply merge_none in Hm. destruct Hm as [Ha Hb].
    rewrite (He Ha), (IH Hb). reflexivity.
Qed.

Theorem source_none_vars : forall e, source e = SNone -> vars e = [].
Proof.
  induction e using expr_ind'; intros Hs; simpl in Hs; try discriminate Hs; try reflexivity.
  - (* Bin *) apply merge_none in Hs. destruct Hs as [Hl Hr]. simpl.
    rewrite (IHe1 Hl), (IHe2 Hr). reflexivity.
  - (* Un *) simpl. apply IHe. exact Hs.
  - (* LinComb *) destruct k; discriminate Hs.
  - (* Dot *) destruct kl as [i|]; destruct kr as [j|]; try discriminate Hs.
    destruct (N.eqb i j); discriminate Hs.
  - (* VExprSum *) simpl. apply fold_merge_none; assumption.
Qed.

(* ---- source = SOne: exactly the names of that vector ---- *)
Definition source_ok (e : expr) : Prop :=
  wf e = true -> table_consistent_w (vid_table e) ->
  forall vid xs, source e = SOne vid xs ->
    same_names (vars e) xs /\ In (vid, xs) (vid_table e).

Lemma merge_spec : forall (va vb : list string) (Ta Tb : list (N * list string)) a b,
  (a = SNone -> va = []) -> (b = SNone -> vb = []) ->
  (forall i xs, a = SOne i xs -> same_names va xs /\ In (i, xs) Ta) ->
  (forall i xs, b = SOne i xs -> same_names vb xs /\ In (i, xs) Tb) ->
  table_consistent_w (Ta ++ Tb) ->
  forall i xs, merge a b = SOne i xs ->
    same_names (va ++ vb) xs /\ In (i, xs) (Ta ++ Tb).
Proof.
  intros va vb Ta Tb a b Na Nb Sa Sb HT i xs Hm.
  apply merge_one in Hm.
  destruct Hm as [[Ha Hb] | [[Ha Hb] | [Ha [ys Hb]]]].
  - destruct (Sa i xs Ha) as [Hva Hin]. rewrite (Nb Hb), app_nil_r.
    split; [exact Hva | apply in_or_app; left; exact Hin].
  - destruct (Sb i xs Hb) as [Hvb Hin]. rewrite (Na Ha). simpl.
    split; [exact Hvb | apply in_or_app; right; exact Hin].
  - destruct (Sa i xs Ha) as [Hva Hina]. destruct (Sb i ys Hb) as [Hvb Hinb].
    assert (Hxy : same_names xs ys).
    { apply (HT i); apply in_or_app; [left; exact Hina | right; exact Hinb]. }
    split; [|apply in_or_app; left; exact Hina].
    intros v. rewrite in_app_iff, (Hva v), (Hvb v), <- (Hxy v). tauto.
Qed.

Lemma is_var_vars : forall es,
  forallb is_var es = true -> flat_map vars es = vec_names es.
Proof.
  induction es as [|e es IH]; intros Hv; simpl in *.
  - reflexivity.
  - apply andb_true_iff in Hv. destruct Hv as [He Hes].
    destruct e; try discriminate He. simpl. rewrite (IH Hes). reflexivity.
Qed.

Lemma fold_merge_spec : forall es,
  Forall source_ok es ->
  forallb wf es = true ->
  table_consistent_w (flat_map vid_table es) ->
  forall vid xs,
    fold_right (fun e acc => merge (source e) acc) SNone es = SOne vid xs ->
    same_names (flat_map vars es) xs /\ In (vid, xs) (flat_map vid_table es).
Proof.
  intros es HF. induction HF as [|e es He HF IH]; intros Hwf HT vid xs Hm; simpl in *.
  - discriminate Hm.
  - apply andb_true_iff in Hwf. destruct Hwf as [Hwe Hwes].
    assert (HTe : table_consistent_w (vid_table e))
      by (eapply table_consistent_w_incl; [apply incl_appl, incl_refl | exact HT]).
    assert (HTes : table_consistent_w (flat_map vid_table es))
      by (eapply table_consistent_w_incl; [apply incl_appr, incl_refl | exact HT]).
    eapply (merge_spec (vars e) (flat_map vars es) (vid_table e) (flat_map vid_table es)
              (source e) _); [ | | | | exact HT | exact Hm].
    + apply source_none_vars.
    + intros Hn. eapply fold_merge_none; [|exact Hn].
      apply Forall_forall. intros x _. apply source_none_vars.
    + apply (He Hwe HTe).
    + apply (IH Hwes HTes).
Qed.

Lemma source_ok_all : forall e, source_ok e.
Proof.
  induction e using expr_ind'; unfold source_ok; intros Hwf HT vid' xs' Hs;
    simpl in Hs; try discriminate Hs.
  - (* Bin *)
    simpl in Hwf. apply andb_true_iff in Hwf. destruct Hwf as [Hw1 Hw2]. simpl in HT |- *.
    assert (HT1 : table_consistent_w (vid_table e1))
      by (eapply table_consistent_w_incl; [apply incl_appl, incl_refl | exact HT]).
    assert (HT2 : table_consistent_w (vid_table e2))
      by (eapply table_consistent_w_incl; [apply incl_appr, incl_refl | exact HT]).
    eapply (merge_spec (vars e1) (vars e2) (vid_table e1) (vid_table e2) (source e1) (source e2));
      [ apply source_none_vars | apply source_none_vars
      | apply (IHe1 Hw1 HT1) | apply (IHe2 Hw2 HT2) | exact HT | exact Hs ].
  - (* Un *) simpl in *. apply (IHe Hwf HT). exact Hs.
  - (* VSum *) inversion Hs. subst. simpl. split; [apply same_names_refl | left; reflexivity].
  - (* LinComb *)
    destruct k as [i|]; [|discriminate Hs]. inversion Hs. subst. clear Hs.
    simpl in Hwf. apply andb_true_iff in Hwf. destruct Hwf as [Hwf _].
    apply andb_true_iff in Hwf. destruct Hwf as [_ Hk].
    apply andb_true_iff in Hk. destruct Hk as [Hv _].
    simpl. rewrite (is_var_vars es Hv).
    split; [apply same_names_refl | left; reflexivity].
  - (* Dot *)
    destruct kl as [i|]; [|discriminate Hs]. destruct kr as [j|]; [|discriminate Hs].
    destruct (N.eqb i j) eqn:Eij; [|discriminate Hs].
    apply N.eqb_eq in Eij. subst j. inversion Hs. subst. clear Hs.
    simpl in Hwf.
    apply andb_true_iff in Hwf. destruct Hwf as [Hwf _].
    apply andb_true_iff in Hwf. destruct Hwf as [Hwf _].
    apply andb_true_iff in Hwf. destruct Hwf as [Hwf Hkr].
    apply andb_true_iff in Hwf. destruct Hwf as [_ Hkl].
    apply andb_true_iff in Hkl. destruct Hkl as [Hvl _].
    apply andb_true_iff in Hkr. destruct Hkr as [Hvr _].
    simpl in HT |- *. rewrite (is_var_vars ls Hvl), (is_var_vars rs Hvr).
    assert (Hlr : same_names (vec_names ls) (vec_names rs)).
    { apply (HT vid'); simpl; [left; reflexivity | right; left; reflexivity]. }
    split; [|left; reflexivity].
    intros v. rewrite in_app_iff, <- (Hlr v). tauto.
  - (* VPowSum *) inversion Hs. subst. simpl. split; [apply same_names_refl | left; reflexivity].
  - (* VUnSum *) inversion Hs. subst. simpl. split; [apply same_names_refl | left; reflexivity].
  - (* VExprSum *)
    simpl in Hwf, HT |- *. apply fold_merge_spec; assumption.
Qed.

(* stated with the weak (set-level) consistency hypothesis ... *)
Theorem source_vars_w : forall e vid xs,
  wf e = true -> table_consistent_w (vid_table e) -> source e = SOne vid xs ->
  (forall v, In v (vars e) <-> In v xs) /\ In (vid, xs) (vid_table e).
Proof. intros e vid xs Hwf HT Hs. apply (source_ok_all e Hwf HT vid xs Hs). Qed.

(* ... and with the list-level one *)
Theorem source_vars : forall e vid xs,
  wf e = true -> vid_consistent [e] -> source e = SOne vid xs ->
  (forall v, In v (vars e) <-> In v xs).
Proof.
  intros e vid xs Hwf HT Hs.
  apply (source_vars_w e vid xs Hwf); [|exact Hs].
  apply table_consistent_weaken. unfold vid_consistent in HT. simpl in HT.
  rewrite app_nil_r in HT. exact HT.
Qed.

(* ---- shortcut ---- *)
Theorem shortcut_eq_general_w : forall obj cons vs,
  wf obj = true -> forallb wf cons = true ->
  vid_consistent_w (obj :: cons) ->
  shortcut (Some obj) cons = Some vs ->
  vs = general_path (Some obj) cons.
Proof.
  intros obj cons vs Hwo Hwc HT Hsc. unfold shortcut in Hsc.
  destruct (source obj) as [|vid xs|] eqn:Eo; try discriminate Hsc.
  match type of Hsc with
  | (if ?b then _ else _) = _ => destruct b eqn:Ef; [|discriminate Hsc]
  end.
  inversion Hsc. subst vs. clear Hsc.
  unfold vid_consistent_w in HT. simpl in HT.
  assert (HTo : table_consistent_w (vid_table obj))
    by (eapply table_consistent_w_incl; [apply incl_appl, incl_refl | exact HT]).
  destruct (source_vars_w obj vid xs Hwo HTo Eo) as [Hvo Hino].
  rewrite general_path_unfold. apply sort_dedup_ext. apply same_names_sym.
  intros v. unfold occurring. rewrite in_app_iff, (Hvo v). split.
  - intros [Hv | Hv]; [exact Hv|].
    apply in_flat_map in Hv. destruct Hv as [c [Hc Hv]].
    rewrite forallb_forall in Ef, Hwc.
    specialize (Ef c Hc). specialize (Hwc c Hc).
    destruct (source c) as [|j ys|] eqn:Ec; try discriminate Ef.
    apply N.eqb_eq in Ef. subst j.
    assert (Hic : incl (vid_table c) (vid_table obj ++ flat_map vid_table cons)).
    { apply incl_appr. intros p Hp. apply in_flat_map. exists c. split; assumption. }
    assert (HTc : table_consistent_w (vid_table c))
      by (eapply table_consistent_w_incl; [exact Hic | exact HT]).
    destruct (source_vars_w c vid ys Hwc HTc Ec) as [Hvc Hinc].
    assert (Hxy : same_names xs ys).
    { apply (HT vid); [apply in_or_app; left; exact Hino | apply Hic; exact Hinc]. }
    apply (Hxy v). apply (Hvc v). exact Hv.
  - intros Hv. left. exact Hv.
Qed.

Theorem shortcut_eq_general : forall obj cons vs,
  wf obj = true -> forallb wf cons = true ->
  vid_consistent (obj :: cons) ->
  shortcut (Some obj) cons = Some vs ->
  vs = general_path (Some obj) cons.
Proof.
  intros obj cons vs Hwo Hwc HT. apply shortcut_eq_general_w; try assumption.
  apply vid_consistent_weaken. exact HT.
Qed.

Definition opt_list (obj : option expr) : list expr :=
  match obj with Some o => [o] | None => [] end.

Theorem problem_variables_eq_general_w : forall obj cons,
  forallb wf (opt_list obj ++ cons) = true ->
  vid_consistent_w (opt_list obj ++ cons) ->
  problem_variables obj cons = general_path obj cons.
Proof.
  intros obj cons Hwf HT. unfold problem_variables.
  destruct (shortcut obj cons) as [vs|] eqn:Es; [|reflexivity].
  destruct obj as [o|]; [|discriminate Es].
  simpl in Hwf. apply andb_true_iff in Hwf. destruct Hwf as [Hwo Hwc].
  apply (shortcut_eq_general_w o cons vs Hwo Hwc HT Es).
Qed.

Theorem problem_variables_eq_general : forall obj cons,
  forallb wf (opt_list obj ++ cons) = true ->
  vid_consistent (opt_list obj ++ cons) ->
  problem_variables obj cons = general_path obj cons.
Proof.
  intros obj cons Hwf HT. apply problem_variables_eq_general_w; [exact Hwf|].
  apply vid_consistent_weaken. exact HT.
Qed.

(* ---- C16, variables part, assembled ---- *)
Theorem problem_variables_exact : forall obj cons,
  forallb wf (opt_list obj ++ cons) = true ->
  vid_consistent (opt_list obj ++ cons) ->
  (forall v, In v (problem_variables obj cons) <-> In v (occurring obj cons)) /\
  NoDup (problem_variables obj cons) /\
  StronglySorted var_le (problem_variables obj cons).
Proof.
  intros obj cons Hwf HT. rewrite (problem_variables_eq_general obj cons Hwf HT).
  split; [|split].
  - intros v. apply general_exact.
  - apply general_NoDup.
  - apply general_sorted.
Qed.

(* two problems mentioning the same set of names list them identically,
   whichever of them takes the shortcut *)
Theorem problem_variables_construction_independent : forall obj cons obj' cons',
  forallb wf (opt_list obj ++ cons) = true -> vid_consistent (opt_list obj ++ cons) ->
  forallb wf (opt_list obj' ++ cons') = true -> vid_consistent (opt_list obj' ++ cons') ->
  same_names (occurring obj cons) (occurring obj' cons') ->
  problem_variables obj cons = problem_variables obj' cons'.
Proof.
  intros obj cons obj' cons' Hwf HT Hwf' HT' Hs.
  rewrite (problem_variables_eq_general obj cons Hwf HT).
  rewrite (problem_variables_eq_general obj' cons' Hwf' HT').
  apply general_construction_independent. exact Hs.
Qed.

(* the hypotheses are needed: two different element lists under one vid
   (impossible for Python objects) make the shortcut drop a variable ... *)
Example consistency_needed :
  let o := Bin Add (VSum 1%N ["a"%string]) (VSum 1%N ["b"%string]) in
  wf o = true /\
  problem_variables (Some o) [] = ["a"%string] /\
  general_path (Some o) [] = ["a"%string; "b"%string].
Proof. vm_compute. repeat split. Qed.

(* ... and so does a KVar-tagged operand whose elements are not Var nodes *)
Example wf_needed :
  let o := LinComb [1%Q] (KVar 1%N) [Bin Add (Var "a"%string) (Var "b"%string)] in
  wf o = false /\ vid_consistent [o] /\
  problem_variables (Some o) [] = [] /\
  general_path (Some o) [] = ["a"%string; "b"%string].
Proof.
  split; [vm_compute; reflexivity|]. split; [|vm_compute; split; reflexivity].
  intros i xs ys Hx Hy. simpl in Hx, Hy.
  destruct Hx as [Hx|[]]. destruct Hy as [Hy|[]]. congruence.
Qed.

(* ================================================================== *)
(** * 6. Bounds are those declared, aligned with the variable list     *)
(* ================================================================== *)

Theorem get_bounds_aligned : forall st V,
  List.length (get_bounds st V) = List.length V /\
  forall i v, nth_error V i = Some v ->
    nth_error (get_bounds st V) i = Some (lb (st v), ub (st v)).
Proof.
  intros st V. unfold get_bounds. split.
  - apply map_length.
  - intros i v Hn. apply (map_nth_error (fun v => (lb (st v), ub (st v))) i V Hn).
Qed.

(* ================================================================== *)
(** * 7. Natural order sanity checks                                   *)
(* ================================================================== *)
Open Scope string_scope.

Example nat_order_1 : sort_vars ["x[10]"; "x[2]"; "x[1]"] = ["x[1]"; "x[2]"; "x[10]"].
Proof. vm_compute. reflexivity. Qed.

Example nat_order_2 : sort_vars ["x1"; "x01"; "x001"] = ["x001"; "x01"; "x1"].
Proof. vm_compute. reflexivity. Qed.

Example nat_order_3 :
  sort_vars ["A[1,0]"; "A[0,10]"; "A[0,2]"] = ["A[0,2]"; "A[0,10]"; "A[1,0]"].
Proof. vm_compute. reflexivity. Qed.

Example shortcut_example :
  problem_variables (Some (VSum 1%N ["x[2]"; "x[1]"; "x[0]"])) [] = ["x[0]"; "x[1]"; "x[2]"].
Proof. vm_compute. reflexivity. Qed.

Example shortcut_example_taken :
  shortcut (Some (VSum 1%N ["x[2]"; "x[1]"; "x[0]"])) [] = Some ["x[0]"; "x[1]"; "x[2]"].
Proof. vm_compute. reflexivity. Qed.

Example sort_key_example :
  sort_key "A[0,10]" = [PText "A["; PNum 0; PText ","; PNum 10; PText "]"].
Proof. vm_compute. reflexivity. Qed.

Close Scope string_scope.

(* ================================================================== *)
Print Assumptions var_cmp_order.
Print Assumptions var_leb_trans.
Print Assumptions sort_key_never_mixed.
Print Assumptions sort_vars_perm.
Print Assumptions sort_vars_sorted.
Print Assumptions sorted_unique.
Print Assumptions order_independent.
Print Assumptions dedup_NoDup.
Print Assumptions dedup_In.
Print Assumptions general_exact.
Print Assumptions general_NoDup.
Print Assumptions general_sorted.
Print Assumptions general_construction_independent.
Print Assumptions source_none_vars.
Print Assumptions source_vars.
Print Assumptions shortcut_eq_general.
Print Assumptions problem_variables_eq_general.
Print Assumptions problem_variables_exact.
Print Assumptions problem_variables_construction_independent.
Print Assumptions get_bounds_aligned.
