(* VecMatProofs.v — property C11: every vector and matrix operation of the modelling
   API (VecMat.v) evaluates, for all shapes and values, to what the corresponding NumPy
   operation (NumpySpec.v) gives on the variables' values; operands of incompatible
   shapes are rejected with an error rather than silently truncated.

   Pow: the element-wise theorems take the hypothesis [pow_ok o rs]
   ("o = Pow -> no right operand element is a literal constant"), under which
   [Bin o l r] denotes [bopR o]; it is trivially true for Add/Sub/Mul/Div
   ([pow_ok_notpow]).  The literal-exponent powers x ** q and x ** array are covered by
   separate theorems ([v_binop_pow_scalar], [v_binop_pow_arr1], [m_binop_pow_*]). *)
From Coq Require Import Reals QArith Qreals String List Arith Bool ZArith Lia Lra Sorted.
From Optyx Require Import Syntax SemR VecMat NumpySpec.
Import ListNotations.
Close Scope Q_scope.
Open Scope R_scope.

Definition ev (rho penv : env) (v : vobj) : list R := map (evalR rho penv) (vel v).
Definition evm (rho penv : env) (m : mobj) : list (list R) := map (map (evalR rho penv)) (mrows m).

(* ================================================================== *)
(* Helper lemmas                                                       *)
(* ================================================================== *)
Lemma Q2R_0' : Q2R 0 = 0.
Proof. unfold Q2R; simpl; lra. Qed.

Lemma evalR_c0e : forall rho penv, evalR rho penv c0e = 0.
Proof. intros; unfold c0e; simpl; apply Q2R_0'. Qed.

Lemma map_nth' : forall {A B} (f : A -> B) l d d' k, f d = d' -> nth k (map f l) d' = f (nth k l d).
Proof. intros A B f l d d' k <-. apply map_nth. Qed.

Lemma map_select : forall {A B} (f : A -> B) d d' l idx,
  f d = d' -> map f (select d l idx) = select d' (map f l) idx.
Proof.
  intros A B f d d' l idx Hd. unfold select. rewrite map_map.
  apply map_ext; intros k. symmetry. now apply map_nth'.
Qed.

Lemma ev_select : forall rho penv l idx,
  map (evalR rho penv) (select c0e l idx) = np_select (map (evalR rho penv) l) idx.
Proof. intros. apply map_select, evalR_c0e. Qed.

Lemma nth_map_seq : forall {A} (f : nat -> A) n i d, (i < n)%nat -> nth i (map f (seq 0 n)) d = f i.
Proof.
  intros A f n i d Hi. rewrite (nth_indep _ d (f 0%nat)) by now rewrite map_length, seq_length.
  rewrite map_nth. now rewrite seq_nth.
Qed.

Lemma map_combine_map : forall {A B A' B' C} (f : A -> A') (g : B -> B') (h : A' * B' -> C) a b,
  map h (combine (map f a) (map g b)) = map (fun p => h (f (fst p), g (snd p))) (combine a b).
Proof. induction a as [|x a IH]; destruct b as [|y b]; simpl; auto. now rewrite IH. Qed.

Lemma map_combine_repeat : forall {A B C} (h : A * B -> C) (a : list A) (c : B),
  map h (combine a (repeat c (length a))) = map (fun x => h (x, c)) a.
Proof. induction a as [|x a IH]; simpl; intros; auto. now rewrite IH. Qed.

Lemma combine_length_eq : forall {A B} (a : list A) (b : list B),
  length a = length b -> length (combine a b) = length a.
Proof. intros. rewrite combine_length. lia. Qed.

Lemma sumR_app : forall a b, sumR (a ++ b) = sumR a + sumR b.
Proof. induction a as [|x a IH]; simpl; intros; [lra | rewrite IH; lra]. Qed.

Lemma sumR_concat : forall A, sumR (concat A) = sumR (map sumR A).
Proof. induction A as [|r A IH]; simpl; auto. now rewrite sumR_app, IH. Qed.

Lemma dotR_combine : forall {A B} (f : A -> R) (g : B -> R) (ps : list (A * B)),
  dotR (map f (map fst ps)) (map g (map snd ps)) = sumR (map (fun p => f (fst p) * g (snd p)) ps).
Proof. induction ps as [|p ps IH]; simpl; auto. now rewrite IH. Qed.

Lemma dotR_zip : forall {A B} (f : A -> R) (g : B -> R) a b,
  sumR (map (fun p => f (fst p) * g (snd p)) (combine a b)) = dotR (map f a) (map g b).
Proof. induction a as [|x a IH]; destruct b as [|y b]; simpl; auto. now rewrite IH. Qed.

(* [Bin o l r] denotes [bopR o] unless it is a power with a literal exponent *)
Lemma evalR_Bin : forall rho penv o l r,
  (o = Pow -> is_const r = false) ->
  evalR rho penv (Bin o l r) = bopR o (evalR rho penv l) (evalR rho penv r).
Proof.
  intros rho penv o l r H. destruct o; try reflexivity.
  destruct r; try reflexivity. specialize (H eq_refl). discriminate.
Qed.

Lemma evalR_Pow_const : forall rho penv l q,
  evalR rho penv (Bin Pow l (Const q)) = powQ (evalR rho penv l) q.
Proof. reflexivity. Qed.

Definition pow_ok (o : bop) (rs : list expr) : Prop :=
  o = Pow -> Forall (fun e => is_const e = false) rs.

Lemma pow_ok_notpow : forall o rs, o <> Pow -> pow_ok o rs.
Proof. intros o rs H E. contradiction. Qed.

Lemma pow_ok_vars : forall o rs, forallb is_var rs = true -> pow_ok o rs.
Proof.
  intros o rs H _. rewrite forallb_forall in H. apply Forall_forall. intros e He.
  specialize (H e He). destruct e; simpl in *; congruence.
Qed.

Lemma pow_ok_cons : forall o e rs, pow_ok o (e :: rs) -> (o = Pow -> is_const e = false) /\ pow_ok o rs.
Proof. intros o e rs H. split; intros E; specialize (H E); now inversion H. Qed.

(* element-wise evaluation of zipped trees *)
Lemma ev_zip_bin : forall rho penv o ls rs,
  pow_ok o rs ->
  map (evalR rho penv) (map (fun p => Bin o (fst p) (snd p)) (combine ls rs)) =
  np_ew o (map (evalR rho penv) ls) (map (evalR rho penv) rs).
Proof.
  intros rho penv o. unfold np_ew.
  induction ls as [|x ls IH]; destruct rs as [|y rs]; intros Hp; cbn [map]; auto.
  apply pow_ok_cons in Hp. destruct Hp as [Hy Hp]. cbn [combine]. cbn [map].
  rewrite IH by assumption. f_equal. now apply evalR_Bin.
Qed.

Lemma zidx_lt : forall n i k, zidx n i = Some k -> (k < n)%nat.
Proof.
  unfold zidx. intros n i k H.
  destruct ((0 <=? _) && (_ <? Z.of_nat n))%Z eqn:E; [|discriminate].
  injection H as <-. apply andb_prop in E. destruct E as [E1 E2].
  apply Z.leb_le in E1. apply Z.ltb_lt in E2. lia.
Qed.

Lemma zidx_none : forall n i, (i < - Z.of_nat n \/ Z.of_nat n <= i)%Z -> zidx n i = None.
Proof.
  unfold zidx. intros n i H.
  destruct (i <? 0)%Z eqn:E0; [apply Z.ltb_lt in E0 | apply Z.ltb_ge in E0].
  - destruct (0 <=? Z.of_nat n + i)%Z eqn:E1; simpl; auto. apply Z.leb_le in E1. lia.
  - destruct (i <? Z.of_nat n)%Z eqn:E1; [apply Z.ltb_lt in E1; lia|]. now rewrite andb_false_r.
Qed.

(* Python meaning of an index: k = i for 0 <= i < n, k = n + i for -n <= i < 0 *)
Lemma zidx_spec : forall n i k, zidx n i = Some k <->
  ((0 <= i < Z.of_nat n)%Z /\ k = Z.to_nat i) \/ ((- Z.of_nat n <= i < 0)%Z /\ k = Z.to_nat (Z.of_nat n + i)).
Proof.
  unfold zidx. intros n i k.
  destruct (i <? 0)%Z eqn:E0; [apply Z.ltb_lt in E0 | apply Z.ltb_ge in E0].
  - destruct (0 <=? Z.of_nat n + i)%Z eqn:E1; [apply Z.leb_le in E1 | apply Z.leb_gt in E1]; simpl.
    + destruct (Z.of_nat n + i <? Z.of_nat n)%Z eqn:E2; [|apply Z.ltb_ge in E2; lia].
      split; [intros H; injection H as <-; right; split; [lia|auto] | intros [[H _]|[_ ->]]; [lia|auto]].
    + split; [discriminate | intros [[H _]|[H _]]; lia].
  - destruct (0 <=? i)%Z eqn:E1; [|apply Z.leb_gt in E1; lia]. simpl.
    destruct (i <? Z.of_nat n)%Z eqn:E2; [apply Z.ltb_lt in E2 | apply Z.ltb_ge in E2].
    + split; [intros H; injection H as <-; left; split; [lia|auto] | intros [[_ ->]|[H _]]; [auto|lia]].
    + split; [discriminate | intros [[H _]|[H _]]; lia].
Qed.

(* ================================================================== *)
(* 1. Vectors: indexing, slicing, views                                *)
(* ================================================================== *)
Theorem v_getitem_correct : forall rho penv v i e,
  v_getitem v i = RExpr e ->
  exists k, zidx (vsize v) i = Some k /\ (k < vsize v)%nat /\
            e = nth k (vel v) c0e /\
            evalR rho penv e = nth k (ev rho penv v) 0.
Proof.
  unfold v_getitem. intros rho penv v i e H.
  destruct (zidx (vsize v) i) as [k|] eqn:E; [|discriminate]. injection H as <-.
  exists k. repeat split; auto. { eapply zidx_lt; eauto. }
  unfold ev. symmetry. apply map_nth', evalR_c0e.
Qed.

Theorem v_slice_correct : forall rho penv v a b c w,
  v_slice v a b c = RVec w ->
  exists idx, slice_indices (vsize v) a b c = Some idx /\ idx <> [] /\
              vel w = select c0e (vel v) idx /\          (* the view shares the element objects *)
              vk w = KVar 0 /\
              ev rho penv w = np_select (ev rho penv v) idx /\
              Some (ev rho penv w) = np_slice (ev rho penv v) a b c.
Proof.
  unfold v_slice. intros rho penv v a b c w H.
  destruct (slice_indices (vsize v) a b c) as [[|k idx]|] eqn:E; try discriminate.
  injection H as <-. exists (k :: idx). repeat split; auto; try discriminate.
  - exact (ev_select rho penv (vel v) (k :: idx)).
  - unfold np_slice, ev. rewrite map_length. fold (vsize v). rewrite E. simpl option_map.
    f_equal. exact (ev_select rho penv (vel v) (k :: idx)).
Qed.

(* ================================================================== *)
(* 2. Vectors: arithmetic                                              *)
(* ================================================================== *)
Theorem v_binop_scalar : forall rho penv o l q w,
  o <> Pow ->
  v_binop o l (AScalar q) = RVec w ->
  ev rho penv w = np_ew_scalar_r o (ev rho penv l) (Q2R q) /\ vsize w = vsize l.
Proof.
  unfold v_binop. simpl. intros rho penv o l q w Ho H. injection H as <-.
  unfold ev, np_ew_scalar_r, vsize. cbn [vel]. split.
  - unfold vsize. rewrite map_combine_repeat, !map_map. apply map_ext. intros e. simpl fst; simpl snd.
    destruct o; try reflexivity. contradiction.
  - rewrite map_length, combine_length, repeat_length. unfold vsize. lia.
Qed.

Theorem v_binop_pow_scalar : forall rho penv l q w,
  v_binop Pow l (AScalar q) = RVec w ->
  ev rho penv w = np_pow_scalar (ev rho penv l) q.
Proof.
  unfold v_binop. simpl. intros rho penv l q w H. injection H as <-.
  unfold ev, np_pow_scalar, vsize. cbn [vel].
  rewrite map_combine_repeat, !map_map. apply map_ext. reflexivity.
Qed.

Theorem v_binop_vec : forall rho penv o l r w,
  pow_ok o (vel r) ->
  v_binop o l (AVec r) = RVec w ->
  ev rho penv w = np_ew o (ev rho penv l) (ev rho penv r) /\
  vsize r = vsize l /\ vsize w = vsize l.
Proof.
  unfold v_binop. simpl. intros rho penv o l r w Hp H.
  destruct (Nat.eqb (vsize r) (vsize l)) eqn:E; [|discriminate]. apply Nat.eqb_eq in E.
  injection H as <-. unfold ev. cbn [vel]. split; [now apply ev_zip_bin|]. split; auto.
  unfold vsize in *. simpl. rewrite map_length, combine_length. lia.
Qed.

Theorem v_binop_arr1 : forall rho penv o l qs w,
  o <> Pow ->
  v_binop o l (AArr1 qs) = RVec w ->
  ev rho penv w = np_ew o (ev rho penv l) (map Q2R qs) /\
  length qs = vsize l /\ vsize w = vsize l.
Proof.
  unfold v_binop. simpl. intros rho penv o l qs w Ho H.
  destruct (Nat.eqb (length qs) (vsize l)) eqn:E; [|discriminate]. apply Nat.eqb_eq in E.
  injection H as <-. unfold ev. cbn [vel]. split.
  - rewrite ev_zip_bin by now apply pow_ok_notpow. now rewrite map_map.
  - split; auto. unfold vsize in *. simpl. rewrite map_length, combine_length, map_length. lia.
Qed.

Theorem v_binop_pow_arr1 : forall rho penv l qs w,
  v_binop Pow l (AArr1 qs) = RVec w ->
  ev rho penv w = np_pow_consts (ev rho penv l) qs /\ length qs = vsize l.
Proof.
  unfold v_binop. simpl. intros rho penv l qs w H.
  destruct (Nat.eqb (length qs) (vsize l)) eqn:E; [|discriminate]. apply Nat.eqb_eq in E.
  injection H as <-. split; auto. unfold ev, np_pow_consts. cbn [vel]. clear E.
  generalize (vel l) as ls. intros ls. revert qs.
  induction ls as [|x ls IH]; destruct qs as [|q qs]; simpl; auto. now rewrite IH.
Qed.

(* reflected operators: other op self *)
Theorem v_rbinop_scalar : forall rho penv o self q w,
  pow_ok o (vel self) ->
  v_rbinop o self (AScalar q) = RVec w ->
  ev rho penv w = np_ew_scalar_l o (Q2R q) (ev rho penv self) /\ vsize w = vsize self.
Proof.
  unfold v_rbinop. intros rho penv o self q w Hp H. injection H as <-.
  unfold ev, np_ew_scalar_l, vsize. cbn [vel]. split; [|now rewrite map_length].
  rewrite !map_map. revert Hp. generalize (vel self) as ls.
  induction ls as [|x ls IH]; intros Hp; cbn [map]; auto.
  apply pow_ok_cons in Hp. destruct Hp as [Hx Hp]. f_equal; [|now apply IH].
  now rewrite evalR_Bin.
Qed.

Theorem v_rbinop_arr1 : forall rho penv o self qs w,
  pow_ok o (vel self) ->
  v_rbinop o self (AArr1 qs) = RVec w ->
  ev rho penv w = np_ew o (map Q2R qs) (ev rho penv self) /\
  length qs = vsize self /\ vsize w = vsize self.
Proof.
  unfold v_rbinop. intros rho penv o self qs w Hp H.
  destruct (Nat.eqb (length qs) (vsize self)) eqn:E; [|discriminate]. apply Nat.eqb_eq in E.
  injection H as <-. unfold ev. cbn [vel]. split.
  - clear E. revert Hp. generalize (vel self) as ls. unfold np_ew. revert qs.
    induction qs as [|q qs IH]; destruct ls as [|x ls]; intros Hp; cbn [map combine]; auto.
    apply pow_ok_cons in Hp. destruct Hp as [Hx Hp]. f_equal; [|now apply IH].
    cbn [fst snd]. now rewrite evalR_Bin.
  - split; auto. unfold vsize in *. simpl. rewrite map_length, combine_length. lia.
Qed.

Theorem v_neg_correct : forall rho penv v w,
  v_neg v = RVec w -> ev rho penv w = np_neg (ev rho penv v) /\ vsize w = vsize v.
Proof.
  unfold v_neg. intros rho penv v w H. injection H as <-. unfold ev, np_neg, vsize. cbn [vel].
  split; [now rewrite !map_map | now rewrite map_length].
Qed.

(* ================================================================== *)
(* 3. Vectors: reductions and products                                 *)
(* ================================================================== *)
Lemma vec_names_vars : forall (rho penv : env) es,
  forallb is_var es = true -> map rho (vec_names es) = map (evalR rho penv) es.
Proof.
  induction es as [|e es IH]; simpl; intros H; auto.
  apply andb_prop in H. destruct H as [He H]. destruct e; try discriminate. simpl. now rewrite IH.
Qed.

Lemma kind_wf_vars : forall i es, kind_wf (KVar i) es = true -> forallb is_var es = true.
Proof. simpl. intros i es H. now apply andb_prop in H. Qed.

Theorem v_sum_correct : forall rho penv v e,
  kind_wf (vk v) (vel v) = true ->
  v_sum v = RExpr e -> evalR rho penv e = np_sum (ev rho penv v).
Proof.
  unfold v_sum, np_sum, ev. intros rho penv v e Hwf H. destruct (vk v) as [i|]; injection H as <-; simpl.
  - f_equal. apply vec_names_vars. eapply kind_wf_vars; eauto.
  - reflexivity.
Qed.

Theorem v_dot_correct : forall rho penv l r e,
  v_dot l r = RExpr e ->
  evalR rho penv e = np_dot (ev rho penv l) (ev rho penv r) /\ vsize l = vsize r.
Proof.
  unfold v_dot. intros rho penv l r e H.
  destruct (Nat.eqb (vsize l) (vsize r)) eqn:E; [|discriminate]. apply Nat.eqb_eq in E.
  injection H as <-. split; auto.
Qed.

Theorem v_matmul_vec : forall rho penv x w e,
  v_matmul x (AVec w) = RExpr e ->
  evalR rho penv e = np_dot (ev rho penv x) (ev rho penv w) /\ vsize x = vsize w.
Proof. intros rho penv x w e H. now apply v_dot_correct. Qed.

Theorem v_matmul_arr1 : forall rho penv x qs e,
  v_matmul x (AArr1 qs) = RExpr e ->
  evalR rho penv e = np_dot (map Q2R qs) (ev rho penv x) /\ length qs = vsize x.
Proof.
  unfold v_matmul. intros rho penv x qs e H.
  destruct (Nat.eqb (length qs) (vsize x)) eqn:E; [|discriminate]. apply Nat.eqb_eq in E.
  injection H as <-. split; auto.
Qed.

Theorem v_rmatmul_arr1 : forall rho penv x qs e,
  v_rmatmul x (AArr1 qs) = RExpr e ->
  evalR rho penv e = np_dot (map Q2R qs) (ev rho penv x) /\ length qs = vsize x.
Proof.
  unfold v_rmatmul. intros rho penv x qs e H.
  destruct (Nat.eqb (length qs) (vsize x)) eqn:E; [|discriminate]. apply Nat.eqb_eq in E.
  injection H as <-. split; auto.
Qed.

Lemma forallb_len_Forall : forall {A} (m : list (list A)) n,
  forallb (fun row => Nat.eqb (length row) n) m = true <-> rectangular m n.
Proof.
  intros A m n. unfold rectangular. rewrite forallb_forall, Forall_forall.
  split; intros H r Hr; specialize (H r Hr); now apply Nat.eqb_eq.
Qed.

(* A @ x with a constant matrix *)
Theorem matvec_correct : forall rho penv m x w,
  matvec m x = RVec w ->
  ev rho penv w = np_matvec (map (map Q2R) m) (ev rho penv x) /\
  rectangular m (vsize x) /\ m <> [] /\ vsize w = length m.
Proof.
  unfold matvec. intros rho penv m x w H.
  destruct (forallb _ m) eqn:E1; [|discriminate].
  destruct (Nat.eqb (length m) 0) eqn:E2; [discriminate|]. simpl in H. injection H as <-.
  apply forallb_len_Forall in E1. apply Nat.eqb_neq in E2.
  unfold ev, np_matvec, vsize. cbn [vel]. rewrite !map_map, map_length. repeat split; auto.
  intros ->. apply E2. reflexivity.
Qed.

Theorem v_rmatmul_arr2 : forall rho penv x m w,
  v_rmatmul x (AArr2 m) = RVec w ->
  ev rho penv w = np_matvec (map (map Q2R) m) (ev rho penv x) /\
  rectangular m (vsize x) /\ m <> [] /\ vsize w = length m.
Proof. intros rho penv x m w H. now apply matvec_correct. Qed.

Theorem matvec_total : forall m x, (exists w, matvec m x = RVec w) \/ matvec m x = RErr EDim.
Proof. unfold matvec. intros m x. destruct (_ && _); eauto. Qed.

(* equality test of the rewriting: on Var nodes it is syntactic identity *)
Lemma list_eqb_vars_eq : forall xs ys,
  forallb is_var xs = true -> list_eqb expr_eqb xs ys = true -> xs = ys.
Proof.
  induction xs as [|x xs IH]; destruct ys as [|y ys]; simpl; intros Hv H; auto; try discriminate.
  apply andb_prop in Hv. destruct Hv as [Hx Hv]. apply andb_prop in H. destruct H as [Hxy H].
  f_equal; [|now apply IH].
  destruct x; try discriminate. destruct y; simpl in Hxy; try discriminate.
  apply String.eqb_eq in Hxy. now subst.
Qed.

(* x.dot(A @ y): both the QuadraticForm rewriting and the plain DotProduct denote
   x . (A y); success implies that A is (vsize x) x (vsize y) *)
Theorem v_dot_matvec_correct : forall rho penv x m y e,
  kind_wf (vk x) (vel x) = true ->
  v_dot_matvec x m y = RExpr e ->
  evalR rho penv e = np_dot (ev rho penv x) (np_matvec (map (map Q2R) m) (ev rho penv y)) /\
  length m = vsize x /\ rectangular m (vsize y).
Proof.
  unfold v_dot_matvec. intros rho penv x m y e Hwf H.
  destruct (match vk x with KVar _ => match vk y with KVar _ => list_eqb expr_eqb (vel x) (vel y) | KExpr => false end
            | KExpr => false end) eqn:Esame.
  - (* QuadraticForm branch *)
    destruct (vk x) as [i|] eqn:Ekx; [|discriminate]. destruct (vk y) as [j|]; [|discriminate].
    apply list_eqb_vars_eq in Esame; [|eapply kind_wf_vars; eauto].
    destruct (Nat.eqb (length m) (vsize x)) eqn:E1; [|discriminate].
    destruct (forallb _ m) eqn:E2; [|discriminate]. simpl in H. injection H as <-.
    apply Nat.eqb_eq in E1. apply forallb_len_Forall in E2.
    assert (Hs : vsize y = vsize x) by (unfold vsize; now rewrite Esame).
    rewrite Hs. repeat split; auto.
    unfold ev. rewrite <- Esame. simpl. unfold np_dot, np_matvec, matvec_row. now rewrite map_map.
  - (* DotProduct(x, A @ y) branch *)
    destruct (matvec_total m y) as [[w Em] | Em]; rewrite Em in H; [|discriminate].
    apply (matvec_correct rho penv) in Em. destruct Em as (Hev & Hrect & Hne & Hlen).
    apply (v_dot_correct rho penv) in H. destruct H as [He Hsz].
    rewrite He, Hev. repeat split; auto. congruence.
Qed.

(* the rewriting fires exactly on x.dot(A @ x) with a VectorVariable x, and yields the QuadraticForm node *)
Theorem v_dot_matvec_rewrites : forall x m i,
  vk x = KVar i -> forallb is_var (vel x) = true ->
  length m = vsize x -> rectangular m (vsize x) ->
  v_dot_matvec x m x = RExpr (QForm (vk x) (vel x) m).
Proof.
  unfold v_dot_matvec. intros x m i Hk Hv Hl Hr. rewrite Hk.
  assert (Hrefl : forall l, forallb is_var l = true -> list_eqb expr_eqb l l = true).
  { induction l as [|a l IH]; simpl; auto. intros H. apply andb_prop in H. destruct H as [Ha H].
    rewrite IH by assumption. destruct a; try discriminate. simpl. now rewrite String.eqb_refl. }
  rewrite Hrefl by assumption. apply Nat.eqb_eq in Hl. rewrite Hl.
  apply forallb_len_Forall in Hr. rewrite Hr. reflexivity.
Qed.

Theorem v_norm2_correct : forall rho penv x e,
  v_norm x 2 = RExpr e -> evalR rho penv e = np_norm2 (ev rho penv x).
Proof.
  unfold v_norm. simpl. intros rho penv x e H. injection H as <-. simpl.
  unfold np_norm2, np_sum, ev. now rewrite map_map.
Qed.

Theorem v_norm1_correct : forall rho penv x e,
  v_norm x 1 = RExpr e -> evalR rho penv e = np_norm1 (ev rho penv x).
Proof.
  unfold v_norm. simpl. intros rho penv x e H. injection H as <-. simpl.
  unfold np_norm1, np_sum, ev. now rewrite map_map.
Qed.

Theorem v_norm_other : forall x ord, ord <> 2%Z -> ord <> 1%Z -> v_norm x ord = RErr EInvalid.
Proof.
  unfold v_norm. intros x ord H2 H1.
  apply Z.eqb_neq in H2. apply Z.eqb_neq in H1. now rewrite H2, H1.
Qed.

Lemma is_square_spec : forall m, is_square m = true <-> rectangular m (length m).
Proof. intros m. apply forallb_len_Forall. Qed.

Theorem quad_form_correct : forall rho penv x m e,
  quad_form x m = RExpr e ->
  evalR rho penv e = np_quad (ev rho penv x) (map (map Q2R) m) /\
  length m = vsize x /\ rectangular m (vsize x).
Proof.
  unfold quad_form. intros rho penv x m e H.
  destruct (is_square m) eqn:E1; [|discriminate]. simpl in H.
  destruct (Nat.eqb (length m) (vsize x)) eqn:E2; [|discriminate]. injection H as <-.
  apply Nat.eqb_eq in E2. apply is_square_spec in E1. rewrite <- E2. repeat split; auto.
  simpl. unfold np_quad, np_dot, np_matvec, matvec_row, ev. now rewrite map_map.
Qed.

(* ================================================================== *)
(* 4. Vectors: rejection (never a silent truncation)                   *)
(* ================================================================== *)
Theorem v_getitem_out_of_range : forall v i,
  (i < - Z.of_nat (vsize v) \/ Z.of_nat (vsize v) <= i)%Z -> v_getitem v i = RErr EIndex.
Proof. unfold v_getitem. intros v i H. now rewrite zidx_none. Qed.

Theorem v_slice_empty : forall v a b c,
  slice_indices (vsize v) a b c = Some [] -> v_slice v a b c = RErr EIndex.
Proof. unfold v_slice. intros v a b c ->. reflexivity. Qed.

Theorem v_slice_step0 : forall v a b, v_slice v a b (Some 0%Z) = RErr EInvalid.
Proof. reflexivity. Qed.

Theorem v_binop_vec_mismatch : forall o l w,
  vsize w <> vsize l -> v_binop o l (AVec w) = RErr EDim.
Proof. unfold v_binop. simpl. intros o l w H. apply Nat.eqb_neq in H. now rewrite H. Qed.

Theorem v_binop_arr1_mismatch : forall o l qs,
  length qs <> vsize l -> v_binop o l (AArr1 qs) = RErr EDim.
Proof. unfold v_binop. simpl. intros o l qs H. apply Nat.eqb_neq in H. now rewrite H. Qed.

Theorem v_binop_arr2 : forall o l m, v_binop o l (AArr2 m) = RErr EWrongDim.
Proof. reflexivity. Qed.

Theorem v_binop_mat : forall o l m, v_binop o l (AMat m) = RErr EInvalid.
Proof. reflexivity. Qed.

Theorem v_binop_other : forall o l, v_binop o l AOther = RErr EInvalid.
Proof. reflexivity. Qed.

(* a vector result always has exactly the left operand's size: nothing is truncated *)
Theorem v_binop_size : forall o l r w, v_binop o l r = RVec w -> vsize w = vsize l.
Proof.
  unfold v_binop. intros o l r w H. destruct r as [q|u|qs|m|m|]; simpl in H; try discriminate.
  - injection H as <-. unfold vsize. cbn [vel]. rewrite map_length, combine_length, repeat_length. lia.
  - destruct (Nat.eqb (vsize u) (vsize l)) eqn:E; [|discriminate]. apply Nat.eqb_eq in E.
    injection H as <-. unfold vsize in *. cbn [vel]. rewrite map_length, combine_length. lia.
  - destruct (Nat.eqb (length qs) (vsize l)) eqn:E; [|discriminate]. apply Nat.eqb_eq in E.
    injection H as <-. unfold vsize in *. cbn [vel]. rewrite map_length, combine_length, map_length. lia.
Qed.

Theorem v_binop_never_expr_or_mat : forall o l r,
  (forall e, v_binop o l r <> RExpr e) /\ (forall m, v_binop o l r <> RMat m).
Proof.
  unfold v_binop. intros o l r. destruct r as [q|u|qs|m|m|]; simpl; split; intros; try discriminate.
  - destruct (Nat.eqb (vsize u) (vsize l)); discriminate.
  - destruct (Nat.eqb (vsize u) (vsize l)); discriminate.
  - destruct (Nat.eqb (length qs) (vsize l)); discriminate.
  - destruct (Nat.eqb (length qs) (vsize l)); discriminate.
Qed.

Theorem v_rbinop_arr1_mismatch : forall o self qs,
  length qs <> vsize self -> v_rbinop o self (AArr1 qs) = RErr EDim.
Proof. unfold v_rbinop. intros o self qs H. apply Nat.eqb_neq in H. now rewrite H. Qed.

Theorem v_rbinop_arr2 : forall o self m, v_rbinop o self (AArr2 m) = RErr EWrongDim.
Proof. reflexivity. Qed.

Theorem v_rbinop_size : forall o self other w, v_rbinop o self other = RVec w -> vsize w = vsize self.
Proof.
  unfold v_rbinop. intros o self other w H. destruct other as [q|u|qs|m|m|]; try discriminate.
  - injection H as <-. unfold vsize. cbn [vel]. now rewrite map_length.
  - destruct (Nat.eqb (length qs) (vsize self)) eqn:E; [|discriminate]. apply Nat.eqb_eq in E.
    injection H as <-. unfold vsize in *. cbn [vel]. rewrite map_length, combine_length. lia.
Qed.

Theorem v_dot_mismatch : forall l r, vsize l <> vsize r -> v_dot l r = RErr EDim.
Proof. unfold v_dot. intros l r H. apply Nat.eqb_neq in H. now rewrite H. Qed.

Theorem v_matmul_vec_mismatch : forall x w, vsize x <> vsize w -> v_matmul x (AVec w) = RErr EDim.
Proof. intros. now apply v_dot_mismatch. Qed.

Theorem v_matmul_arr1_mismatch : forall x qs, length qs <> vsize x -> v_matmul x (AArr1 qs) = RErr EDim.
Proof. unfold v_matmul. intros x qs H. apply Nat.eqb_neq in H. now rewrite H. Qed.

Theorem v_matmul_arr2 : forall x m, v_matmul x (AArr2 m) = RErr EWrongDim.
Proof. reflexivity. Qed.

Theorem v_rmatmul_arr1_mismatch : forall x qs, length qs <> vsize x -> v_rmatmul x (AArr1 qs) = RErr EDim.
Proof. unfold v_rmatmul. intros x qs H. apply Nat.eqb_neq in H. now rewrite H. Qed.

Lemma forallb_len_false : forall {A} (m : list (list A)) n row,
  In row m -> length row <> n -> forallb (fun r => Nat.eqb (length r) n) m = false.
Proof.
  intros A m n row Hin Hl. destruct (forallb _ m) eqn:E; auto.
  rewrite forallb_forall in E. specialize (E row Hin). apply Nat.eqb_eq in E. contradiction.
Qed.

Theorem matvec_mismatch : forall m x row,
  In row m -> length row <> vsize x -> matvec m x = RErr EDim.
Proof. unfold matvec. intros m x row Hin Hl. now rewrite (forallb_len_false m (vsize x) row). Qed.

Theorem matvec_empty : forall x, matvec [] x = RErr EDim.
Proof. reflexivity. Qed.

Theorem quad_form_not_square : forall x m row,
  In row m -> length row <> length m -> quad_form x m = RErr ESquare.
Proof.
  unfold quad_form, is_square. intros x m row Hin Hl.
  now rewrite (forallb_len_false m (length m) row).
Qed.

Theorem quad_form_mismatch : forall x m,
  rectangular m (length m) -> length m <> vsize x -> quad_form x m = RErr EDim.
Proof.
  unfold quad_form. intros x m Hsq Hl. apply is_square_spec in Hsq. rewrite Hsq. simpl.
  apply Nat.eqb_neq in Hl. now rewrite Hl.
Qed.

(* x.dot(A @ y) with a wrongly shaped A is always an error (in either branch) *)
Theorem v_dot_matvec_mismatch : forall x m y,
  length m <> vsize x \/ (exists row, In row m /\ length row <> vsize y) ->
  kind_wf (vk x) (vel x) = true ->
  v_dot_matvec x m y = RErr EDim.
Proof.
  intros x m y Hbad Hwf. destruct (v_dot_matvec x m y) as [e|w|w|c] eqn:E.
  - apply (v_dot_matvec_correct (fun _ => 0) (fun _ => 0)) in E; auto. destruct E as (_ & Hl & Hr).
    destruct Hbad as [Hbad | (row & Hin & Hrow)]; [contradiction|].
    unfold rectangular in Hr. rewrite Forall_forall in Hr. specialize (Hr row Hin). contradiction.
  - exfalso. unfold v_dot_matvec in E. destruct (match vk x with KVar _ => _ | KExpr => false end).
    + destruct (_ && _); discriminate.
    + destruct (matvec m y) eqn:Em; try discriminate. unfold v_dot in E. destruct (Nat.eqb _ _); discriminate.
  - exfalso. unfold v_dot_matvec in E. destruct (match vk x with KVar _ => _ | KExpr => false end).
    + destruct (_ && _); discriminate.
    + destruct (matvec m y) eqn:Em; try discriminate.
      * unfold v_dot in E. destruct (Nat.eqb _ _); discriminate.
      * unfold matvec in Em. destruct (_ && _); discriminate.
  - unfold v_dot_matvec in E. destruct (match vk x with KVar _ => _ | KExpr => false end).
    + destruct (_ && _); [discriminate | auto].
    + destruct (matvec_total m y) as [[w Hw] | Hw]; rewrite Hw in E.
      * unfold v_dot in E. destruct (Nat.eqb _ _); [discriminate | auto].
      * auto.
Qed.

(* ================================================================== *)
(* Matrices                                                            *)
(* ================================================================== *)
Lemma evm_row : forall rho penv rows a,
  nth a (map (map (evalR rho penv)) rows) [] = map (evalR rho penv) (nth a rows []).
Proof. intros. now apply map_nth'. Qed.

Lemma evm_entry : forall rho penv rows a b,
  nth b (nth a (map (map (evalR rho penv)) rows) []) 0 = evalR rho penv (nth b (nth a rows []) c0e).
Proof. intros. rewrite evm_row. apply map_nth', evalR_c0e. Qed.

Lemma evm_nrows : forall rho penv m, length (evm rho penv m) = nrows m.
Proof. intros. unfold evm, nrows. now rewrite map_length. Qed.

Lemma evm_ncols : forall rho penv m, np_ncols (evm rho penv m) = ncols m.
Proof. intros. unfold evm, ncols, np_ncols. destruct (mrows m); simpl; auto. now rewrite map_length. Qed.

Lemma evm_shape : forall rho penv m, shape (evm rho penv m) = shape (mrows m).
Proof. intros. unfold evm, shape. rewrite map_map. apply map_ext. intros r. now rewrite map_length. Qed.

(* ---- 1. indexing, slicing, views ---- *)
Theorem m_getitem_correct : forall rho penv m i j e,
  m_getitem m i j = RExpr e ->
  exists a b, zidx (nrows m) i = Some a /\ zidx (ncols m) j = Some b /\
              (a < nrows m)%nat /\ (b < ncols m)%nat /\
              e = nth b (nth a (mrows m) []) c0e /\
              evalR rho penv e = np_index2 (evm rho penv m) a b.
Proof.
  unfold m_getitem. intros rho penv m i j e H.
  destruct (zidx (nrows m) i) as [a|] eqn:Ea; [|discriminate].
  destruct (zidx (ncols m) j) as [b|] eqn:Eb; [|discriminate]. injection H as <-.
  exists a, b. repeat split; auto; try (eapply zidx_lt; eauto).
  unfold np_index2, evm. now rewrite evm_entry.
Qed.

Theorem m_row_correct : forall rho penv m i a b c w,
  m_row m i a b c = RVec w ->
  exists r idx, zidx (nrows m) i = Some r /\ slice_indices (ncols m) a b c = Some idx /\ idx <> [] /\
                vel w = select c0e (nth r (mrows m) []) idx /\         (* shares the row's objects *)
                ev rho penv w = np_select (np_row (evm rho penv m) r) idx.
Proof.
  unfold m_row. intros rho penv m i a b c w H.
  destruct (zidx (nrows m) i) as [r|] eqn:Er; [|discriminate].
  destruct (slice_indices (ncols m) a b c) as [[|k idx]|] eqn:E; try discriminate.
  injection H as <-. exists r, (k :: idx). repeat split; auto; try discriminate.
  unfold np_row, evm. rewrite evm_row. exact (ev_select rho penv _ (k :: idx)).
Qed.

Lemma ev_col_select : forall rho penv rows k idx,
  map (evalR rho penv) (map (fun r => nth k r c0e) (select [] rows idx)) =
  np_col (np_select_rows (map (map (evalR rho penv)) rows) idx) k.
Proof.
  intros. unfold np_col, np_select_rows, np_row, np_index, select.
  rewrite !map_map. apply map_ext. intros i. now rewrite evm_entry.
Qed.

Lemma ev_sub_select : forall rho penv rows ri ci,
  map (map (evalR rho penv)) (map (fun r => select c0e r ci) (select [] rows ri)) =
  np_submatrix (map (map (evalR rho penv)) rows) ri ci.
Proof.
  intros. unfold np_submatrix, np_select_rows, np_row. unfold select at 2.
  rewrite !map_map. apply map_ext. intros i. rewrite evm_row. apply ev_select.
Qed.

Theorem m_col_correct : forall rho penv m a b c j w,
  m_col m a b c j = RVec w ->
  exists k idx, zidx (ncols m) j = Some k /\ slice_indices (nrows m) a b c = Some idx /\ idx <> [] /\
                vel w = map (fun r => nth k r c0e) (select [] (mrows m) idx) /\
                ev rho penv w = np_col (np_select_rows (evm rho penv m) idx) k.
Proof.
  unfold m_col. intros rho penv m a b c j w H.
  destruct (zidx (ncols m) j) as [k|] eqn:Ek; [|discriminate].
  destruct (slice_indices (nrows m) a b c) as [[|i0 idx]|] eqn:E; try discriminate.
  injection H as <-. exists k, (i0 :: idx). repeat split; auto; try discriminate.
  exact (ev_col_select rho penv (mrows m) k (i0 :: idx)).
Qed.

Theorem m_sub_correct : forall rho penv m s1 e1 t1 s2 e2 t2 w,
  m_sub m s1 e1 t1 s2 e2 t2 = RMat w ->
  exists ri ci, slice_indices (nrows m) s1 e1 t1 = Some ri /\ slice_indices (ncols m) s2 e2 t2 = Some ci /\
                ri <> [] /\ ci <> [] /\
                mrows w = map (fun r => select c0e r ci) (select [] (mrows m) ri) /\
                evm rho penv w = np_submatrix (evm rho penv m) ri ci.
Proof.
  unfold m_sub. intros rho penv m s1 e1 t1 s2 e2 t2 w H.
  destruct (slice_indices (nrows m) s1 e1 t1) as [ri|] eqn:E1;
  destruct (slice_indices (ncols m) s2 e2 t2) as [ci|] eqn:E2; try discriminate.
  - destruct ri as [|i0 ri]; destruct ci as [|j0 ci]; try discriminate. injection H as <-.
    exists (i0 :: ri), (j0 :: ci). repeat split; auto; try discriminate.
    exact (ev_sub_select rho penv (mrows m) (i0 :: ri) (j0 :: ci)).
  - destruct ri; discriminate.
Qed.

Lemma transpose_rows_eq : forall rows n,
  transpose_rows rows n = map (fun j => map (fun r => nth j r c0e) rows) (seq 0 n).
Proof. destruct rows; reflexivity. Qed.

Lemma list_as_seq : forall {A B} (g : A -> B) d (r : list A),
  map g r = map (fun j => g (nth j r d)) (seq 0 (length r)).
Proof.
  induction r as [|x r IH]; simpl; auto. f_equal. rewrite <- seq_shift, map_map. exact IH.
Qed.

Lemma combine_cons_seq : forall (r : list R) (h : nat -> list R) n,
  length r = n ->
  map (fun p => fst p :: snd p) (combine r (map h (seq 0 n))) = map (fun j => nth j r 0 :: h j) (seq 0 n).
Proof.
  induction r as [|x r IH]; intros h n Hl; subst n; simpl; auto.
  f_equal. rewrite <- seq_shift, !map_map. now apply IH.
Qed.

(* the recursive transpose is the matrix of columns, on rectangular matrices *)
Lemma np_transpose_cols : forall A,
  rectangular A (np_ncols A) ->
  np_transpose A = map (fun j => np_col A j) (seq 0 (np_ncols A)).
Proof.
  induction A as [|r A IH]; intros Hrect; [reflexivity|].
  simpl np_ncols in *. inversion Hrect as [|? ? _ HA]; subst.
  destruct A as [|r' A].
  - simpl. unfold np_col, np_index. simpl. apply (list_as_seq (fun x => [x]) 0 r).
  - assert (Hr' : length r' = length r) by now inversion HA.
    change (np_transpose (r :: r' :: A)) with
      (map (fun p => fst p :: snd p) (combine r (np_transpose (r' :: A)))).
    rewrite IH by (simpl np_ncols; now rewrite Hr').
    simpl np_ncols. rewrite Hr'. now rewrite combine_cons_seq.
Qed.

(* entry-wise reading of the transpose *)
Lemma np_transpose_entry : forall A i j,
  rectangular A (np_ncols A) -> (i < length A)%nat -> (j < np_ncols A)%nat ->
  np_index2 (np_transpose A) j i = np_index2 A i j.
Proof.
  intros A i j Hrect Hi Hj. rewrite np_transpose_cols by assumption. unfold np_index2.
  rewrite nth_map_seq by assumption. unfold np_col, np_index.
  apply (map_nth' (fun r => nth j r 0) A [] 0 i). now destruct j.
Qed.

Theorem m_T_correct : forall rho penv m w,
  rectangular (mrows m) (ncols m) ->
  m_T m = RMat w ->
  evm rho penv w = np_transpose (evm rho penv m) /\
  mrows w = map (fun j => map (fun r => nth j r c0e) (mrows m)) (seq 0 (ncols m)) /\   (* same objects *)
  misvar w = misvar m /\ nrows w = ncols m.
Proof.
  unfold m_T. intros rho penv m w Hrect H. injection H as <-. cbn [mrows misvar].
  rewrite transpose_rows_eq. repeat split; auto.
  - rewrite np_transpose_cols.
    + rewrite evm_ncols. unfold evm. cbn [mrows]. rewrite map_map. apply map_ext. intros j.
      unfold np_col, np_index. rewrite !map_map. apply map_ext. intros r.
      symmetry. apply map_nth', evalR_c0e.
    + rewrite evm_ncols. unfold rectangular, evm in *. rewrite Forall_map.
      eapply Forall_impl; [|exact Hrect]. intros r Hr. now rewrite map_length.
  - unfold nrows. cbn [mrows]. now rewrite map_length, seq_length.
Qed.

Theorem m_diagonal_correct : forall rho penv m w,
  m_diagonal m = RVec w ->
  ev rho penv w = np_diag (evm rho penv m) /\ nrows m = ncols m /\
  vel w = map (fun i => nth i (nth i (mrows m) []) c0e) (seq 0 (nrows m)).
Proof.
  unfold m_diagonal. intros rho penv m w H.
  destruct (Nat.eqb (nrows m) (ncols m)) eqn:E; [|discriminate]. apply Nat.eqb_eq in E.
  injection H as <-. repeat split; auto.
  unfold ev, np_diag, np_index2. cbn [vel]. rewrite evm_nrows, map_map. apply map_ext. intros i.
  unfold evm. now rewrite evm_entry.
Qed.

Lemma evalR_fold_add : forall rho penv r d,
  evalR rho penv (fold_left (fun acc x => Bin Add acc x) r d) =
  evalR rho penv d + sumR (map (evalR rho penv) r).
Proof.
  intros rho penv. induction r as [|x r IH]; intros d; simpl fold_left.
  - simpl. lra.
  - rewrite IH. simpl. lra.
Qed.

Theorem m_trace_correct : forall rho penv m e,
  m_trace m = RExpr e ->
  evalR rho penv e = np_trace (evm rho penv m) /\ nrows m = ncols m /\ nrows m <> 0%nat.
Proof.
  unfold m_trace. intros rho penv m e H.
  destruct (Nat.eqb (nrows m) (ncols m)) eqn:E; [|discriminate]. apply Nat.eqb_eq in E.
  destruct (map _ (seq 0 (nrows m))) as [|d r] eqn:Ed; [discriminate|]. injection H as <-.
  repeat split; auto.
  - rewrite evalR_fold_add. unfold np_trace, np_sum, np_diag, np_index2. rewrite evm_nrows.
    transitivity (sumR (map (evalR rho penv) (d :: r))); [reflexivity|].
    rewrite <- Ed, map_map. f_equal. apply map_ext. intros i. unfold evm. now rewrite evm_entry.
  - intros Hn. rewrite Hn in Ed. discriminate.
Qed.

(* ---- 2. arithmetic ---- *)
Lemma ev_zip_bin_constr : forall rho penv o ls qs,
  o <> Pow ->
  map (evalR rho penv) (map (fun ab => Bin o (fst ab) (Const (snd ab))) (combine ls qs)) =
  np_ew o (map (evalR rho penv) ls) (map Q2R qs).
Proof.
  intros rho penv o ls qs Ho. unfold np_ew. revert qs.
  induction ls as [|x ls IH]; destruct qs as [|q qs]; cbn [map combine]; auto.
  f_equal; [|apply IH]. cbn [fst snd]. destruct o; try reflexivity. contradiction.
Qed.

Lemma ev_zip_pow_constr : forall rho penv ls qs,
  map (evalR rho penv) (map (fun ab => Bin Pow (fst ab) (Const (snd ab))) (combine ls qs)) =
  np_pow_consts (map (evalR rho penv) ls) qs.
Proof.
  intros rho penv ls. unfold np_pow_consts.
  induction ls as [|x ls IH]; destruct qs as [|q qs]; cbn [map combine]; auto.
  f_equal. apply IH.
Qed.

Lemma ev_zip_bin_constl : forall rho penv o ls qs,
  pow_ok o ls ->
  map (evalR rho penv) (map (fun ab => Bin o (Const (snd ab)) (fst ab)) (combine ls qs)) =
  np_ew o (map Q2R qs) (map (evalR rho penv) ls).
Proof.
  intros rho penv o ls qs. unfold np_ew. revert qs.
  induction ls as [|x ls IH]; destruct qs as [|q qs]; intros Hp; cbn [map combine]; auto.
  apply pow_ok_cons in Hp. destruct Hp as [Hx Hp]. f_equal; [|now apply IH].
  cbn [fst snd]. now rewrite evalR_Bin.
Qed.

Lemma ev_map_bin_scalar_r : forall rho penv o q ls,
  o <> Pow ->
  map (evalR rho penv) (map (fun e => Bin o e (Const q)) ls) = np_ew_scalar_r o (map (evalR rho penv) ls) (Q2R q).
Proof.
  intros rho penv o q ls Ho. unfold np_ew_scalar_r. rewrite !map_map. apply map_ext. intros e.
  destruct o; try reflexivity. contradiction.
Qed.

Lemma ev_map_bin_scalar_l : forall rho penv o q ls,
  pow_ok o ls ->
  map (evalR rho penv) (map (fun e => Bin o (Const q) e) ls) = np_ew_scalar_l o (Q2R q) (map (evalR rho penv) ls).
Proof.
  intros rho penv o q. unfold np_ew_scalar_l. induction ls as [|x ls IH]; intros Hp; cbn [map]; auto.
  apply pow_ok_cons in Hp. destruct Hp as [Hx Hp]. f_equal; [|now apply IH]. now rewrite evalR_Bin.
Qed.

Lemma pow_ok_concat : forall o rows r, pow_ok o (concat rows) -> In r rows -> pow_ok o r.
Proof.
  intros o rows r H Hin E. specialize (H E). rewrite Forall_forall in *. intros e He.
  apply H. apply in_concat. eauto.
Qed.

(* the shape tests of the model decide equality of shapes *)
Lemma shape_ok_spec : forall {A B} (a : list (list A)) (b : list (list B)),
  (Nat.eqb (length a) (length b) &&
   forallb (fun p => Nat.eqb (length (fst p)) (length (snd p))) (combine a b)) = true <-> shape a = shape b.
Proof.
  intros A B. unfold shape. induction a as [|x a IH]; destruct b as [|y b]; simpl; try (split; [discriminate|discriminate]).
  - tauto.
  - change (Nat.eqb (length a) (length b)) with (Nat.eqb (length a) (length b)).
    split.
    + intros H. apply andb_prop in H. destruct H as [Hl H]. apply andb_prop in H. destruct H as [Hxy H].
      apply Nat.eqb_eq in Hxy. f_equal; auto. apply IH. now rewrite Hl, H.
    + intros H. injection H as Hxy H. apply IH in H. apply andb_prop in H. destruct H as [Hl H].
      rewrite Hl, H, Hxy, Nat.eqb_refl. reflexivity.
Qed.

Lemma shape_eqb_spec : forall a b, shape_eqb a b = true <-> shape a = shape b.
Proof. intros. apply shape_ok_spec. Qed.
Lemma qshape_ok_spec : forall a q, qshape_ok a q = true <-> shape a = shape q.
Proof. intros. apply shape_ok_spec. Qed.

Lemma shape_zip : forall {A B C} (g : A * B -> C) (a : list (list A)) (b : list (list B)),
  shape a = shape b ->
  shape (map (fun p => map g (combine (fst p) (snd p))) (combine a b)) = shape a.
Proof.
  intros A B C g. unfold shape. induction a as [|x a IH]; destruct b as [|y b]; simpl; intros H; try discriminate; auto.
  injection H as Hxy H. f_equal; [|now apply IH]. rewrite map_length, combine_length. lia.
Qed.

Lemma shape_map_map : forall {A B} (g : A -> B) (a : list (list A)), shape (map (map g) a) = shape a.
Proof. intros. unfold shape. rewrite map_map. apply map_ext. intros r. now rewrite map_length. Qed.

Theorem m_binop_scalar : forall rho penv o l q w,
  o <> Pow ->
  m_binop o l (AScalar q) = RMat w ->
  evm rho penv w = np_mew_scalar_r o (evm rho penv l) (Q2R q) /\ shape (mrows w) = shape (mrows l).
Proof.
  unfold m_binop. intros rho penv o l q w Ho H. injection H as <-. cbn [mrows]. split; [|apply shape_map_map].
  unfold evm, np_mew_scalar_r. cbn [mrows]. rewrite !map_map. apply map_ext. intros r.
  now apply ev_map_bin_scalar_r.
Qed.

Theorem m_binop_pow_scalar : forall rho penv l q w,
  m_binop Pow l (AScalar q) = RMat w ->
  evm rho penv w = np_mpow_scalar (evm rho penv l) q.
Proof.
  unfold m_binop. intros rho penv l q w H. injection H as <-.
  unfold evm, np_mpow_scalar, np_pow_scalar. cbn [mrows]. rewrite !map_map. apply map_ext. intros r.
  rewrite !map_map. apply map_ext. reflexivity.
Qed.

Theorem m_binop_mat : forall rho penv o l r w,
  pow_ok o (mflat r) ->
  m_binop o l (AMat r) = RMat w ->
  evm rho penv w = np_mew o (evm rho penv l) (evm rho penv r) /\
  shape (mrows r) = shape (mrows l) /\ shape (mrows w) = shape (mrows l).
Proof.
  unfold m_binop, mflat. intros rho penv o l r w Hp H.
  destruct (shape_eqb (mrows l) (mrows r)) eqn:E; [|discriminate]. apply shape_eqb_spec in E.
  injection H as <-. cbn [mrows]. split; [|split; [auto | now apply shape_zip]].
  unfold evm, np_mew. cbn [mrows].
  rewrite (map_combine_map (map (evalR rho penv)) (map (evalR rho penv)) (fun p => np_ew o (fst p) (snd p))).
  rewrite map_map. apply map_ext_in. intros p Hin. cbn [fst snd].
  apply ev_zip_bin. eapply pow_ok_concat; eauto. destruct p. eapply in_combine_r; eauto.
Qed.

Theorem m_binop_arr2 : forall rho penv o l q w,
  o <> Pow ->
  m_binop o l (AArr2 q) = RMat w ->
  evm rho penv w = np_mew o (evm rho penv l) (map (map Q2R) q) /\
  shape q = shape (mrows l) /\ shape (mrows w) = shape (mrows l).
Proof.
  unfold m_binop. intros rho penv o l q w Ho H.
  destruct (qshape_ok (mrows l) q) eqn:E; [|discriminate]. apply qshape_ok_spec in E.
  injection H as <-. cbn [mrows]. split; [|split; [auto | now apply shape_zip]].
  unfold evm, np_mew. cbn [mrows].
  rewrite (map_combine_map (map (evalR rho penv)) (map Q2R) (fun p => np_ew o (fst p) (snd p))).
  rewrite map_map. apply map_ext. intros p. cbn [fst snd]. now apply ev_zip_bin_constr.
Qed.

Theorem m_binop_pow_arr2 : forall rho penv l q w,
  m_binop Pow l (AArr2 q) = RMat w ->
  evm rho penv w = np_mpow_consts (evm rho penv l) q /\ shape q = shape (mrows l).
Proof.
  unfold m_binop. intros rho penv l q w H.
  destruct (qshape_ok (mrows l) q) eqn:E; [|discriminate]. apply qshape_ok_spec in E.
  injection H as <-. split; auto.
  unfold evm, np_mpow_consts. cbn [mrows].
  rewrite <- (map_id q) at 2.
  rewrite (map_combine_map (map (evalR rho penv)) (fun x => x) (fun p => np_pow_consts (fst p) (snd p))).
  rewrite map_map. apply map_ext. intros p. cbn [fst snd]. apply ev_zip_pow_constr.
Qed.

Theorem m_rbinop_scalar : forall rho penv o self q w,
  pow_ok o (mflat self) ->
  m_rbinop o self (AScalar q) = RMat w ->
  evm rho penv w = np_mew_scalar_l o (Q2R q) (evm rho penv self) /\ shape (mrows w) = shape (mrows self).
Proof.
  unfold m_rbinop, mflat. intros rho penv o self q w Hp H. injection H as <-. cbn [mrows].
  split; [|apply shape_map_map].
  unfold evm, np_mew_scalar_l. cbn [mrows]. rewrite !map_map. apply map_ext_in. intros r Hin.
  apply ev_map_bin_scalar_l. eapply pow_ok_concat; eauto.
Qed.

(* np_mew with the constant array on the LEFT *)
Theorem m_rbinop_arr2 : forall rho penv o self q w,
  pow_ok o (mflat self) ->
  m_rbinop o self (AArr2 q) = RMat w ->
  evm rho penv w = np_mew o (map (map Q2R) q) (evm rho penv self) /\
  shape q = shape (mrows self) /\ shape (mrows w) = shape (mrows self).
Proof.
  unfold m_rbinop, mflat. intros rho penv o self q w Hp H.
  destruct (qshape_ok (mrows self) q) eqn:E; [|discriminate]. apply qshape_ok_spec in E.
  injection H as <-. cbn [mrows]. split; [|split; [auto | now apply shape_zip]].
  unfold evm. cbn [mrows]. rewrite map_map. clear E. revert Hp. generalize (mrows self) as rows. revert q.
  unfold np_mew.
  induction q as [|qr q IH]; destruct rows as [|r rows]; intros Hp; cbn [map combine]; auto.
  f_equal.
  - cbn [fst snd]. apply ev_zip_bin_constl. eapply pow_ok_concat; eauto. now left.
  - apply IH. intros Eo. specialize (Hp Eo). simpl in Hp. apply Forall_app in Hp. tauto.
Qed.

Theorem m_neg_correct : forall rho penv m w,
  m_neg m = RMat w -> evm rho penv w = np_mneg (evm rho penv m) /\ shape (mrows w) = shape (mrows m).
Proof.
  unfold m_neg. intros rho penv m w H. injection H as <-. cbn [mrows]. split; [|apply shape_map_map].
  unfold evm, np_mneg, np_neg. cbn [mrows]. rewrite !map_map. apply map_ext. intros r.
  now rewrite !map_map.
Qed.

(* ---- 3. reductions and products ---- *)
Theorem m_sum_correct : forall rho penv m e,
  m_sum m = RExpr e -> evalR rho penv e = np_msum (evm rho penv m).
Proof.
  unfold m_sum, mflat. intros rho penv m e H. injection H as <-. simpl.
  unfold np_msum, np_sum, evm. now rewrite concat_map, sumR_concat.
Qed.

Theorem m_frob_correct : forall rho penv m e,
  m_frob m = RExpr e -> evalR rho penv e = np_frob (evm rho penv m).
Proof.
  unfold m_frob, mflat. intros rho penv m e H. injection H as <-. simpl.
  unfold np_frob, np_msum, np_sum, evm. f_equal.
  rewrite <- sumR_concat. f_equal. rewrite <- !concat_map. now rewrite map_map.
Qed.

(* the left-accumulated 0 + a1*x1 + a2*x2 + ... *)
Lemma evalR_fold_muladd : forall rho penv ps a,
  evalR rho penv (fold_left (fun acc p => Bin Add acc (Bin Mul (fst p) (snd p))) ps a) =
  evalR rho penv a + sumR (map (fun p => evalR rho penv (fst p) * evalR rho penv (snd p)) ps).
Proof.
  intros rho penv. induction ps as [|p ps IH]; intros a; simpl fold_left.
  - simpl. lra.
  - rewrite IH. simpl. lra.
Qed.

Theorem m_matvec_correct : forall rho penv m x w,
  m_matvec m x = RVec w ->
  ev rho penv w = np_matvec (evm rho penv m) (ev rho penv x) /\
  ncols m = vsize x /\ vsize w = nrows m.
Proof.
  unfold m_matvec. intros rho penv m x w H.
  destruct (Nat.eqb (ncols m) (vsize x)) eqn:E; [|discriminate]. apply Nat.eqb_eq in E.
  injection H as <-. repeat split; auto.
  - unfold ev, np_matvec, np_dot, evm. cbn [vel]. rewrite !map_map. apply map_ext. intros row.
    rewrite evalR_fold_muladd, evalR_c0e, dotR_zip. lra.
  - unfold vsize, nrows. cbn [vel]. now rewrite map_length.
Qed.

(* on a rectangular matrix, success means EVERY row has the vector's length *)
Corollary m_matvec_rows_full : forall m x w,
  rectangular (mrows m) (ncols m) -> m_matvec m x = RVec w -> rectangular (mrows m) (vsize x).
Proof.
  intros m x w Hrect H. destruct (m_matvec_correct (fun _ => 0) (fun _ => 0) _ _ _ H) as (_ & E & _).
  now rewrite <- E.
Qed.

(* ---- 4. rejection ---- *)
Theorem m_getitem_out_of_range : forall m i j,
  (i < - Z.of_nat (nrows m) \/ Z.of_nat (nrows m) <= i)%Z \/
  (j < - Z.of_nat (ncols m) \/ Z.of_nat (ncols m) <= j)%Z ->
  m_getitem m i j = RErr EIndex.
Proof.
  unfold m_getitem. intros m i j [H|H]; rewrite (zidx_none _ _ H); auto.
  destruct (zidx (nrows m) i); auto.
Qed.

Theorem m_row_out_of_range : forall m i a b c,
  (i < - Z.of_nat (nrows m) \/ Z.of_nat (nrows m) <= i)%Z -> m_row m i a b c = RErr EIndex.
Proof. unfold m_row. intros m i a b c H. now rewrite zidx_none. Qed.

Theorem m_row_empty : forall m i a b c,
  slice_indices (ncols m) a b c = Some [] -> m_row m i a b c = RErr EIndex.
Proof. unfold m_row. intros m i a b c ->. destruct (zidx (nrows m) i); reflexivity. Qed.

Theorem m_col_out_of_range : forall m a b c j,
  (j < - Z.of_nat (ncols m) \/ Z.of_nat (ncols m) <= j)%Z -> m_col m a b c j = RErr EIndex.
Proof. unfold m_col. intros m a b c j H. now rewrite zidx_none. Qed.

Theorem m_col_empty : forall m a b c j,
  slice_indices (nrows m) a b c = Some [] -> m_col m a b c j = RErr EIndex.
Proof. unfold m_col. intros m a b c j ->. destruct (zidx (ncols m) j); reflexivity. Qed.

Theorem m_sub_empty : forall m s1 e1 t1 s2 e2 t2 ri ci,
  slice_indices (nrows m) s1 e1 t1 = Some ri -> slice_indices (ncols m) s2 e2 t2 = Some ci ->
  ri = [] \/ ci = [] -> m_sub m s1 e1 t1 s2 e2 t2 = RErr EIndex.
Proof.
  unfold m_sub. intros m s1 e1 t1 s2 e2 t2 ri ci -> -> [-> | ->]; [reflexivity|]. destruct ri; reflexivity.
Qed.

Theorem m_sub_step0 : forall m s1 e1 t1 s2 e2 t2,
  t1 = Some 0%Z \/ t2 = Some 0%Z -> m_sub m s1 e1 t1 s2 e2 t2 = RErr EInvalid.
Proof.
  unfold m_sub. intros m s1 e1 t1 s2 e2 t2 [-> | ->].
  - reflexivity.
  - destruct (slice_indices (nrows m) s1 e1 t1) as [[|i0 ri]|]; reflexivity.
Qed.

Theorem m_diagonal_not_square : forall m, nrows m <> ncols m -> m_diagonal m = RErr ESquare.
Proof. unfold m_diagonal. intros m H. apply Nat.eqb_neq in H. now rewrite H. Qed.

Theorem m_trace_not_square : forall m, nrows m <> ncols m -> m_trace m = RErr ESquare.
Proof. unfold m_trace. intros m H. apply Nat.eqb_neq in H. now rewrite H. Qed.

Theorem m_binop_mat_mismatch : forall o l w,
  shape (mrows l) <> shape (mrows w) -> m_binop o l (AMat w) = RErr EDim.
Proof.
  unfold m_binop. intros o l w H. destruct (shape_eqb (mrows l) (mrows w)) eqn:E; auto.
  apply shape_eqb_spec in E. contradiction.
Qed.

Theorem m_binop_arr2_mismatch : forall o l q,
  shape (mrows l) <> shape q -> m_binop o l (AArr2 q) = RErr EDim.
Proof.
  unfold m_binop. intros o l q H. destruct (qshape_ok (mrows l) q) eqn:E; auto.
  apply qshape_ok_spec in E. contradiction.
Qed.

Theorem m_binop_arr1 : forall o l qs, m_binop o l (AArr1 qs) = RErr EDim.
Proof. reflexivity. Qed.

Theorem m_binop_vec : forall o l v, m_binop o l (AVec v) = RErr EInvalid.
Proof. reflexivity. Qed.

Theorem m_rbinop_arr2_mismatch : forall o self q,
  shape (mrows self) <> shape q -> m_rbinop o self (AArr2 q) = RErr EDim.
Proof.
  unfold m_rbinop. intros o self q H. destruct (qshape_ok (mrows self) q) eqn:E; auto.
  apply qshape_ok_spec in E. contradiction.
Qed.

(* a matrix result always has exactly the left operand's shape *)
Theorem m_binop_shape : forall o l r w, m_binop o l r = RMat w -> shape (mrows w) = shape (mrows l).
Proof.
  unfold m_binop. intros o l r w H. destruct r as [q|u|qs|q|u|]; try discriminate.
  - injection H as <-. apply shape_map_map.
  - destruct (qshape_ok (mrows l) q) eqn:E; [|discriminate]. apply qshape_ok_spec in E.
    injection H as <-. now apply shape_zip.
  - destruct (shape_eqb (mrows l) (mrows u)) eqn:E; [|discriminate]. apply shape_eqb_spec in E.
    injection H as <-. now apply shape_zip.
Qed.

Theorem m_matvec_mismatch : forall m x, ncols m <> vsize x -> m_matvec m x = RErr EDim.
Proof. unfold m_matvec. intros m x H. apply Nat.eqb_neq in H. now rewrite H. Qed.

(* ================================================================== *)
(* 5. slice_indices means what Python's slice(a,b,c).indices(n) means  *)
(* ================================================================== *)
Section Go.
  Variables st b : Z.
  Fixpoint go_up (fuel : nat) (i : Z) : list nat :=
    match fuel with
    | O => []
    | S f => if (i <? b)%Z then Z.to_nat i :: go_up f (i + st)%Z else []
    end.
  Fixpoint go_dn (fuel : nat) (i : Z) : list nat :=
    match fuel with
    | O => []
    | S f => if (b <? i)%Z then Z.to_nat i :: go_dn f (i + st)%Z else []
    end.
End Go.

Definition slice_step (c : option Z) : Z := match c with Some s => s | None => 1%Z end.
(* normalised bounds, as CPython's PySlice_AdjustIndices computes them *)
Definition norm_up (zn x : Z) : Z := if (x <? 0)%Z then Z.max 0 (x + zn) else Z.min zn x.
Definition norm_dn (zn x : Z) : Z := if (x <? 0)%Z then Z.max (-1) (x + zn) else Z.min (zn - 1) x.
Definition start_up (n : nat) (a : option Z) : Z := match a with Some x => norm_up (Z.of_nat n) x | None => 0%Z end.
Definition stop_up (n : nat) (b : option Z) : Z := match b with Some x => norm_up (Z.of_nat n) x | None => Z.of_nat n end.
Definition start_dn (n : nat) (a : option Z) : Z := match a with Some x => norm_dn (Z.of_nat n) x | None => (Z.of_nat n - 1)%Z end.
Definition stop_dn (n : nat) (b : option Z) : Z := match b with Some x => norm_dn (Z.of_nat n) x | None => (-1)%Z end.

Lemma slice_indices_unfold : forall n a b c,
  slice_indices n a b c =
  if (slice_step c =? 0)%Z then None
  else if (0 <? slice_step c)%Z then Some (go_up (slice_step c) (stop_up n b) n (start_up n a))
  else Some (go_dn (slice_step c) (stop_dn n b) n (start_dn n a)).
Proof. reflexivity. Qed.

Lemma start_up_range : forall n a, (0 <= start_up n a <= Z.of_nat n)%Z.
Proof. intros n [x|]; unfold start_up, norm_up; [destruct (x <? 0)%Z eqn:E; [apply Z.ltb_lt in E|apply Z.ltb_ge in E]|]; lia. Qed.
Lemma stop_up_range : forall n b, (0 <= stop_up n b <= Z.of_nat n)%Z.
Proof. intros n [x|]; unfold stop_up, norm_up; [destruct (x <? 0)%Z eqn:E; [apply Z.ltb_lt in E|apply Z.ltb_ge in E]|]; lia. Qed.
Lemma start_dn_range : forall n a, (-1 <= start_dn n a <= Z.of_nat n - 1)%Z.
Proof. intros n [x|]; unfold start_dn, norm_dn; [destruct (x <? 0)%Z eqn:E; [apply Z.ltb_lt in E|apply Z.ltb_ge in E]|]; lia. Qed.
Lemma stop_dn_range : forall n b, (-1 <= stop_dn n b <= Z.of_nat n - 1)%Z.
Proof. intros n [x|]; unfold stop_dn, norm_dn; [destruct (x <? 0)%Z eqn:E; [apply Z.ltb_lt in E|apply Z.ltb_ge in E]|]; lia. Qed.

(* ascending walk: in range, strictly increasing, and exactly the arithmetic progression below b *)
Lemma go_up_props : forall st b n, (0 < st)%Z -> (b <= Z.of_nat n)%Z ->
  forall fuel i, (0 <= i)%Z ->
  Forall (fun k => (Z.to_nat i <= k < n)%nat) (go_up st b fuel i) /\ StronglySorted lt (go_up st b fuel i).
Proof.
  intros st b n Hst Hb. induction fuel as [|f IH]; intros i Hi; simpl.
  - split; constructor.
  - destruct (i <? b)%Z eqn:E; [apply Z.ltb_lt in E | split; constructor].
    destruct (IH (i + st)%Z ltac:(lia)) as [HF HS]. split.
    + constructor; [lia|]. eapply Forall_impl; [|exact HF]. simpl. intros k Hk. lia.
    + constructor; auto. eapply Forall_impl; [|exact HF]. simpl. intros k Hk. lia.
Qed.

Lemma go_up_sound : forall st b fuel i k, In k (go_up st b fuel i) ->
  exists j : nat, (i + Z.of_nat j * st < b)%Z /\ k = Z.to_nat (i + Z.of_nat j * st).
Proof.
  intros st b. induction fuel as [|f IH]; intros i k H; simpl in H; [contradiction|].
  destruct (i <? b)%Z eqn:E; [apply Z.ltb_lt in E | contradiction]. destruct H as [<- | H].
  - exists 0%nat. simpl. rewrite Z.add_0_r. auto.
  - destruct (IH _ _ H) as (j & Hj & ->). exists (S j).
    replace (i + Z.of_nat (S j) * st)%Z with (i + st + Z.of_nat j * st)%Z by lia. auto.
Qed.

(* the fuel never cuts the walk short *)
Lemma go_up_complete : forall st b, (0 < st)%Z ->
  forall fuel i (j : nat), (b - i <= Z.of_nat fuel)%Z -> (i + Z.of_nat j * st < b)%Z ->
  In (Z.to_nat (i + Z.of_nat j * st)) (go_up st b fuel i).
Proof.
  intros st b Hst. induction fuel as [|f IH]; intros i j Hf Hj.
  - exfalso. nia.
  - simpl. assert (Hib : (i < b)%Z) by nia. apply Z.ltb_lt in Hib. rewrite Hib. apply Z.ltb_lt in Hib.
    destruct j as [|j].
    + left. f_equal. lia.
    + right. replace (i + Z.of_nat (S j) * st)%Z with (i + st + Z.of_nat j * st)%Z by lia.
      apply IH; lia.
Qed.

Lemma go_dn_props : forall st b n, (st < 0)%Z -> (-1 <= b)%Z ->
  forall fuel i, (i <= Z.of_nat n - 1)%Z ->
  Forall (fun k => (Z.of_nat k <= i)%Z /\ (k < n)%nat) (go_dn st b fuel i) /\
  StronglySorted gt (go_dn st b fuel i).
Proof.
  intros st b n Hst Hb. induction fuel as [|f IH]; intros i Hi; simpl.
  - split; constructor.
  - destruct (b <? i)%Z eqn:E; [apply Z.ltb_lt in E | split; constructor].
    destruct (IH (i + st)%Z ltac:(lia)) as [HF HS]. split.
    + constructor; [lia|]. eapply Forall_impl; [|exact HF]. simpl. intros k Hk. lia.
    + constructor; auto. eapply Forall_impl; [|exact HF]. simpl. intros k Hk. lia.
Qed.

Lemma go_dn_sound : forall st b fuel i k, In k (go_dn st b fuel i) ->
  exists j : nat, (b < i + Z.of_nat j * st)%Z /\ k = Z.to_nat (i + Z.of_nat j * st).
Proof.
  intros st b. induction fuel as [|f IH]; intros i k H; simpl in H; [contradiction|].
  destruct (b <? i)%Z eqn:E; [apply Z.ltb_lt in E | contradiction]. destruct H as [<- | H].
  - exists 0%nat. simpl. rewrite Z.add_0_r. auto.
  - destruct (IH _ _ H) as (j & Hj & ->). exists (S j).
    replace (i + Z.of_nat (S j) * st)%Z with (i + st + Z.of_nat j * st)%Z by lia. auto.
Qed.

Lemma go_dn_complete : forall st b, (st < 0)%Z ->
  forall fuel i (j : nat), (i - b <= Z.of_nat fuel)%Z -> (b < i + Z.of_nat j * st)%Z ->
  In (Z.to_nat (i + Z.of_nat j * st)) (go_dn st b fuel i).
Proof.
  intros st b Hst. induction fuel as [|f IH]; intros i j Hf Hj.
  - exfalso. nia.
  - simpl. assert (Hib : (b < i)%Z) by nia. apply Z.ltb_lt in Hib. rewrite Hib. apply Z.ltb_lt in Hib.
    destruct j as [|j].
    + left. f_equal. lia.
    + right. replace (i + Z.of_nat (S j) * st)%Z with (i + st + Z.of_nat j * st)%Z by lia.
      apply IH; lia.
Qed.

(* every selected position is a valid index *)
Theorem slice_indices_bound : forall n a b c idx,
  slice_indices n a b c = Some idx -> Forall (fun k => (k < n)%nat) idx.
Proof.
  intros n a b c idx. rewrite slice_indices_unfold.
  destruct (slice_step c =? 0)%Z eqn:E0; [discriminate|]. apply Z.eqb_neq in E0.
  destruct (0 <? slice_step c)%Z eqn:E1; intros H; injection H as <-.
  - apply Z.ltb_lt in E1. pose proof (start_up_range n a). pose proof (stop_up_range n b).
    destruct (go_up_props (slice_step c) (stop_up n b) n E1 ltac:(lia) n (start_up n a) ltac:(lia)) as [HF _].
    eapply Forall_impl; [|exact HF]. simpl. intros k Hk. lia.
  - apply Z.ltb_ge in E1. pose proof (start_dn_range n a). pose proof (stop_dn_range n b).
    destruct (go_dn_props (slice_step c) (stop_dn n b) n ltac:(lia) ltac:(lia) n (start_dn n a) ltac:(lia)) as [HF _].
    eapply Forall_impl; [|exact HF]. simpl. intros k Hk. lia.
Qed.

(* views are MONOTONE selections *)
Theorem slice_indices_increasing : forall n a b c idx,
  (0 < slice_step c)%Z -> slice_indices n a b c = Some idx -> StronglySorted lt idx.
Proof.
  intros n a b c idx Hc. rewrite slice_indices_unfold.
  destruct (slice_step c =? 0)%Z eqn:E0; [discriminate|].
  apply Z.ltb_lt in Hc. rewrite Hc. apply Z.ltb_lt in Hc. intros H; injection H as <-.
  pose proof (start_up_range n a). pose proof (stop_up_range n b).
  now destruct (go_up_props (slice_step c) (stop_up n b) n Hc ltac:(lia) n (start_up n a) ltac:(lia)).
Qed.

Theorem slice_indices_decreasing : forall n a b c idx,
  (slice_step c < 0)%Z -> slice_indices n a b c = Some idx -> StronglySorted gt idx.
Proof.
  intros n a b c idx Hc. rewrite slice_indices_unfold.
  destruct (slice_step c =? 0)%Z eqn:E0; [discriminate|].
  destruct (0 <? slice_step c)%Z eqn:E1; [apply Z.ltb_lt in E1; lia|]. intros H; injection H as <-.
  pose proof (start_dn_range n a). pose proof (stop_dn_range n b).
  now destruct (go_dn_props (slice_step c) (stop_dn n b) n Hc ltac:(lia) n (start_dn n a) ltac:(lia)).
Qed.

Lemma StronglySorted_NoDup : forall (R : nat -> nat -> Prop) l,
  (forall x, ~ R x x) -> StronglySorted R l -> NoDup l.
Proof.
  intros R l Hirr H. induction H as [|x l HS IH HF]; constructor; auto.
  intros Hin. rewrite Forall_forall in HF. exact (Hirr x (HF x Hin)).
Qed.

Theorem slice_indices_NoDup : forall n a b c idx, slice_indices n a b c = Some idx -> NoDup idx.
Proof.
  intros n a b c idx H. destruct (Z.lt_trichotomy (slice_step c) 0) as [Hc | [Hc | Hc]].
  - eapply (StronglySorted_NoDup gt); [intros x; lia|]. eapply slice_indices_decreasing; eauto.
  - rewrite slice_indices_unfold, Hc in H. discriminate.
  - eapply (StronglySorted_NoDup lt); [intros x; lia|]. eapply slice_indices_increasing; eauto.
Qed.

Theorem slice_indices_step0 : forall n a b, slice_indices n a b (Some 0%Z) = None.
Proof. reflexivity. Qed.

Theorem slice_indices_defined : forall n a b c, slice_step c <> 0%Z -> exists idx, slice_indices n a b c = Some idx.
Proof.
  intros n a b c Hc. rewrite slice_indices_unfold. apply Z.eqb_neq in Hc. rewrite Hc.
  destruct (0 <? slice_step c)%Z; eauto.
Qed.

(* exactly Python's range(start', stop', step) with the normalised bounds: membership *)
Theorem slice_indices_up_spec : forall n a b c idx k,
  (0 < slice_step c)%Z -> slice_indices n a b c = Some idx ->
  (In k idx <-> exists j : nat, (start_up n a + Z.of_nat j * slice_step c < stop_up n b)%Z /\
                                k = Z.to_nat (start_up n a + Z.of_nat j * slice_step c)).
Proof.
  intros n a b c idx k Hc. rewrite slice_indices_unfold.
  destruct (slice_step c =? 0)%Z eqn:E0; [discriminate|].
  apply Z.ltb_lt in Hc. rewrite Hc. apply Z.ltb_lt in Hc. intros H; injection H as <-.
  pose proof (start_up_range n a). pose proof (stop_up_range n b). split.
  - apply go_up_sound.
  - intros (j & Hj & ->). apply go_up_complete; auto. lia.
Qed.

Theorem slice_indices_dn_spec : forall n a b c idx k,
  (slice_step c < 0)%Z -> slice_indices n a b c = Some idx ->
  (In k idx <-> exists j : nat, (stop_dn n b < start_dn n a + Z.of_nat j * slice_step c)%Z /\
                                k = Z.to_nat (start_dn n a + Z.of_nat j * slice_step c)).
Proof.
  intros n a b c idx k Hc. rewrite slice_indices_unfold.
  destruct (slice_step c =? 0)%Z eqn:E0; [discriminate|].
  destruct (0 <? slice_step c)%Z eqn:E1; [apply Z.ltb_lt in E1; lia|]. intros H; injection H as <-.
  pose proof (start_dn_range n a). pose proof (stop_dn_range n b). split.
  - apply go_dn_sound.
  - intros (j & Hj & ->). apply go_dn_complete; auto. lia.
Qed.

Lemma go_up_seq : forall f k, go_up 1 (Z.of_nat (k + f)) f (Z.of_nat k) = seq k f.
Proof.
  induction f as [|f IH]; intros k; simpl; auto.
  assert (E : (Z.of_nat k <? Z.of_nat (k + S f))%Z = true) by (apply Z.ltb_lt; lia). rewrite E.
  rewrite Nat2Z.id. f_equal. replace (Z.of_nat k + 1)%Z with (Z.of_nat (S k)) by lia.
  replace (k + S f)%nat with (S k + f)%nat by lia. apply IH.
Qed.

Theorem slice_full : forall n, slice_indices n None None None = Some (seq 0 n).
Proof. intros n. rewrite slice_indices_unfold. simpl. f_equal. exact (go_up_seq n 0). Qed.

Lemma go_dn_rev : forall f, go_dn (-1) (-1) f (Z.of_nat f - 1) = rev (seq 0 f).
Proof.
  induction f as [|f IH]; auto.
  rewrite seq_S, rev_app_distr. simpl rev. simpl app. cbn [go_dn].
  assert (E : (-1 <? Z.of_nat (S f) - 1)%Z = true) by (apply Z.ltb_lt; lia). rewrite E.
  f_equal; [lia|]. replace (Z.of_nat (S f) - 1 + -1)%Z with (Z.of_nat f - 1)%Z by lia. apply IH.
Qed.

Theorem slice_reverse : forall n, slice_indices n None None (Some (-1)%Z) = Some (rev (seq 0 n)).
Proof. intros n. rewrite slice_indices_unfold. simpl. f_equal. exact (go_dn_rev n). Qed.

(* x[:] and x[::-1] on values *)
Corollary np_slice_full : forall l, np_slice l None None None = Some l.
Proof.
  intros l. unfold np_slice. rewrite slice_full. simpl. f_equal. unfold np_select, np_index.
  symmetry. rewrite <- (map_id l) at 1. apply (list_as_seq (fun x => x) 0 l).
Qed.

Corollary np_slice_reverse : forall l, np_slice l None None (Some (-1)%Z) = Some (rev l).
Proof.
  intros l. unfold np_slice. rewrite slice_reverse. simpl. f_equal. unfold np_select, np_index.
  rewrite map_rev. f_equal. symmetry. rewrite <- (map_id l) at 1. apply (list_as_seq (fun x => x) 0 l).
Qed.

Example slice_5_1_4 : slice_indices 5 (Some 1%Z) (Some 4%Z) None = Some [1;2;3]%nat.
Proof. vm_compute. reflexivity. Qed.
Example slice_5_rev : slice_indices 5 None None (Some (-1)%Z) = Some [4;3;2;1;0]%nat.
Proof. vm_compute. reflexivity. Qed.
Example slice_5_step2 : slice_indices 5 None None (Some 2%Z) = Some [0;2;4]%nat.
Proof. vm_compute. reflexivity. Qed.
Example slice_5_m2 : slice_indices 5 (Some (-2)%Z) None None = Some [3;4]%nat.
Proof. vm_compute. reflexivity. Qed.
Example slice_5_4_1_m2 : slice_indices 5 (Some 4%Z) (Some 1%Z) (Some (-2)%Z) = Some [4;2]%nat.
Proof. vm_compute. reflexivity. Qed.
Example slice_5_10_20 : slice_indices 5 (Some 10%Z) (Some 20%Z) None = Some [].
Proof. vm_compute. reflexivity. Qed.
Example slice_5_step0 : slice_indices 5 None None (Some 0%Z) = None.
Proof. vm_compute. reflexivity. Qed.
Example slice_5_m100 : slice_indices 5 (Some (-100)%Z) (Some 100%Z) None = Some [0;1;2;3;4]%nat.
Proof. vm_compute. reflexivity. Qed.
Example slice_5_rev_from_10 : slice_indices 5 (Some 10%Z) (Some (-10)%Z) (Some (-3)%Z) = Some [4;1]%nat.
Proof. vm_compute. reflexivity. Qed.

(* ---- a slice of a well-formed VectorVariable is a well-formed VectorVariable ----
   (uses that the selection is in range and duplicate-free); hence reductions compose
   with views: sum(x[a:b:c]) = np_sum of the selected values *)
Lemma NoDupb_NoDup : forall l, NoDupb l = true <-> NoDup l.
Proof.
  induction l as [|x r IH]; simpl.
  - split; [constructor | auto].
  - rewrite andb_true_iff, negb_true_iff, IH. split.
    + intros [Hx Hr]. constructor; auto. intros Hin.
      assert (E : existsb (String.eqb x) r = true) by (apply existsb_exists; exists x; split; auto; apply String.eqb_refl).
      congruence.
    + intros H. inversion H as [|? ? Hx Hr]; subst. split; auto.
      destruct (existsb (String.eqb x) r) eqn:E; auto. apply existsb_exists in E.
      destruct E as (y & Hy & Exy). apply String.eqb_eq in Exy. subst. contradiction.
Qed.

Lemma vars_as_names : forall es, forallb is_var es = true -> es = map Var (vec_names es).
Proof.
  induction es as [|e es IH]; simpl; intros H; auto. apply andb_prop in H. destruct H as [He H].
  destruct e; try discriminate. simpl. f_equal. now apply IH.
Qed.

Lemma vec_names_map_Var : forall names, vec_names (map Var names) = names.
Proof. induction names as [|x r IH]; simpl; auto. now rewrite IH. Qed.

Lemma NoDup_map_inj_on : forall {A B} (f : A -> B) l,
  NoDup l -> (forall x y, In x l -> In y l -> f x = f y -> x = y) -> NoDup (map f l).
Proof.
  intros A B f l H. induction H as [|x l Hx Hl IH]; intros Hinj; simpl; constructor.
  - intros Hin. apply in_map_iff in Hin. destruct Hin as (y & Hy & Hyin).
    assert (y = x) by (apply Hinj; simpl; auto). subst. contradiction.
  - apply IH. intros a b Ha Hb. apply Hinj; simpl; auto.
Qed.

Lemma select_wf : forall i es idx,
  kind_wf (KVar i) es = true -> NoDup idx -> Forall (fun k => (k < length es)%nat) idx ->
  kind_wf (KVar 0) (select c0e es idx) = true.
Proof.
  intros i es idx Hwf Hnd Hb. simpl in Hwf. apply andb_prop in Hwf. destruct Hwf as [Hv Hn].
  apply NoDupb_NoDup in Hn. rewrite (vars_as_names es Hv) in *. set (names := vec_names es) in *.
  rewrite vec_names_map_Var in Hn. rewrite map_length in Hb.
  assert (Hsel : select c0e (map Var names) idx = map Var (map (fun k => nth k names ""%string) idx)).
  { unfold select. rewrite map_map. apply map_ext_in. intros k Hk.
    rewrite Forall_forall in Hb. specialize (Hb k Hk).
    rewrite (nth_indep _ c0e (Var ""%string)) by now rewrite map_length. apply map_nth. }
  rewrite Hsel. simpl. apply andb_true_intro. split.
  - apply forallb_forall. intros e He. apply in_map_iff in He. destruct He as (x & <- & _). reflexivity.
  - rewrite vec_names_map_Var. apply NoDupb_NoDup. apply NoDup_map_inj_on; auto.
    intros x y Hx Hy Hxy. rewrite Forall_forall in Hb.
    eapply (proj1 (NoDup_nth names ""%string)); eauto.
Qed.

Theorem v_slice_wf : forall v i a b c w,
  vk v = KVar i -> kind_wf (vk v) (vel v) = true ->
  v_slice v a b c = RVec w -> kind_wf (vk w) (vel w) = true.
Proof.
  intros v i a b c w Hk Hwf H. destruct (v_slice_correct (fun _ => 0) (fun _ => 0) _ _ _ _ _ H)
    as (idx & Hidx & _ & Hvel & Hkw & _).
  rewrite Hkw, Hvel. rewrite Hk in Hwf. eapply select_wf; eauto.
  - eapply slice_indices_NoDup; eauto.
  - eapply slice_indices_bound; eauto.
Qed.

Corollary v_sum_slice : forall rho penv v i a b c w e,
  vk v = KVar i -> kind_wf (vk v) (vel v) = true ->
  v_slice v a b c = RVec w -> v_sum w = RExpr e ->
  exists idx, slice_indices (vsize v) a b c = Some idx /\
              evalR rho penv e = np_sum (np_select (ev rho penv v) idx).
Proof.
  intros rho penv v i a b c w e Hk Hwf Hs Hsum.
  pose proof (v_slice_wf _ _ _ _ _ _ Hk Hwf Hs) as Hw.
  destruct (v_slice_correct rho penv _ _ _ _ _ Hs) as (idx & Hidx & _ & _ & _ & Hev & _).
  exists idx. split; auto. rewrite <- Hev. now apply v_sum_correct.
Qed.

(* ================================================================== *)
(* 6. Symmetric matrices share their off-diagonal entries              *)
(* ================================================================== *)
Theorem sym_rows_symmetric : forall names n i j d,
  (i < n)%nat -> (j < n)%nat ->
  nth j (nth i (sym_rows names n) []) d = nth i (nth j (sym_rows names n) []) d.
Proof.
  intros names n i j d Hi Hj. unfold sym_rows.
  rewrite !(nth_map_seq _ n _ []) by assumption. rewrite !nth_map_seq by assumption.
  destruct (Nat.ltb j i) eqn:E1; destruct (Nat.ltb i j) eqn:E2; auto.
  - apply Nat.ltb_lt in E1. apply Nat.ltb_lt in E2. lia.
  - apply Nat.ltb_ge in E1. apply Nat.ltb_ge in E2. assert (i = j) by lia. now subst.
Qed.

Theorem sym_rows_shape : forall names n, shape (sym_rows names n) = repeat n n.
Proof.
  intros names n. unfold sym_rows, shape. rewrite map_map.
  transitivity (map (fun _ : nat => n) (seq 0 n)).
  - apply map_ext. intros i. now rewrite map_length, seq_length.
  - assert (Hrep : forall (l : list nat) (c : nat), map (fun _ => c) l = repeat c (length l))
      by (induction l as [|x l IHl]; simpl; intros; f_equal; auto).
    now rewrite Hrep, seq_length.
Qed.

(* ================================================================== *)
(* Non-vacuity: a concrete 2x3 MatrixVariable times a 3-vector         *)
(* ================================================================== *)
Definition exM : mobj := mkM true [[Var "a00"; Var "a01"; Var "a02"]; [Var "a10"; Var "a11"; Var "a12"]]%string.
Definition exX : vobj := mkV (KVar 1) [Var "x0"; Var "x1"; Var "x2"]%string.
Definition ex_rho : env := fun s =>
  if String.eqb s "a00" then 1 else if String.eqb s "a01" then 2 else if String.eqb s "a02" then 3 else
  if String.eqb s "a10" then 4 else if String.eqb s "a11" then 5 else if String.eqb s "a12" then 6 else
  if String.eqb s "x0" then 1 else if String.eqb s "x1" then 2 else if String.eqb s "x2" then 3 else 0.

Example m_matvec_example :
  exists w, m_matvec exM exX = RVec w /\ ev ex_rho (fun _ => 0) w = [14; 32].
Proof.
  eexists. split; [reflexivity|]. unfold ev, ex_rho. simpl. unfold Q2R. simpl.
  apply f_equal2; [lra|]. apply f_equal2; [lra|reflexivity].
Qed.

(* the same through the general theorem: the NumPy product of the VALUES *)
Example m_matvec_example_np :
  np_matvec (evm ex_rho (fun _ => 0) exM) (ev ex_rho (fun _ => 0) exX) = [14; 32].
Proof.
  unfold evm, ev, ex_rho, np_matvec, np_dot. simpl.
  apply f_equal2; [lra|]. apply f_equal2; [lra|reflexivity].
Qed.

Example m_matvec_example_rejected :
  m_matvec exM (mkV (KVar 2) [Var "x0"; Var "x1"]%string) = RErr EDim.
Proof. reflexivity. Qed.

Example v_binop_example_rejected :
  v_binop Add exX (AVec (mkV (KVar 2) [Var "y0"; Var "y1"]%string)) = RErr EDim.
Proof. reflexivity. Qed.

Example v_slice_example :
  v_slice exX None None (Some (-1)%Z) = RVec (mkV (KVar 0) [Var "x2"; Var "x1"; Var "x0"]%string).
Proof. reflexivity. Qed.

Example m_T_example :
  m_T exM = RMat (mkM true [[Var "a00"; Var "a10"]; [Var "a01"; Var "a11"]; [Var "a02"; Var "a12"]]%string).
Proof. reflexivity. Qed.

(* ---- why the hypotheses are there (sharpness) ---- *)
(* [kind_wf] in v_sum_correct: a KVar-tagged object whose elements are not Var nodes loses them *)
Example v_sum_needs_wf :
  v_sum (mkV (KVar 0) [Const 1%Q]) = RExpr (VSum 0 []) /\
  evalR (fun _ => 0) (fun _ => 0) (VSum 0 []) = 0 /\
  np_sum (ev (fun _ => 0) (fun _ => 0) (mkV (KVar 0) [Const 1%Q])) = 1.
Proof. repeat split; simpl; unfold Q2R; simpl; lra. Qed.

(* [pow_ok] in v_binop_vec: with a literal right element the tree denotes powQ, not Rpower *)
Example v_binop_pow_literal :
  v_binop Pow (mkV KExpr [Var "x"%string]) (AVec (mkV KExpr [Const 2%Q])) =
  RVec (mkV KExpr [Bin Pow (Var "x"%string) (Const 2%Q)]) /\
  forall rho penv, evalR rho penv (Bin Pow (Var "x"%string) (Const 2%Q)) = rho "x"%string * (rho "x"%string * 1).
Proof. split; [reflexivity|]. intros. reflexivity. Qed.

(* the trace of a 0x0 matrix is rejected (np.trace would give 0): hence [nrows m <> 0] in m_trace_correct *)
Example m_trace_empty : m_trace (mkM true []) = RErr ESquare.
Proof. reflexivity. Qed.

(* rectangularity in m_T_correct: on a ragged object the model pads with Constant 0 *)
Example m_T_ragged :
  m_T (mkM false [[Var "a"; Var "b"]; [Var "c"]]%string) =
  RMat (mkM false [[Var "a"; Var "c"]; [Var "b"; c0e]]%string).
Proof. reflexivity. Qed.

(* ================================================================== *)
Print Assumptions v_getitem_correct.
Print Assumptions v_slice_correct.
Print Assumptions v_binop_vec.
Print Assumptions v_binop_vec_mismatch.
Print Assumptions v_sum_correct.
Print Assumptions v_dot_matvec_correct.
Print Assumptions v_dot_matvec_mismatch.
Print Assumptions matvec_correct.
Print Assumptions quad_form_correct.
Print Assumptions m_T_correct.
Print Assumptions m_trace_correct.
Print Assumptions m_binop_mat.
Print Assumptions m_matvec_correct.
Print Assumptions m_frob_correct.
Print Assumptions slice_indices_bound.
Print Assumptions slice_indices_increasing.
Print Assumptions slice_indices_up_spec.
Print Assumptions v_sum_slice.
Print Assumptions sym_rows_symmetric.
Print Assumptions m_matvec_example.
