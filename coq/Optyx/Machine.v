(* Machine.v — the explicit-stack post-order traversal that optyx uses above its
   recursion threshold, as ONE generic machine.

   Mirrors the shape shared by
     compiler.py  _build_evaluator_iterative   (stack of (node, phase), result_stack)
     autodiff.py  _gradient_iterative          (stack of (node, phase), results by id)
     analysis.py  _compute_degree_iterative    (stack of (node, phase, ...), result_stack)
   Only BinaryOp and UnaryOp nodes are traversed; every other node kind is
   "flat" and handled by [leaf] without depth recursion.  On a first visit a
   BinaryOp pushes (node, phase 1), (right, 0), (left, 0) - so the left child is
   popped first - and on the second visit pops the right result, then the left.
   No proofs in this file (see MachineProofs.v). *)
From Coq Require Import List Arith.
From Optyx Require Import Syntax.
Import ListNotations.

Section Machine.
  Variable A : Type.
  Variable leaf : expr -> A.
  Variable fbin : bop -> expr -> expr -> A -> A -> A.  (* op, left node, right node, left result, right result *)
  Variable funa : uop -> expr -> A -> A.               (* op, operand node, operand result *)

  (* the structural recursion the recursive implementations perform *)
  Fixpoint fold_rec (e : expr) : A :=
    match e with
    | Bin o l r => fbin o l r (fold_rec l) (fold_rec r)
    | Un o a => funa o a (fold_rec a)
    | _ => leaf e
    end.

  Inductive item := Visit (e : expr) | Combine (e : expr).

  (* one machine step per unit of fuel; [None] = stuck or out of fuel *)
  Fixpoint run (fuel : nat) (stack : list item) (results : list A) : option (list A) :=
    match fuel with
    | O => None
    | S f =>
      match stack with
      | [] => Some results
      | Visit (Bin o l r) :: st => run f (Visit l :: Visit r :: Combine (Bin o l r) :: st) results
      | Visit (Un o a) :: st => run f (Visit a :: Combine (Un o a) :: st) results
      | Visit e :: st => run f st (leaf e :: results)
      | Combine (Bin o l r) :: st =>
          match results with
          | rr :: lr :: rs => run f st (fbin o l r lr rr :: rs)
          | _ => None
          end
      | Combine (Un o a) :: st =>
          match results with
          | ar :: rs => run f st (funa o a ar :: rs)
          | _ => None
          end
      | Combine _ :: _ => None
      end
    end.

  (* number of Bin/Un/leaf nodes reachable by the traversal *)
  Fixpoint tsize (e : expr) : nat :=
    match e with
    | Bin _ l r => S (tsize l + tsize r)
    | Un _ a => S (tsize a)
    | _ => 1
    end.

  Definition fuel_for (e : expr) : nat := 2 * tsize e + 1.

  Definition fold_iter (e : expr) : option A :=
    match run (fuel_for e) [Visit e] [] with
    | Some (r :: _) => Some r
    | _ => None
    end.
End Machine.

