(* CachesProofs.v — property C14: the process-wide memoisation caches are TRANSPARENT.
   The values, derivatives and degrees obtained through the caches for a model do not
   depend on which other models were built / compiled / solved earlier in the same
   process (even with equal names but different values, bounds or structure), nor on
   how many expressions went through the caches (any capacity, including 0).

   Structure:
   1. generic LRU transparency: if the memoised function respects the key equality
      (up to an equivalence R) then every answer returned through the cache is
      R-related to the uncached answer, for any capacity and any call history;
      capacity bound; a NEGATIVE theorem showing the key-respect hypothesis is needed
      (this is the shape of the repaired defect "parameter-object roots keyed by name").
   2. the three instances (compile / gradient / degree).
   3. no_interference: answers for a model after an arbitrary prefix of foreign keys
      equal the answers from an empty cache. *)
From Coq Require Import String List Arith Bool NArith QArith Lia.
From Optyx Require Import Syntax Autodiff Compile Degree Caches.
Import ListNotations.

(* ------------------------------------------------------------------ *)
(** * 0. small list facts *)

Lemma In_firstn_incl {A} (n : nat) (l : list A) (x : A) :
  In x (firstn n l) -> In x l.
Proof.
  revert l. induction n as [|n IH]; intros [|a l] Hin; simpl in *; try contradiction.
  destruct Hin as [Heq | Hin]; [left; exact Heq | right; apply IH, Hin].
Qed.

Lemma Forall2_eq_eq {A} (l1 l2 : list A) : Forall2 eq l1 l2 -> l1 = l2.
Proof. intros H. induction H as [|a b l1 l2 Hab Hl IH]; [reflexivity|]. now subst. Qed.

Lemma list_eqb_string_true_eq (l1 l2 : list string) :
  list_eqb String.eqb l1 l2 = true -> l1 = l2.
Proof.
  revert l2. induction l1 as [|a l1 IH]; intros [|b l2]; simpl; intros H;
    try discriminate; [reflexivity|].
  apply andb_true_iff in H. destruct H as [H1 H2].
  apply String.eqb_eq in H1. subst. f_equal. apply IH, H2.
Qed.

(* ------------------------------------------------------------------ *)
(** * 1. generic transparency of the LRU *)

(* 1a. the general form: key-respect is only required on a class [P] of admissible
   keys (the keys that actually go through the cache) *)
Section LRU_transparent_on.
  Variables (K V : Type) (keqb : K -> K -> bool) (f : K -> V) (cap : nat).
  Variable R : V -> V -> Prop.
  Variable P : K -> Prop.
  Hypothesis Hrefl : forall x, R x x.
  Hypothesis Htrans : forall x y z, R x y -> R y z -> R x z.
  Hypothesis Hresp_on : forall k1 k2, P k1 -> P k2 -> keqb k1 k2 = true -> R (f k1) (f k2).

  Definition cache_ok_on (c : cache K V) : Prop :=
    forall k v, In (k, v) c -> P k /\ R v (f k).

  Lemma find_key_In : forall (c : cache K V) k k' v,
      find_key K V keqb k c = Some (k', v) -> In (k', v) c /\ keqb k' k = true.
  Proof.
    induction c as [|[k0 v0] c IH]; intros k k' v Hf; simpl in Hf; [discriminate|].
    destruct (keqb k0 k) eqn:E.
    - inversion Hf; subst. split; [left; reflexivity | exact E].
    - destruct (IH _ _ _ Hf) as [Hin Hk]. split; [right; exact Hin | exact Hk].
  Qed.

  Lemma remove_key_incl : forall (c : cache K V) k x,
      In x (remove_key K V keqb k c) -> In x c.
  Proof.
    induction c as [|[k0 v0] c IH]; intros k x Hin; simpl in *; [contradiction|].
    destruct (keqb k0 k).
    - right; exact Hin.
    - destruct Hin as [Heq | Hin]; [left; exact Heq | right; eapply IH; exact Hin].
  Qed.

  Lemma call_ok_on_proj : forall c k, cache_ok_on c -> P k ->
      R (fst (fst (call K V keqb f cap c k))) (f k) /\
      cache_ok_on (snd (fst (call K V keqb f cap c k))).
  Proof.
    intros c k Hc Hk. unfold call.
    destruct (find_key K V keqb k c) as [[k' v]|] eqn:Hf; simpl.
    - destruct (find_key_In _ _ _ _ Hf) as [Hin Heq].
      destruct (Hc _ _ Hin) as [Hk' Hv].
      split.
      + eapply Htrans; [exact Hv | apply Hresp_on; assumption].
      + intros k1 v1 [H1 | H1].
        * inversion H1; subst. split; assumption.
        * apply Hc. eapply remove_key_incl; exact H1.
    - split; [apply Hrefl|].
      intros k1 v1 H1. apply In_firstn_incl in H1. destruct H1 as [H1 | H1].
      + inversion H1; subst. split; [exact Hk | apply Hrefl].
      + apply Hc; exact H1.
  Qed.

  Theorem calls_transparent_on : forall ks c, Forall P ks -> cache_ok_on c ->
      Forall2 R (fst (fst (calls K V keqb f cap c ks))) (map f ks)
      /\ cache_ok_on (snd (calls K V keqb f cap c ks)).
  Proof.
    induction ks as [|k ks IH]; intros c HP Hc; simpl.
    - split; [constructor | exact Hc].
    - inversion HP as [|k0 ks0 Hk Hks]; subst.
      destruct (call_ok_on_proj c k Hc Hk) as [Hv Hc1].
      destruct (call K V keqb f cap c k) as [[v c1] h] eqn:Ecall. simpl in Hv, Hc1.
      destruct (IH c1 Hks Hc1) as [Hvs Hc2].
      destruct (calls K V keqb f cap c1 ks) as [[vs hs] c2] eqn:Ecalls. simpl in *.
      split; [constructor; assumption | exact Hc2].
  Qed.
End LRU_transparent_on.

(* 1b. the plain form: the memoised function respects the key equality everywhere *)
Section LRU_transparent.
  Variables (K V : Type) (keqb : K -> K -> bool) (f : K -> V) (cap : nat).
  Variable R : V -> V -> Prop.
  Hypothesis Hrefl : forall x, R x x.
  Hypothesis Hsym : forall x y, R x y -> R y x.
  Hypothesis Htrans : forall x y z, R x y -> R y z -> R x z.
  Hypothesis Hresp : forall k1 k2, keqb k1 k2 = true -> R (f k1) (f k2).

  Definition cache_ok (c : cache K V) : Prop :=
    forall k v, In (k, v) c -> R v (f k).

  Lemma cache_ok_iff_on : forall c,
      cache_ok c <-> cache_ok_on K V f R (fun _ => True) c.
  Proof.
    intros c; split; intros H k v Hin.
    - split; [exact I | apply H, Hin].
    - apply (H k v Hin).
  Qed.

  Lemma cache_ok_nil : cache_ok [].
  Proof. intros k v []. Qed.

  Lemma call_ok_proj : forall c k, cache_ok c ->
      R (fst (fst (call K V keqb f cap c k))) (f k) /\
      cache_ok (snd (fst (call K V keqb f cap c k))).
  Proof.
    intros c k Hc.
    destruct (call_ok_on_proj K V keqb f cap R (fun _ => True) Hrefl Htrans
                (fun k1 k2 _ _ H => Hresp k1 k2 H) c k
                (proj1 (cache_ok_iff_on c) Hc) I) as [Hv Hc'].
    split; [exact Hv | apply cache_ok_iff_on; exact Hc'].
  Qed.

  Lemma call_ok : forall c k, cache_ok c ->
      let '(v, c', _) := call K V keqb f cap c k in R v (f k) /\ cache_ok c'.
  Proof.
    intros c k Hc. pose proof (call_ok_proj c k Hc) as H.
    destruct (call K V keqb f cap c k) as [[v c'] h]. exact H.
  Qed.

  Lemma Forall_True : forall ks : list K, Forall (fun _ => True) ks.
  Proof. induction ks; constructor; auto. Qed.

  (* ANY capacity (0 included), ANY call sequence, ANY valid starting cache *)
  Theorem calls_transparent : forall ks c, cache_ok c ->
      Forall2 R (fst (fst (calls K V keqb f cap c ks))) (map f ks).
  Proof.
    intros ks c Hc.
    apply (calls_transparent_on K V keqb f cap R (fun _ => True) Hrefl Htrans
             (fun k1 k2 _ _ H => Hresp k1 k2 H) ks c (Forall_True ks)
             (proj1 (cache_ok_iff_on c) Hc)).
  Qed.

  Theorem calls_preserve_ok : forall ks c, cache_ok c ->
      cache_ok (snd (calls K V keqb f cap c ks)).
  Proof.
    intros ks c Hc. apply cache_ok_iff_on.
    apply (calls_transparent_on K V keqb f cap R (fun _ => True) Hrefl Htrans
             (fun k1 k2 _ _ H => Hresp k1 k2 H) ks c (Forall_True ks)
             (proj1 (cache_ok_iff_on c) Hc)).
  Qed.

  Corollary calls_transparent_empty : forall ks,
      Forall2 R (fst (fst (calls K V keqb f cap [] ks))) (map f ks).
  Proof. intros ks. apply calls_transparent, cache_ok_nil. Qed.
End LRU_transparent.

(* 1c. capacity bound (no hypothesis on f or the keys at all) *)
Section LRU_capacity.
  Variables (K V : Type) (keqb : K -> K -> bool) (f : K -> V) (cap : nat).

  Lemma remove_key_length_hit : forall (c : cache K V) k kv,
      find_key K V keqb k c = Some kv ->
      S (length (remove_key K V keqb k c)) = length c.
  Proof.
    induction c as [|[k0 v0] c IH]; intros k kv Hf; simpl in *; [discriminate|].
    destruct (keqb k0 k); [reflexivity|]. simpl. f_equal. eapply IH; exact Hf.
  Qed.

  (* a hit leaves the size unchanged *)
  Lemma call_hit_length : forall c k,
      snd (call K V keqb f cap c k) = true ->
      length (snd (fst (call K V keqb f cap c k))) = length c.
  Proof.
    intros c k. unfold call.
    destruct (find_key K V keqb k c) as [[k' v]|] eqn:Hf; simpl; [|discriminate].
    intros _. eapply remove_key_length_hit; exact Hf.
  Qed.

  (* true for EVERY capacity, 0 included (a cache of capacity 0 stays empty) *)
  Theorem capacity_bound : forall c k, length c <= cap ->
      length (snd (fst (call K V keqb f cap c k))) <= cap.
  Proof.
    intros c k Hlen. unfold call.
    destruct (find_key K V keqb k c) as [[k' v]|] eqn:Hf.
    - simpl. rewrite (remove_key_length_hit _ _ _ Hf). exact Hlen.
    - cbv zeta. cbn [fst snd]. rewrite firstn_length. apply Nat.le_min_l.
  Qed.

  Theorem capacity_bound_calls : forall ks c, length c <= cap ->
      length (snd (calls K V keqb f cap c ks)) <= cap.
  Proof.
    induction ks as [|k ks IH]; intros c Hlen; simpl; [exact Hlen|].
    pose proof (capacity_bound c k Hlen) as H1.
    destruct (call K V keqb f cap c k) as [[v c1] h]. simpl in H1.
    pose proof (IH c1 H1) as H2.
    destruct (calls K V keqb f cap c1 ks) as [[vs hs] c2]. exact H2.
  Qed.

  Corollary capacity_bound_from_empty : forall ks,
      length (snd (calls K V keqb f cap [] ks)) <= cap.
  Proof. intros ks. apply capacity_bound_calls. simpl. apply Nat.le_0_l. Qed.

  Lemma calls_lengths : forall ks c,
      length (fst (fst (calls K V keqb f cap c ks))) = length ks /\
      length (snd (fst (calls K V keqb f cap c ks))) = length ks.
  Proof.
    induction ks as [|k ks IH]; intros c; simpl; [split; reflexivity|].
    destruct (call K V keqb f cap c k) as [[v c1] h].
    pose proof (IH c1) as H.
    destruct (calls K V keqb f cap c1 ks) as [[vs hs] c2]. simpl in *.
    destruct H as [H1 H2]. split; f_equal; assumption.
  Qed.
End LRU_capacity.

(* 1d. NEGATIVE: without key-respect the cache is NOT transparent.
   Keys are (name, value-of-that-particular-object); the key equality looks at the
   name only; the memoised function reads the object.  This is exactly the shape of
   the repaired defect "parameter-object roots keyed by name": two parameter objects with the same
   name and different values; the second lookup is a HIT and returns the answer
   computed for the first object. *)
Definition bad_keqb (a b : nat * nat) : bool := Nat.eqb (fst a) (fst b).
Definition bad_f (k : nat * nat) : nat := snd k.

Theorem respect_needed :
  exists (cap : nat) (ks : list (nat * nat)),
    fst (fst (calls (nat * nat) nat bad_keqb bad_f cap [] ks)) <> map bad_f ks
    /\ snd (fst (calls (nat * nat) nat bad_keqb bad_f cap [] ks)) = [false; true].
Proof.
  exists 2, [(1, 10); (1, 20)]. vm_compute. split; [intros H; discriminate H | reflexivity].
Qed.

(* and the hypothesis that fails is precisely key-respect *)
Lemma bad_f_does_not_respect :
  exists k1 k2, bad_keqb k1 k2 = true /\ bad_f k1 <> bad_f k2.
Proof. exists (1, 10), (1, 20). vm_compute. split; [reflexivity | intros H; discriminate H]. Qed.

(* ------------------------------------------------------------------ *)
(** * 2. the three instances *)

(* The harness guarantees that [expr_of : N -> expr] is a FUNCTION: equal object
   ids denote the same (immutable) expression object. *)
Definition root_expr (expr_of : N -> expr) (r : rootkey) : expr :=
  match r with RVar x => Var x | RParam p => Param p | RNode i => expr_of i end.

Lemma rootkey_eqb_root_expr : forall expr_of a b,
    rootkey_eqb a b = true -> root_expr expr_of a = root_expr expr_of b.
Proof.
  intros expr_of [x|x|i] [y|y|j] H; simpl in *; try discriminate.
  - apply String.eqb_eq in H. now subst.
  - apply String.eqb_eq in H. now subst.
  - apply N.eqb_eq in H. now subst.
Qed.

(* -- compile cache -- *)
Definition f_compile (expr_of : N -> expr) (k : compile_key) : option clo :=
  build (snd k) (root_expr expr_of (fst k)).

(* In the MODEL, [build V (Param p) = Some (CParam p)]: the closure refers to the
   parameter by NAME, so equal names give equal closures and key-respect holds for
   every key kind.  In Python the closure for a bare parameter-object root captures that
   particular OBJECT (lambda x, p=param: p.value), so two parameter objects with the same
   name and different values would NOT be interchangeable: that is why
   compile_expression bypasses the lru_cache for a parameter-object root
   ([goes_through_compile_cache k = false] for [RParam]); see [respect_needed] for
   what happens otherwise.  The statements used for C14 are therefore restricted to
   keys that actually go through the cache; [compile_key_respects_model] records
   that the model-level fact needs no restriction. *)
Lemma compile_key_respects_model : forall expr_of k1 k2,
    compile_key_eqb k1 k2 = true -> f_compile expr_of k1 = f_compile expr_of k2.
Proof.
  intros expr_of [r1 V1] [r2 V2] H. unfold compile_key_eqb in H. simpl in H.
  apply andb_true_iff in H. destruct H as [Hr HV].
  apply list_eqb_string_true_eq in HV.
  unfold f_compile; simpl. rewrite (rootkey_eqb_root_expr expr_of _ _ Hr). now subst.
Qed.

Lemma compile_key_respects : forall expr_of k1 k2,
    goes_through_compile_cache k1 = true -> goes_through_compile_cache k2 = true ->
    compile_key_eqb k1 k2 = true -> f_compile expr_of k1 = f_compile expr_of k2.
Proof. intros expr_of k1 k2 _ _ H. apply compile_key_respects_model, H. Qed.

(* a key that goes through the cache can only hit keys that go through it too *)
Lemma goes_through_respects : forall k1 k2,
    compile_key_eqb k1 k2 = true ->
    goes_through_compile_cache k1 = goes_through_compile_cache k2.
Proof.
  intros [[x|x|i] V1] [[y|y|j] V2] H; unfold compile_key_eqb in H; simpl in *;
    try reflexivity; discriminate.
Qed.

(* -- gradient cache -- *)
Definition f_grad (ln2c ln10c : Q) (expr_of : N -> expr) (k : gradient_key) : expr :=
  grad ln2c ln10c (snd k) (root_expr expr_of (fst k)).

(* all key kinds: for RParam the gradient is the constant 0 whatever the parameter *)
Lemma gradient_key_respects : forall ln2c ln10c expr_of k1 k2,
    gradient_key_eqb k1 k2 = true -> f_grad ln2c ln10c expr_of k1 = f_grad ln2c ln10c expr_of k2.
Proof.
  intros ln2c ln10c expr_of [r1 v1] [r2 v2] H. unfold gradient_key_eqb in H. simpl in H.
  apply andb_true_iff in H. destruct H as [Hr Hv].
  apply String.eqb_eq in Hv.
  unfold f_grad; simpl. rewrite (rootkey_eqb_root_expr expr_of _ _ Hr). now subst.
Qed.

(* for a parameter-object root the answer does not even depend on the name *)
Lemma gradient_param_const : forall ln2c ln10c expr_of p q v w,
    f_grad ln2c ln10c expr_of (RParam p, v) = f_grad ln2c ln10c expr_of (RParam q, w).
Proof. reflexivity. Qed.

(* -- degree cache -- *)
Definition f_degree (expr_of : N -> expr) (k : degree_key) : option nat :=
  degree (root_expr expr_of (snd k)).

Lemma degree_key_respects : forall expr_of k1 k2,
    degree_key_eqb k1 k2 = true -> f_degree expr_of k1 = f_degree expr_of k2.
Proof.
  intros expr_of [i1 r1] [i2 r2] H. unfold degree_key_eqb in H. simpl in H.
  apply andb_true_iff in H. destruct H as [_ Hr].
  unfold f_degree; simpl. now rewrite (rootkey_eqb_root_expr expr_of _ _ Hr).
Qed.

(* -- transparency of the three caches: for EVERY sequence of keys (coming from any
   number of models), EVERY capacity, the answers returned through the cache are
   exactly the uncached answers -- *)

Definition through_cache (k : compile_key) : Prop := goes_through_compile_cache k = true.

Theorem compile_cache_transparent : forall expr_of cap ks,
    Forall through_cache ks ->
    fst (fst (calls compile_key (option clo) compile_key_eqb (f_compile expr_of) cap [] ks))
    = map (f_compile expr_of) ks.
Proof.
  intros expr_of cap ks Hks. apply Forall2_eq_eq.
  apply (calls_transparent_on compile_key (option clo) compile_key_eqb (f_compile expr_of) cap
           eq through_cache (@eq_refl _) (@eq_trans _)
           (compile_key_respects expr_of) ks [] Hks).
  intros k v [].
Qed.

(* model-level: also without the restriction (see the comment above) *)
Theorem compile_cache_transparent_model : forall expr_of cap ks,
    fst (fst (calls compile_key (option clo) compile_key_eqb (f_compile expr_of) cap [] ks))
    = map (f_compile expr_of) ks.
Proof.
  intros expr_of cap ks. apply Forall2_eq_eq.
  apply (calls_transparent_empty compile_key (option clo) compile_key_eqb (f_compile expr_of) cap
           eq (@eq_refl _) (@eq_trans _) (compile_key_respects_model expr_of)).
Qed.

Theorem gradient_cache_transparent : forall ln2c ln10c expr_of cap ks,
    fst (fst (calls gradient_key expr gradient_key_eqb (f_grad ln2c ln10c expr_of) cap [] ks))
    = map (f_grad ln2c ln10c expr_of) ks.
Proof.
  intros ln2c ln10c expr_of cap ks. apply Forall2_eq_eq.
  apply (calls_transparent_empty gradient_key expr gradient_key_eqb (f_grad ln2c ln10c expr_of) cap
           eq (@eq_refl _) (@eq_trans _) (gradient_key_respects ln2c ln10c expr_of)).
Qed.

Theorem degree_cache_transparent : forall expr_of cap ks,
    fst (fst (calls degree_key (option nat) degree_key_eqb (f_degree expr_of) cap [] ks))
    = map (f_degree expr_of) ks.
Proof.
  intros expr_of cap ks. apply Forall2_eq_eq.
  apply (calls_transparent_empty degree_key (option nat) degree_key_eqb (f_degree expr_of) cap
           eq (@eq_refl _) (@eq_trans _) (degree_key_respects expr_of)).
Qed.

(* ------------------------------------------------------------------ *)
(** * 3. no interference between models *)

Section NoInterference.
  Variables (K V : Type) (keqb : K -> K -> bool) (f : K -> V) (cap : nat).
  Hypothesis Hresp_eq : forall k1 k2, keqb k1 k2 = true -> f k1 = f k2.

  Definition answers (c : cache K V) (ks : list K) : list V :=
    fst (fst (calls K V keqb f cap c ks)).

  Lemma answers_eq_map : forall ks, answers [] ks = map f ks.
  Proof.
    intros ks. apply Forall2_eq_eq.
    apply (calls_transparent_empty K V keqb f cap eq (@eq_refl _) (@eq_trans _) Hresp_eq).
  Qed.

  (* model M issues the keys ksM; before it, ANY other models issued the keys ksN
     (same names, different values, bounds, structure: whatever).  The answers M gets
     are those it gets in a fresh process. *)
  Theorem no_interference : forall ksN ksM,
      skipn (length ksN) (answers [] (ksN ++ ksM)) = answers [] ksM.
  Proof.
    intros ksN ksM. rewrite !answers_eq_map, map_app.
    rewrite <- (map_length f ksN). rewrite skipn_app, Nat.sub_diag, skipn_all. reflexivity.
  Qed.

  (* two different histories give the same answers to M *)
  Corollary no_interference_histories : forall ksN1 ksN2 ksM,
      skipn (length ksN1) (answers [] (ksN1 ++ ksM)) =
      skipn (length ksN2) (answers [] (ksN2 ++ ksM)).
  Proof. intros. now rewrite !no_interference. Qed.

  (* the same, from an arbitrary VALID cache left behind by earlier activity *)
  Theorem no_interference_from : forall c ksM,
      cache_ok K V f eq c -> answers c ksM = answers [] ksM.
  Proof.
    intros c ksM Hc. rewrite answers_eq_map. apply Forall2_eq_eq.
    apply (calls_transparent K V keqb f cap eq (@eq_refl _) (@eq_trans _) Hresp_eq ksM c Hc).
  Qed.
End NoInterference.

Theorem gradient_no_interference : forall ln2c ln10c expr_of cap ksN ksM,
    skipn (length ksN)
      (answers gradient_key expr gradient_key_eqb (f_grad ln2c ln10c expr_of) cap [] (ksN ++ ksM))
    = answers gradient_key expr gradient_key_eqb (f_grad ln2c ln10c expr_of) cap [] ksM.
Proof. intros. apply no_interference, gradient_key_respects. Qed.

Theorem degree_no_interference : forall expr_of cap ksN ksM,
    skipn (length ksN)
      (answers degree_key (option nat) degree_key_eqb (f_degree expr_of) cap [] (ksN ++ ksM))
    = answers degree_key (option nat) degree_key_eqb (f_degree expr_of) cap [] ksM.
Proof. intros. apply no_interference, degree_key_respects. Qed.

Theorem compile_no_interference : forall expr_of cap ksN ksM,
    Forall through_cache ksN -> Forall through_cache ksM ->
    skipn (length ksN)
      (answers compile_key (option clo) compile_key_eqb (f_compile expr_of) cap [] (ksN ++ ksM))
    = answers compile_key (option clo) compile_key_eqb (f_compile expr_of) cap [] ksM.
Proof.
  intros expr_of cap ksN ksM HN HM. unfold answers.
  rewrite (compile_cache_transparent expr_of cap (ksN ++ ksM)) by (apply Forall_app; split; assumption).
  rewrite (compile_cache_transparent expr_of cap ksM HM).
  rewrite map_app, <- (map_length (f_compile expr_of) ksN).
  rewrite skipn_app, Nat.sub_diag, skipn_all. reflexivity.
Qed.

(* ------------------------------------------------------------------ *)
(** * 4. non-vacuity: the cache really hits, evicts and still answers correctly *)

Definition ex_expr_of (i : N) : expr :=
  match i with
  | 1%N => Bin Pow (Var "x") (Const (2#1))
  | 2%N => Bin Add (Var "x") (Param "p")
  | _ => Const 0
  end.

(* capacity 2, keys a b a c b: miss miss HIT miss miss(evicted) *)
Example degree_hits :
  snd (fst (calls degree_key (option nat) degree_key_eqb (f_degree ex_expr_of) 2 []
              [(1%N, RNode 1%N); (2%N, RNode 2%N); (1%N, RNode 1%N); (7%N, RVar "x"); (2%N, RNode 2%N)]))
  = [false; false; true; false; false].
Proof. vm_compute. reflexivity. Qed.

Example degree_answers :
  fst (fst (calls degree_key (option nat) degree_key_eqb (f_degree ex_expr_of) 2 []
              [(1%N, RNode 1%N); (2%N, RNode 2%N); (1%N, RNode 1%N); (7%N, RVar "x"); (2%N, RNode 2%N)]))
  = [Some 2; None; Some 2; Some 1; None].
Proof. vm_compute. reflexivity. Qed.

Example degree_final_cache_size :
  length (snd (calls degree_key (option nat) degree_key_eqb (f_degree ex_expr_of) 2 []
              [(1%N, RNode 1%N); (2%N, RNode 2%N); (1%N, RNode 1%N); (7%N, RVar "x"); (2%N, RNode 2%N)]))
  = 2.
Proof. vm_compute. reflexivity. Qed.

(* capacity 0 never hits and is still transparent *)
Example degree_cap0_hits :
  snd (fst (calls degree_key (option nat) degree_key_eqb (f_degree ex_expr_of) 0 []
              [(1%N, RNode 1%N); (1%N, RNode 1%N)])) = [false; false].
Proof. vm_compute. reflexivity. Qed.

(* two variables with the same name from different models share a gradient entry
   (a HIT), and that is harmless: the gradient only depends on the name *)
Example gradient_same_name_hit :
  snd (fst (calls gradient_key expr gradient_key_eqb (f_grad 0 0 ex_expr_of) 4 []
              [(RVar "x", "x"); (RVar "x", "x"); (RParam "p", "x"); (RParam "p", "x")]))
  = [false; true; false; true].
Proof. vm_compute. reflexivity. Qed.

Print Assumptions calls_transparent_on.
Print Assumptions calls_transparent.
Print Assumptions capacity_bound.
Print Assumptions capacity_bound_calls.
Print Assumptions respect_needed.
Print Assumptions compile_key_respects.
Print Assumptions gradient_key_respects.
Print Assumptions degree_key_respects.
Print Assumptions compile_cache_transparent.
Print Assumptions gradient_cache_transparent.
Print Assumptions degree_cache_transparent.
Print Assumptions no_interference.
Print Assumptions compile_no_interference.
Print Assumptions gradient_no_interference.
Print Assumptions degree_no_interference.
