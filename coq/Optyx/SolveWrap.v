(* SolveWrap.v — what optyx does around the SciPy calls.
   Mirrors src/optyx/solvers/scipy_solver.py (solve_scipy: integrality gate,
   bounds selection, feasibility scan over declared bounds and constraint
   functions, SLSQP -> trust-constr retry, status mapping, sign undo, values,
   _compute_initial_point) and src/optyx/solvers/lp_solver.py (solve_lp:
   linearity validation, integrality gate, status mapping, objective value),
   and problem.py Problem.solve routing.  SciPy itself is an ORACLE: a section
   variable returning an arbitrary result record; theorems hold for every
   behaviour of the oracle (and, where stated, under a named contract).
   The status decision lists and the method sets come from the GENERATED
   tables (tools/translate.py).  Values are rationals (every float is one).
   No proofs here (see SolveWrapProofs.v). *)
From Coq Require Import String List Arith Bool QArith Qabs ZArith.
From Optyx Require Import Syntax Vars.
Import ListNotations.
Open Scope Q_scope.

Inductive status := OPTIMAL | INFEASIBLE | UNBOUNDED | MAX_ITERATIONS | FAILED.
Definition status_eqb (a b : status) : bool :=
  match a, b with
  | OPTIMAL, OPTIMAL | INFEASIBLE, INFEASIBLE | UNBOUNDED, UNBOUNDED
  | MAX_ITERATIONS, MAX_ITERATIONS | FAILED, FAILED => true
  | _, _ => false
  end.

(* ---- conditions of the status chains (generated from the source) ---- *)
Inductive cond :=
| CSuccess                      (* result.success *)
| CViolated                     (* constraints_violated *)
| CMsg (kw : string)            (* "<kw>" in result.message.lower() *)
| CStatusIs (n : Z)             (* result.status == n  (linprog) *)
| CAnd (a b : cond) | COr (a b : cond) | CNot (a : cond).

(* the message is abstracted by the set of keywords it contains *)
Record mresult := {
  r_success : bool;
  r_kws : list string;           (* which probed keywords occur in message.lower() *)
  r_status : Z;                  (* linprog status code *)
  r_x : option (list Q);
  r_fun : option Q
}.

Fixpoint cond_holds (r : mresult) (violated : bool) (c : cond) : bool :=
  match c with
  | CSuccess => r_success r
  | CViolated => violated
  | CMsg kw => existsb (String.eqb kw) (r_kws r)
  | CStatusIs n => Z.eqb (r_status r) n
  | CAnd a b => cond_holds r violated a && cond_holds r violated b
  | COr a b => cond_holds r violated a || cond_holds r violated b
  | CNot a => negb (cond_holds r violated a)
  end.

(* if c1: s1 elif c2: s2 ... else: s_default *)
Fixpoint decide (chain : list (cond * status)) (dflt : status) (r : mresult) (violated : bool) : status :=
  match chain with
  | [] => dflt
  | (c, s) :: rest => if cond_holds r violated c then s else decide rest dflt r violated
  end.

(* ---- feasibility scan (scipy_solver.py) ---- *)
Inductive ctype := Ineq | EqC.
(* a SciPy constraint dict: type and the value of its "fun" at the returned point *)
Definition Qmax (a b : Q) : Q := if Qle_bool a b then b else a.
Definition scaled_tol (atol rtol v : Q) : Q := atol + rtol * Qmax 1 (Qabs v).

Definition con_violated (atol rtol : Q) (c : ctype * Q) : bool :=
  let '(t, v) := c in
  match t with
  | Ineq => negb (Qle_bool (- scaled_tol atol rtol v) v)          (* c_val < -scaled_tol *)
  | EqC => negb (Qle_bool (Qabs v) (scaled_tol atol rtol v))       (* |c_val| > scaled_tol *)
  end.

Definition bound_violated (atol rtol : Q) (xb : Q * (option Q * option Q)) : bool :=
  let '(x, (lb, ub)) := xb in
  (match lb with Some l => negb (Qle_bool (l - x) (atol + rtol * Qmax 1 (Qabs l))) | None => false end) ||
  (match ub with Some u => negb (Qle_bool (x - u) (atol + rtol * Qmax 1 (Qabs u))) | None => false end).

Section Scipy.
  Variable accepted_c : cond.                         (* generated: accepted_exit *)
  Variable chain : list (cond * status).              (* generated: the if/elif status chain *)
  Variable chain_default : status.
  Variable bounds_methods hessian_methods derivative_free_methods : list string.

  Definition mem (m : string) (l : list string) : bool := existsb (String.eqb m) l.

  (* constraints_violated after the scan; cvals = constraint function values at r.x *)
  Definition violated (atol rtol : Q) (r : mresult) (bounds : list (option Q * option Q))
             (cvals : list Q -> list (ctype * Q)) : bool :=
    if cond_holds r false accepted_c then
      match r_x r with
      | Some x => existsb (bound_violated atol rtol) (combine x bounds)
                  || existsb (con_violated atol rtol) (cvals x)
      | None => false
      end
    else false.

  Record outcome := {
    o_status : status;
    o_objective : option Q;
    o_values : list (string * Q);
    o_calls : nat                 (* how many times the oracle was called *)
  }.

  (* what the wrapper makes of one oracle answer *)
  Definition finish (maximize : bool) (V : list string) (r : mresult) (viol : bool) (calls : nat) : outcome :=
    {| o_status := decide chain chain_default r viol;
       o_objective := match r_fun r with Some f => Some (if maximize then - f else f) | None => None end;
       o_values := match r_x r with Some x => combine V x | None => [] end;
       o_calls := calls |}.

  (* solve_scipy after the gate: first oracle answer r1 for [method]; if the scan
     fails and the method is SLSQP the wrapper calls itself with trust-constr,
     whose oracle answer is r2 *)
  Definition post_minimize (method : string) (maximize : bool) (V : list string)
             (atol rtol : Q) (bounds : list (option Q * option Q))
             (cvals : list Q -> list (ctype * Q)) (r1 r2 : mresult) : outcome :=
    let v1 := violated atol rtol r1 bounds cvals in
    if v1 && String.eqb method "SLSQP"
    then finish maximize V r2 (violated atol rtol r2 bounds cvals) 2
    else finish maximize V r1 v1 1.

  (* bounds handed to scipy.optimize.minimize *)
  Definition bounds_arg (method : string) (bounds : list (option Q * option Q)) : option (list (option Q * option Q)) :=
    match bounds with
    | [] => None
    | _ => if mem method bounds_methods then Some bounds else None
    end.
  Definition use_gradient (method : string) : bool := negb (mem method derivative_free_methods).
  Definition use_hessian (method : string) (flag : bool) : bool := flag && mem method hessian_methods.
End Scipy.

(* ---- _compute_initial_point ---- *)
Definition eps_interior : Q := 1 # 10000.
Definition frac_interior : Q := 1 # 100.
Definition Qmin (a b : Q) : Q := if Qle_bool a b then a else b.
Definition initial_coord (b : option Q * option Q) : Q :=
  match b with
  | (Some l, Some u) => Qmin (l + Qmax eps_interior (frac_interior * (u - l))) ((l + u) / 2)
  | (Some l, None) => l + eps_interior
  | (None, Some u) => u - 1
  | (None, None) => 0
  end.
Definition initial_point (bounds : list (option Q * option Q)) : list Q := map initial_coord bounds.

(* ---- linprog wrapper ---- *)
Section Linprog.
  Variable lp_chain : list (cond * status).
  Variable lp_default : status.

  Definition post_linprog (maximize : bool) (c0 : Q) (names : list string) (r : mresult) : outcome :=
    {| o_status := decide lp_chain lp_default r false;
       o_objective := match r_fun r with
                      | Some f => Some ((if maximize then - f else f) + c0)
                      | None => None end;
       o_values := match r_x r with Some x => combine names x | None => [] end;
       o_calls := 1 |}.
End Linprog.

(* ---- integrality gate and routing (problem.py solve, both wrappers) ---- *)
Inductive route := RouteLP (m : option string) | RouteScipy (m : string).

Definition lp_methods : list string := ["highs"; "highs-ds"; "highs-ipm"].

(* Problem.solve: which wrapper, with which method *)
Definition route_of (is_lp : bool) (auto_nlp : string) (method : string) : route :=
  if String.eqb method "auto" then (if is_lp then RouteLP None else RouteScipy auto_nlp)
  else if String.eqb method "linprog" then RouteLP None
  else if existsb (String.eqb method) lp_methods then RouteLP (Some method)
  else RouteScipy method.

Inductive gate_result :=
| Raise (names : list string)          (* IntegerVariableError listing these names *)
| Warn (names : list string)           (* UserWarning naming these, then solve the relaxation *)
| Pass.

Definition non_continuous (st : store) (V : list string) : list string :=
  filter (fun v => match vdom (st v) with Continuous => false | _ => true end) V.

Definition gate (st : store) (V : list string) (strict : bool) : gate_result :=
  match non_continuous st V with
  | [] => Pass
  | ns => if strict then Raise ns else Warn ns
  end.

(* ---- Solution handles (solution.py __getitem__, _get_vector, _get_matrix) ---- *)
Fixpoint lookup_val (vals : list (string * Q)) (n : string) : option Q :=
  match vals with
  | [] => None
  | (k, v) :: r => if String.eqb k n then Some v else lookup_val r n
  end.
(* sol[vec] : values of the vector's elements in the vector's own order *)
Definition get_vector (vals : list (string * Q)) (names : list string) : list (option Q) :=
  map (lookup_val vals) names.
(* sol[mat] : row-major, shape of the handle *)
Definition get_matrix (vals : list (string * Q)) (rows : list (list string)) : list (list (option Q)) :=
  map (get_vector vals) rows.

(* ---- the whole of Problem.solve up to the oracle call: validation, gate ---- *)
Inductive solve_result :=
| SNoObjective
| SNonLinear                         (* solve_lp on a model that is not linear *)
| SNoVariables                       (* solve_scipy: "Problem has no variables" -> FAILED, no oracle call *)
| SInteger (names : list string)     (* IntegerVariableError(variable_names) *)
| SRan (warned : list string) (r : route).   (* the oracle is called (after a warning naming [warned], if non-empty) *)

Definition solve_front (has_obj is_lp : bool) (auto_nlp : string) (st : store) (V : list string)
           (method : string) (strict : bool) : solve_result :=
  if negb has_obj then SNoObjective
  else
    let r := route_of is_lp auto_nlp method in
    match r with
    | RouteLP _ =>
        if negb is_lp then SNonLinear
        else match gate st V strict with
             | Raise ns => SInteger ns
             | Warn ns => SRan ns r
             | Pass => SRan [] r
             end
    | RouteScipy _ =>
        match V with
        | [] => SNoVariables
        | _ => match gate st V strict with
               | Raise ns => SInteger ns
               | Warn ns => SRan ns r
               | Pass => SRan [] r
               end
        end
    end.

Definition oracle_called (r : solve_result) : bool := match r with SRan _ _ => true | _ => false end.

(* Variable.__init__: binary variables carry the bounds [0, 1] whatever was passed *)
Definition declare (lb ub : option Q) (d : domain) : vattr :=
  match d with
  | Binary => {| Vars.lb := Some 0; Vars.ub := Some 1; vdom := Binary |}
  | _ => {| Vars.lb := lb; Vars.ub := ub; vdom := d |}
  end.
