(* VecMat.v — the vector / matrix modelling API as functions on the trees it builds.
   Mirrors src/optyx/core/vectors.py (VectorVariable / VectorExpression: __getitem__,
   slicing, _vector_binary_op, _vector_reflected_op, __neg__, sum, dot with the
   x.dot(A @ x) -> QuadraticForm rewriting, __matmul__ / __rmatmul__, norm) and
   src/optyx/core/matrices.py (MatrixVariable / MatrixExpression: the four index /
   slice combinations, T, diagonal, trace, _matrix_binary_op, reflected forms, sum,
   MatrixVariable @ vector, MatrixVectorProduct, quadratic_form, frobenius_norm).
   A vector object is its kind and element trees; a matrix object its rows.  Views
   share the element trees of their base (Python shares the Variable objects).
   Errors are classified as the exception classes optyx raises.
   No proofs here (see VecMatProofs.v). *)
From Coq Require Import String List Arith Bool QArith ZArith.
From Optyx Require Import Syntax.
Import ListNotations.
Close Scope Q_scope.

Record vobj := mkV { vk : vkind; vel : list expr }.
Record mobj := mkM { misvar : bool; mrows : list (list expr) }.

Inductive err := EDim | EWrongDim | EInvalid | EIndex | ESquare.
Inductive res := RExpr (e : expr) | RVec (v : vobj) | RMat (m : mobj) | RErr (c : err).

(* right operand of an arithmetic operator *)
Inductive arg :=
| AScalar (q : Q)                 (* int / float *)
| AVec (v : vobj)
| AArr1 (qs : list Q)             (* 1-d ndarray / list *)
| AArr2 (m : list (list Q))       (* 2-d ndarray / nested list *)
| AMat (m : mobj)
| AOther.

(* ---- Python indexing ---- *)
Definition zidx (n : nat) (i : Z) : option nat :=
  let j := if (i <? 0)%Z then (Z.of_nat n + i)%Z else i in
  if ((0 <=? j) && (j <? Z.of_nat n))%Z then Some (Z.to_nat j) else None.

Definition clampZ (lo hi x : Z) : Z := Z.max lo (Z.min hi x).

(* slice(start, stop, step).indices(n), as the list of selected positions; None = step 0 *)
Definition slice_indices (n : nat) (start stop step : option Z) : option (list nat) :=
  let zn := Z.of_nat n in
  let st := match step with Some s => s | None => 1%Z end in
  if (st =? 0)%Z then None
  else if (0 <? st)%Z then
    let norm x := if (x <? 0)%Z then Z.max 0 (x + zn) else Z.min zn x in
    let a := match start with Some x => norm x | None => 0%Z end in
    let b := match stop with Some x => norm x | None => zn end in
    Some ((fix go (fuel : nat) (i : Z) : list nat :=
             match fuel with
             | O => []
             | S f => if (i <? b)%Z then Z.to_nat i :: go f (i + st)%Z else []
             end) n a)
  else
    let norm x := if (x <? 0)%Z then Z.max (-1) (x + zn) else Z.min (zn - 1) x in
    let a := match start with Some x => norm x | None => (zn - 1)%Z end in
    let b := match stop with Some x => norm x | None => (-1)%Z end in
    Some ((fix go (fuel : nat) (i : Z) : list nat :=
             match fuel with
             | O => []
             | S f => if (b <? i)%Z then Z.to_nat i :: go f (i + st)%Z else []
             end) n a).

Definition select {A} (d : A) (l : list A) (idx : list nat) : list A := map (fun i => nth i l d) idx.
Definition c0e : expr := Const 0%Q.

(* ---- vectors ---- *)
Definition vsize (v : vobj) : nat := List.length (vel v).

(* x[i] *)
Definition v_getitem (v : vobj) (i : Z) : res :=
  match zidx (vsize v) i with
  | Some k => RExpr (nth k (vel v) c0e)
  | None => RErr EIndex
  end.

(* x[a:b:c] on a VectorVariable: a new VectorVariable over the SAME element objects *)
Definition v_slice (v : vobj) (start stop step : option Z) : res :=
  match slice_indices (vsize v) start stop step with
  | None => RErr EInvalid
  | Some [] => RErr EIndex
  | Some idx => RVec (mkV (KVar 0) (select c0e (vel v) idx))
  end.

(* right-hand elements for an element-wise operation with n elements on the left *)
Definition rhs_elems (n : nat) (r : arg) : res + list expr :=
  match r with
  | AScalar q => inr (repeat (Const q) n)
  | AVec w => if Nat.eqb (vsize w) n then inr (vel w) else inl (RErr EDim)
  | AArr1 qs => if Nat.eqb (List.length qs) n then inr (map Const qs) else inl (RErr EDim)
  | AArr2 _ => inl (RErr EWrongDim)
  | AMat _ | AOther => inl (RErr EInvalid)
  end.

(* _vector_binary_op(left, right, op): left element op right element *)
Definition v_binop (o : bop) (l : vobj) (r : arg) : res :=
  match rhs_elems (vsize l) r with
  | inl e => e
  | inr rs => RVec (mkV KExpr (map (fun p => Bin o (fst p) (snd p)) (combine (vel l) rs)))
  end.

(* _vector_reflected_op(right=self, left=other, op): other op self element *)
Definition v_rbinop (o : bop) (self : vobj) (other : arg) : res :=
  match other with
  | AScalar q => RVec (mkV KExpr (map (fun e => Bin o (Const q) e) (vel self)))
  | AArr1 qs => if Nat.eqb (List.length qs) (vsize self)
                then RVec (mkV KExpr (map (fun p => Bin o (Const (fst p)) (snd p)) (combine qs (vel self))))
                else RErr EDim
  | AArr2 _ => RErr EWrongDim
  | _ => RErr EInvalid
  end.

Definition v_neg (v : vobj) : res := RVec (mkV KExpr (map (Un Neg) (vel v))).

Definition v_sum (v : vobj) : res :=
  match vk v with
  | KVar i => RExpr (VSum i (vec_names (vel v)))
  | KExpr => RExpr (VExprSum (vel v))
  end.

(* DotProduct(l, r) *)
Definition v_dot (l r : vobj) : res :=
  if Nat.eqb (vsize l) (vsize r) then RExpr (Dot (vk l) (vel l) (vk r) (vel r)) else RErr EDim.

(* A @ x with a constant matrix: one LinearCombination per row *)
Definition matvec (m : list (list Q)) (x : vobj) : res :=
  if forallb (fun row => Nat.eqb (List.length row) (vsize x)) m && negb (Nat.eqb (List.length m) 0)
  then RVec (mkV KExpr (map (fun row => LinComb row (vk x) (vel x)) m))
  else RErr EDim.

(* x.dot(A @ y): QuadraticForm when y has the same elements as x (VectorVariable.dot) *)
Definition v_dot_matvec (x : vobj) (m : list (list Q)) (y : vobj) : res :=
  let same := match vk x, vk y with
              | KVar _, KVar _ => list_eqb expr_eqb (vel x) (vel y)
              | _, _ => false end in
  if same then
    (if Nat.eqb (List.length m) (vsize x) && forallb (fun row => Nat.eqb (List.length row) (vsize x)) m
     then RExpr (QForm (vk x) (vel x) m) else RErr EDim)
  else match matvec m y with
       | RVec w => v_dot x w
       | e => e
       end.

(* x @ other / other @ x *)
Definition v_matmul (x : vobj) (r : arg) : res :=
  match r with
  | AVec w => v_dot x w
  | AArr1 qs => if Nat.eqb (List.length qs) (vsize x) then RExpr (LinComb qs (vk x) (vel x)) else RErr EDim
  | AArr2 _ => RErr EWrongDim
  | AMat _ => RErr EInvalid
  | _ => RErr EInvalid
  end.
Definition v_rmatmul (x : vobj) (l : arg) : res :=
  match l with
  | AArr1 qs => if Nat.eqb (List.length qs) (vsize x) then RExpr (LinComb qs (vk x) (vel x)) else RErr EDim
  | AArr2 m => matvec m x
  | _ => RErr EInvalid
  end.

Definition v_norm (x : vobj) (ord : Z) : res :=
  if (ord =? 2)%Z then RExpr (L2n (vk x) (vel x))
  else if (ord =? 1)%Z then RExpr (L1n (vk x) (vel x))
  else RErr EInvalid.

Definition is_square (m : list (list Q)) : bool :=
  forallb (fun row => Nat.eqb (List.length row) (List.length m)) m.

(* quadratic_form(vector, matrix) *)
Definition quad_form (x : vobj) (m : list (list Q)) : res :=
  if negb (is_square m) then RErr ESquare
  else if Nat.eqb (List.length m) (vsize x) then RExpr (QForm (vk x) (vel x) m)
  else RErr EDim.

(* ---- matrices ---- *)
Definition nrows (m : mobj) : nat := List.length (mrows m).
Definition ncols (m : mobj) : nat := match mrows m with r :: _ => List.length r | [] => 0 end.
Definition mflat (m : mobj) : list expr := concat (mrows m).

Definition m_getitem (m : mobj) (i j : Z) : res :=
  match zidx (nrows m) i, zidx (ncols m) j with
  | Some a, Some b => RExpr (nth b (nth a (mrows m) []) c0e)
  | _, _ => RErr EIndex
  end.

(* A[i, a:b:c] *)
Definition m_row (m : mobj) (i : Z) (start stop step : option Z) : res :=
  match zidx (nrows m) i with
  | None => RErr EIndex
  | Some a =>
      match slice_indices (ncols m) start stop step with
      | None => RErr EInvalid
      | Some [] => RErr EIndex
      | Some idx => RVec (mkV (KVar 0) (select c0e (nth a (mrows m) []) idx))
      end
  end.

(* A[a:b:c, j] *)
Definition m_col (m : mobj) (start stop step : option Z) (j : Z) : res :=
  match zidx (ncols m) j with
  | None => RErr EIndex
  | Some b =>
      match slice_indices (nrows m) start stop step with
      | None => RErr EInvalid
      | Some [] => RErr EIndex
      | Some idx => RVec (mkV (KVar 0) (map (fun r => nth b r c0e) (select [] (mrows m) idx)))
      end
  end.

(* A[a:b:c, d:e:f] *)
Definition m_sub (m : mobj) (s1 e1 t1 s2 e2 t2 : option Z) : res :=
  match slice_indices (nrows m) s1 e1 t1, slice_indices (ncols m) s2 e2 t2 with
  | None, _ | _, None => RErr EInvalid
  | Some [], _ | _, Some [] => RErr EIndex
  | Some ri, Some ci => RMat (mkM true (map (fun r => select c0e r ci) (select [] (mrows m) ri)))
  end.

Fixpoint transpose_rows (rows : list (list expr)) (ncol : nat) : list (list expr) :=
  map (fun j => map (fun r => nth j r c0e) rows) (seq 0 ncol).
Definition m_T (m : mobj) : res := RMat (mkM (misvar m) (transpose_rows (mrows m) (ncols m))).

Definition m_diagonal (m : mobj) : res :=
  if Nat.eqb (nrows m) (ncols m)
  then RVec (mkV (KVar 0) (map (fun i => nth i (nth i (mrows m) []) c0e) (seq 0 (nrows m))))
  else RErr ESquare.

(* trace: A[0,0] + A[1,1] + ... accumulated to the left *)
Definition m_trace (m : mobj) : res :=
  if Nat.eqb (nrows m) (ncols m) then
    match map (fun i => nth i (nth i (mrows m) []) c0e) (seq 0 (nrows m)) with
    | [] => RErr ESquare
    | d :: r => RExpr (fold_left (fun acc x => Bin Add acc x) r d)
    end
  else RErr ESquare.

Definition shape_eqb (a b : list (list expr)) : bool :=
  Nat.eqb (List.length a) (List.length b) &&
  forallb (fun p => Nat.eqb (List.length (fst p)) (List.length (snd p))) (combine a b).
Definition qshape_ok (rows : list (list expr)) (q : list (list Q)) : bool :=
  Nat.eqb (List.length rows) (List.length q) &&
  forallb (fun p => Nat.eqb (List.length (fst p)) (List.length (snd p))) (combine rows q).

(* _matrix_binary_op *)
Definition m_binop (o : bop) (l : mobj) (r : arg) : res :=
  match r with
  | AScalar q => RMat (mkM false (map (map (fun e => Bin o e (Const q))) (mrows l)))
  | AMat w => if shape_eqb (mrows l) (mrows w)
              then RMat (mkM false (map (fun p => map (fun ab => Bin o (fst ab) (snd ab)) (combine (fst p) (snd p)))
                                        (combine (mrows l) (mrows w))))
              else RErr EDim
  | AArr2 q => if qshape_ok (mrows l) q
               then RMat (mkM false (map (fun p => map (fun ab => Bin o (fst ab) (Const (snd ab))) (combine (fst p) (snd p)))
                                         (combine (mrows l) q)))
               else RErr EDim
  | AArr1 _ => RErr EDim
  | _ => RErr EInvalid
  end.

(* other - A, other / A *)
Definition m_rbinop (o : bop) (self : mobj) (other : arg) : res :=
  match other with
  | AScalar q => RMat (mkM false (map (map (fun e => Bin o (Const q) e)) (mrows self)))
  | AArr2 q => if qshape_ok (mrows self) q
               then RMat (mkM false (map (fun p => map (fun ab => Bin o (Const (snd ab)) (fst ab)) (combine (fst p) (snd p)))
                                         (combine (mrows self) q)))
               else RErr EDim
  | _ => RErr EInvalid
  end.

Definition m_neg (m : mobj) : res := RMat (mkM false (map (map (Un Neg)) (mrows m))).
Definition m_sum (m : mobj) : res := RExpr (MSum (misvar m) (mflat m)).
Definition m_frob (m : mobj) : res := RExpr (Frob (mflat m)).

(* MatrixVariable @ vector: row_expr = Constant(0.0); row_expr = row_expr + A[i,j]*x[j] *)
Definition m_matvec (m : mobj) (x : vobj) : res :=
  if Nat.eqb (ncols m) (vsize x) then
    RVec (mkV KExpr (map (fun row => fold_left (fun acc p => Bin Add acc (Bin Mul (fst p) (snd p)))
                                               (combine row (vel x)) c0e) (mrows m)))
  else RErr EDim.

(* symmetric construction: entry (i,j) with j < i is the SAME variable as (j,i) *)
Definition sym_rows (names : nat -> nat -> string) (n : nat) : list (list expr) :=
  map (fun i => map (fun j => if Nat.ltb j i then Var (names j i) else Var (names i j)) (seq 0 n)) (seq 0 n).
